"""C04 - .p8.png cart write/read round trip preserves cart and label picture."""
import os
import random
import shutil
import tempfile

import lib
from props import shortp8

ID = 'C04'
GEN_FILES = ['K_compress', 'K_p8png', 'K_p8png_codec',
             # source pins of the hand-modelled modules (gen/kernels_pins.py)
             'T_pins_p8png', 'T_pins_compress', 'T_pins_file', 'T_pins_util', 'T_pins_fmtbase', 'T_pins_game']
COQ_PROPERTY = 'theories/Properties/C04.vo'
COQ_EXTRA = ['theories/Generated/K_p8png_selftest.vo', 'theories/Generated/K_p8png_codec_selftest.vo',
             'theories/Generated/K_compress_selftest.vo',
             'theories/Properties/C04Chain.vo',
             'theories/Proofs/P8PngPins.vo', 'theories/Proofs/CompressPins.vo', 'theories/Proofs/FilePins.vo', 'theories/Proofs/UtilPins.vo', 'theories/Proofs/FmtBasePins.vo', 'theories/Proofs/GamePins.vo']     # C04_p8_png_p8: composition with the .p8 stack (C03's cone)
MODEL = ('ExC04', 'c04_main.ml')
MONITOR = ('MonC04', 'c04_mon_main.ml')
CASE_TIMEOUT = 900
SIZES = [0x2000, 0x1000, 0x100, 0x100, 0x1100]
AREA = 0x8000 - 0x4300
RULE = ('one evaluation = one cart (five regions, version, Lua source) written with the public file.to_file into a '
        'temporary directory the check creates and removes - with no existing destination (bundled blank label) or with '
        'an existing 160x205 RGBA destination carrying arbitrary label pixels - then the file bytes are decoded by an '
        'independent minimal PNG reader (harness/pngref.py) and read back with file.from_file. Correspondence: the '
        'pixel rows found in the file vs the extracted model write_png_pixels, and the cart read back vs the extracted '
        'model read_png_pixels. Monitor: extracted holds_C04_image / holds_C04_readback / holds_C04_refused on the real '
        'pixels and carts. Code sizes 0,1,...,64, ~1k, ~8k, around the plain/compressed switch, around 0x3d00 +-3 '
        'encoded bytes (plain and compressed), plain-fits-but-compressed-does-not, with/without _update60, CR inside. '
        'Chains .p8 -> .p8.png -> .p8 on the test carts, on generated carts, and on .p8 files with SHORT sections (newer '
        'PICO-8 versions leave out the empty tail of a data section): a generated cart whose regions end in the empty '
        'default is written as .p8, the harness removes the trailing all-default rows of every section (sections without a '
        'row left out altogether, with or without blank separator lines), and both the first reading and the reading at the '
        'end of the chain must have the code and the full regions of the generated cart; plus hand-written minimal carts. '
        'distinct+non-trivial = distinct (code, version, destination kind) with non-empty code')
ASSUMPTIONS = [
    'label source images are 160x205 8-bit RGBA PNGs (what a .p8.png is); other pixel formats are outside the property',
    'Lua sources are NUL-free byte strings that picotool parses (a Game can only hold parsed code); a source equal to '
    'b":c:" cannot be told apart from an empty compressed area by any reader of the format and does not parse as Lua',
    'texts ending with one of the two PICO-8 compatibility suffixes are outside the round trip (stripped by design)',
]
PARTIAL = ('"The written image is a valid PNG" and "pixels of the file" are runtime behaviour of pypng + zlib, outside the '
           'Coq model: observed on every case by an independent PNG reader (signature, CRCs, chunk order, zlib stream, '
           'filters, size), not proved. The theorems are about the pixel rows handed to / received from pypng. '
           'The .p8 -> .p8.png -> .p8 chain: C04_p8_png_p8 (Properties/C04Chain.v) is proved at the model level for an '
           'abstract Lua object with the lexer-stack facts as hypotheses; C04_p8_png_p8_lexer instantiates it with the '
           'lexer model and the echo writer and discharges ALL of them (each of the three readings re-lexes, final code = '
           'the echoed text with a final newline supplied, plus one more for plain storage) for code text without '
           'carriage returns; with carriage returns (C04_p8_png_p8_lexer_cr) the .p8.png reader lexes a different text '
           '(CR -> space) and that the lexer accepts it stays a hypothesis. Left as in C03: the parser accepts what the '
           'lexer accepts. The real chain is observed on the test carts and generated carts.')
TRUSTED = ['harness/pngref.py (independent PNG reader/writer, ~150 lines, cross-checked against pypng on the test carts)',
           'Spec/P8PngSpec.v and Spec/PxcFormat.v: the cart image format transcribed by hand from the format notes',
           'pypng + zlib (container: observed, not modelled)']
CLAIM = dict(
    text=("Theorems (Coq, closed under the global context, no bound on cart contents or code): C04_stego (two bits per "
          "channel in A,R,G,B order: unpack(pack)=byte, upper six bits of every channel untouched), C04_layout "
          "(gfx|map|gff|music|sfx|code|version join/split), C04_code_area (every fitting text, stored compressed or "
          "plain, every version byte incl. 0, reads back as the text with CR->space (+ final newline when plain)), "
          "C04_refuse_oversize(_write) (code whose chosen encoding does not fit raises ValueError; nothing is written), "
          "C04_cart_roundtrip (for every cart - all region bytes, every version - whose code fits and every 160x205 RGBA "
          "label image: the rows written keep the label's upper six bits and read back to identical regions, version and "
          "normalised code). They are about a model of p8png.py/compress.py AFTER fix: commits (plain storage raised "
          "TypeError; oversize code was written, not refused; version 0 carts were read as plain text; code that fits "
          "plain was refused when its compressed form did not fit). Tie: stego channel expressions, header bytes, slice "
          "bounds, join order, size tests regenerated on every run; pixel loops / layout hand-modelled and compared on "
          "real files written by file.to_file and decoded by an independent PNG reader; extracted instance predicates "
          "judge the real pixels and the real cart read back. C04_p8_png_p8 (Properties/C04Chain.v) composes this with C03's .p8 round trip: "
          ".p8 -> .p8.png -> .p8 succeeds at every step and preserves regions and version, the code up to the two readers' "
          "normalisations (lexer-stack facts as hypotheses); C04_p8_png_p8_lexer: the same with the lexer model and echo "
          "writer as the Lua object and every lexer-stack hypothesis discharged, for code without carriage returns "
          "(C04_p8_png_p8_lexer_cr: with them, the re-lex of the CR->space text stays a hypothesis). The chain is also "
          "observed from .p8 files with short sections (newer PICO-8 versions leave out the empty tail of a data section; a "
          "fix: commit makes the .p8 reader fill them up - before, such a cart lost its code as .p8.png): rows stripped by the "
          "harness from generated carts, and hand-written minimal carts. PARTIAL: PNG container validity is observed at run time "
          "with an independent PNG reader, not proved."),
    note=("Trusted: Coq kernel+VM, translator + sub-expression hook, ExtrOcamlBasic extraction, OCaml glue, "
          "harness/pngref.py, the hand transcription of the cart image format in Spec/P8PngSpec.v, the hand-modelled "
          "loops of Model/PngStego.v and Model/P8Png.v. pypng/zlib are not modelled."),
    technique='Coq proof over regenerated kernels + extracted-model correspondence on real files + extracted monitor + independent PNG reader',
    design_ref='8 C04')

TABLE = b'\n 0123456789abcdefghijklmnopqrstuvwxyz!#%(){}[]<>+=/*:;.,~_'


# ----------------------------------------------------------------------------- building blocks
def de_bruijn2(alphabet):
    """cyclic sequence in which every ordered pair over the alphabet occurs exactly once"""
    k = len(alphabet)
    a = [0] * (k * 2)
    seq = []

    def db(t, p):
        if t > 2:
            if 2 % p == 0:
                seq.extend(a[1:p + 1])
        else:
            a[t] = a[t - p]
            db(t + 1, p)
            for j in range(a[t - p] + 1, k):
                a[t] = j
                db(t + 1, t)
    db(1, 1)
    return bytes(alphabet[i] for i in seq)


_DB = None


def literal_run(n):
    """n table characters (no newline) without any repeated pair inside a 3120-byte window: costs exactly n
    bytes in the compressed stream and offers no match"""
    global _DB
    if _DB is None:
        _DB = de_bruijn2([c for c in TABLE if c != 10])
    reps = n // len(_DB) + 2
    return (_DB * reps)[:n]


def lua_program(rng, size, update60=False):
    """a syntactically valid Lua program of exactly `size` bytes (size >= 0)"""
    if size == 0:
        return b''
    if size == 1:
        return rng.choice([b'\n', b' '])
    idents = ['x', 'y', 'i', 'player', 'enemy', 'pos', 'vel', 't', 'n', 'score']
    out = []
    n = 0
    if update60 and size >= 30:
        out.append('function _update60()\n x=1\nend\n')
        n += len(out[-1])
    while n < size - 40:
        a, b = rng.choice(idents), rng.choice(idents)
        r = rng.random()
        if r < 0.2:
            s = 'function f%d(%s)\n return %s*%d\nend\n' % (rng.randrange(99), a, a, rng.randrange(9))
        elif r < 0.4:
            s = 'if %s<%d then %s=%s+%d end\n' % (a, rng.randrange(200), b, b, rng.randrange(9))
        elif r < 0.55:
            s = '%s=%s*%s\n' % (a, b, rng.choice(['0.5', '2', '0x10', '-1']))
        elif r < 0.7:
            s = 'for i=1,%d do %s=%s+i end\n' % (rng.randrange(1, 64), a, a)
        elif r < 0.85:
            s = '-- %s %s\n' % (a.upper(), ''.join(rng.choice('ABCDEFGHIJ\t"@$&') for _ in range(rng.randrange(12))))
        else:
            s = 'print("%s",%d,%d,%d)\n' % (b, rng.randrange(128), rng.randrange(128), rng.randrange(16))
        if n + len(s) > size - 2:
            break
        out.append(s)
        n += len(s)
    body = ''.join(out).encode('ascii')
    pad = size - len(body)
    if pad == 1:
        body += b'\n'
    elif pad >= 2:
        body += b'--' + bytes(rng.choice(b'abcdefgh ') for _ in range(pad - 2))
    return body


def near_full_program(rng):
    import refcompress
    sub = rng.randrange(1 << 30)
    lo, hi = AREA - 8 - 1000, AREA - 8 - 100
    size = 36000
    for _ in range(6):
        t = lua_program(random.Random(sub), size)
        c = len(refcompress.compress(t))
        if lo <= c <= hi:
            return t
        size = max(2000, min(64000, int(size * ((lo + hi) // 2) / max(c, 1))))
    return None


def comment(filler):
    return b'--' + filler


def hi_bytes(rng, n):
    return bytes(rng.randrange(128, 256) for _ in range(n))


# ----------------------------------------------------------------------------- generators
def _case(code, version=8, regions='random', dest='none', seed=0, tag=''):
    return {'code': lib.hx(code), 'version': version, 'regions': regions, 'dest': dest, 'seed': seed, 'tag': tag}


def generate(tier, rng):
    quick = tier == 'quick'
    versions = [0, 1, 5, 8, 16, 29, 255]
    dests = ['none', 'random', 'none', 'cart', 'ff', 'zero']
    kinds = ['random', 'zero', 'ff', 'ramp']
    k = 0

    def nxt(code, tag, **kw):
        nonlocal k
        k += 1
        return _case(code, version=kw.get('version', versions[k % len(versions)]),
                     regions=kw.get('regions', kinds[k % len(kinds)]), dest=kw.get('dest', dests[k % len(dests)]),
                     seed=rng.randrange(1 << 30), tag=tag)
    # sizes 0..64 (alternating compressible / incompressible content)
    for n in range(0, 65):
        if n <= 1 or n % 3 == 0:
            code = lua_program(rng, n)
        elif n % 3 == 1:
            code = comment(hi_bytes(rng, n - 2))
        else:
            code = comment(bytes(rng.choice(b'ab') for _ in range(n - 2)))
        yield nxt(code, 'size-0-64')
    # ~1k, ~8k programs, with and without _update60, CR inside
    for n, u in ((1000, False), (1024, True), (8000, False), (8192, True)):
        yield nxt(lua_program(rng, n, update60=u), 'program')
    yield nxt(b'x=1\r\ny=2\r\n-- a\rb\n', 'cr')
    yield nxt(b'function _update60()\n x=1\nend', 'update60-tail')
    yield nxt(b'function _update60()end\ns=[[--zz\nif(_upd]]--zz', 'update60-straddle')
    # around the plain/compressed switch: len(compressed) - len(text) in {-2..2}
    from pico8.game import compress
    found = {}
    tries = 0
    while len(found) < 5 and tries < 4000:
        tries += 1
        n = rng.randrange(6, 40)
        t = comment(bytes(rng.choice(b'ababab=A') for _ in range(n)))
        d = len(compress.compress_code(t)) - len(t)
        if -2 <= d <= 2 and d not in found:
            found[d] = t
    for d in sorted(found):
        yield nxt(found[d], 'switch%+d' % d)
    # around 0x3d00 encoded bytes, plain: incompressible comment of total length 0x3d00 + d
    ds = (-3, -2, -1, 0, 1, 2, 3)
    for d in ds:
        yield nxt(comment(hi_bytes(rng, AREA + d - 2)), 'plain-limit%+d' % d, dest='none' if d % 2 else 'random')
    # around 0x3d00 encoded bytes, compressed: '--' (4 stream bytes) + literal run (1 per byte) + a run of 'a' (ct bytes)
    R = 60
    ct = len(compress.compress_code(b'a' * R))
    for d in ds:
        A = AREA + d - 8 - 4 - ct
        yield nxt(comment(literal_run(A) + b'a' * R), 'compressed-limit%+d' % d, dest='none' if d % 2 else 'cart')
    # the same limit with a stream whose LAST token has two bytes (an escaped literal: a character outside the table),
    # so that the token's second byte is the very last byte of a full code area
    for d in (-1, 0, 1):
        A = AREA + d - 8 - 4 - ct - 2
        yield nxt(comment(literal_run(A) + b'a' * R + b'Z'), 'compressed-limit%+d-two-byte-end' % d, dest='none')
    # fits plain, compressed form (+8) does not
    R = 12
    ct = len(compress.compress_code(b'a' * R))
    yield nxt(comment(literal_run(15600) + b'a' * R), 'plain-fits-compressed-does-not', dest='none')
    # sources whose length needs more than 16 bits but whose compressed form fits the code area (the header
    # stores the length in two bytes: such a cart must be refused, never written with a wrapped length)
    line = b'-- ' + b'a' * 62 + b'\n'
    for nlines in ((993, 1008) if quick else (992, 993, 994, 1008, 1500, 1986)):
        yield nxt(line * nlines, 'length-over-16-bits', dest='none' if nlines % 2 else 'random')
    yield nxt(line * 990 + b'-- ' + b'a' * 57 + b'\n', 'length-65535', dest='none')
    # a compressible program that fills the code area almost completely (100..1000 bytes to spare by the harness's own
    # compressor, refcompress.py): it fits, so it must be written and read back - a library compressor that has got
    # worse (a shorter reach, a missed match) refuses it, and the refusal then stands next to a valid witness
    for _ in range(1 if quick else 3):
        t = near_full_program(rng)
        if t is not None:
            yield nxt(t, 'nearly-full-compressible', dest='none')
    # the same destination path written twice in one process: an earlier cart with another label is written there
    # first, then the file is replaced by the case's label picture (or removed) and the case's cart is written.
    # What is observed is the second write: it must not depend on the history of the path.
    for i, (pr, de) in enumerate([('random', 'cart'), ('cart', 'random'), ('ff', 'none'), ('random', 'zero'), ('none', 'random'),
                                  ('cart', 'none')] if quick else
                                 [(a, b) for a in ('none', 'random', 'cart', 'ff', 'zero') for b in ('none', 'random', 'cart', 'ff', 'zero')]):
        c = nxt(lua_program(rng, rng.choice([0, 30, 400])), 'same-path-twice', dest=de)
        c['prior'] = pr
        yield c
    # all versions on one compressible and one plain program
    for v in (0, 1, 255) if quick else range(0, 256, 5):
        yield nxt(lua_program(rng, 300), 'versions', version=v)
        yield nxt(comment(hi_bytes(rng, 20)), 'versions', version=v)
    # the two pixel functions alone: every (channel value, byte) pair on every channel, and odd image shapes
    yield {'stego': 'all-pairs', 'tag': 'stego-all-pairs', 'seed': 1, 'code': '-', 'version': 0, 'regions': '-', 'dest': '-'}
    for i, (w, h, n) in enumerate([(1, 1, 1), (1, 1, 0), (3, 2, 4), (3, 2, 6), (5, 3, 15), (7, 1, 3), (160, 2, 200), (16, 16, 255)]):
        yield {'stego': [w, h, n], 'tag': 'stego-shapes', 'seed': 100 + i, 'code': '-', 'version': 0, 'regions': '-', 'dest': '-'}
    # .p8 -> .p8.png -> .p8 chains (observed; the .p8 codec itself belongs to C03)
    import glob
    for f in sorted(glob.glob(os.path.join(lib.REPO, 'tests', 'testdata', '*.p8'))):
        c = nxt(b'', 'chain-testdata')
        c['chain'] = os.path.basename(f)
        yield c
    for n, u in ((0, False), (1, False), (40, False), (300, True), (2000, False), (6000, True)) if quick else \
            [(rng.choice([0, 1, 2, 30, 200, 1000, 5000, 14000]), rng.random() < 0.3) for _ in range(60)]:
        c = nxt(lua_program(rng, n, update60=u), 'chain')
        c['chain'] = 'generated'
        yield c
    # chains that start from a .p8 file with short sections: the regions of the cart are random in their first rows
    # and hold the empty default after them; the harness strips the trailing default rows from the .p8 text
    row_sets = [dict(gfx=2, map=0, gff=0, music=1, sfx=0), dict(gfx=0, map=1, gff=1, music=0, sfx=2),
                dict(gfx=64, map=16, gff=1, music=32, sfx=32), dict(gfx=127, map=31, gff=2, music=63, sfx=63),
                dict(gfx=1, map=32, gff=0, music=64, sfx=1), dict(gfx=0, map=0, gff=0, music=0, sfx=0)]
    if not quick:
        row_sets += [{sec: rng.choice([0, 1, 2, shortp8.ROWS[sec] // 2, shortp8.ROWS[sec] - 1, shortp8.ROWS[sec]])
                      for sec in ('gfx', 'map', 'gff', 'music', 'sfx')} for _ in range(40)]
    for i, rows in enumerate(row_sets):
        c = nxt(lua_program(rng, rng.choice([0, 1, 40, 300, 2000])), 'chain-short',
                regions='short:%d,%d,%d,%d,%d' % tuple(rows[x] for x in ('gfx', 'map', 'gff', 'music', 'sfx')))
        c['chain'] = 'short'
        c['blank'] = i % 2 == 1
        c['drop_empty'] = i % 3 != 2
        yield c
    for name in sorted(shortp8.MINIMAL):
        c = nxt(b'', 'chain-short-text')
        c['chain'] = 'text:' + name
        yield c
    if not quick:
        for i in range(450):
            n = rng.choice([0, 1, 2, 5, 30, 100, 400, 1500, 4000, 12000])
            r = rng.random()
            if r < 0.5:
                code = lua_program(rng, n, update60=rng.random() < 0.3)
            elif r < 0.75 and n >= 2:
                code = comment(hi_bytes(rng, n - 2))
            elif n >= 2:
                code = comment(bytes(rng.choice(TABLE[1:]) for _ in range(n - 2)))
            else:
                code = lua_program(rng, n)
            yield nxt(code, 'random')
        for d in range(-12, 13):
            if d not in ds:
                yield nxt(comment(hi_bytes(rng, AREA + d - 2)), 'plain-limit%+d' % d)


def corpus_cases():
    # minimised past failures (the pre-fix defects)
    yield _case(b'', tag='corpus-S4-empty')                                    # plain storage raised TypeError
    yield _case(b'--' + bytes(range(128, 160)), tag='corpus-S4-incompressible')
    yield _case(b'print("hello hello hello hello hello hello")\n', version=0, tag='corpus-S6-version0')
    yield _case(b'--' + hi_bytes(random.Random(11), AREA + 3), tag='corpus-S5-oversize')
    yield _case(comment(literal_run(15600) + b'a' * 12), tag='corpus-S5b-plain-fits', dest='none')
    # a .p8 cart with a two-row __gfx__ and a one-row __music__ section and nothing else: written as .p8.png its map and
    # music landed in sprite memory and the code was lost
    c = _case(b'', tag='corpus-short-sections')
    c['chain'] = 'text:gfx2-music1'
    yield c


# ----------------------------------------------------------------------------- implementation
def _regions(kind, seed):
    rng = random.Random(seed)
    regs = []
    for i, n in enumerate(SIZES):
        if kind.startswith('short:'):
            # the first rows random, the rest what an empty cart holds
            sec = ('gfx', 'map', 'gff', 'music', 'sfx')[i]
            regs.append(shortp8.region_with_default_tail(rng, sec, int(kind[6:].split(',')[i])))
        elif kind == 'zero':
            regs.append(bytes(n))
        elif kind == 'ff':
            regs.append(b'\xff' * n)
        elif kind == 'ramp':
            regs.append(bytes((j + 37 * i) & 255 for j in range(n)))
        else:
            regs.append(rng.randbytes(n))
    return regs


def _label_rows(kind, seed):
    rng = random.Random(seed ^ 0x5a5a)
    if kind == 'random':
        return [rng.randbytes(640) for _ in range(205)]
    if kind == 'ff':
        return [b'\xff' * 640 for _ in range(205)]
    if kind == 'zero':
        return [bytes(640) for _ in range(205)]
    if kind == 'cart':        # an earlier cart image: structured picture, low bits busy
        return [bytes(((x // 4) * 3 + y * 5 + (x % 4) * 64 + rng.randrange(4)) & 255 for x in range(640)) for y in range(205)]
    return None


def rows_hex(rows):
    return '|'.join(bytes(r).hex() for r in rows) if rows else '-'


def _stego_input(case):
    rng = random.Random(case['seed'])
    if case['stego'] == 'all-pairs':
        # pixel (row v, column b): channels (v, v^0x55, v^0xaa, 255-v), picodata byte b
        rows = [bytes(x for b in range(256) for x in (v, v ^ 0x55, v ^ 0xaa, 255 - v)) for v in range(256)]
        pd = bytes(b for v in range(256) for b in range(256))
        return pd, rows, 256, 256
    w, h, n = case['stego']
    return rng.randbytes(n), [rng.randbytes(4 * w) for _ in range(h)], w, h


def _run_stego(case):
    from pico8.game.formatter import p8png
    pd, rows, w, h = _stego_input(case)
    obs = {'pd': lib.hx(pd), 'label': rows_hex(rows), 'wh': [w, h]}
    try:
        out = p8png.get_pngdata_from_picodata(pd, [bytearray(r) for r in rows], {'planes': 4})
        obs['out'] = rows_hex(out)
        back = p8png.get_picodata_from_pngdata(w, h, out, {'planes': 4})
        obs['back'] = lib.hx(bytes(back))
    except Exception as e:  # noqa
        obs['stego_error'] = lib.exc_name(e)
    return obs


class _cwd:
    """run a block with another current directory (None: unchanged)"""
    def __init__(self, wd):
        self.wd = wd

    def __enter__(self):
        self.old = os.getcwd()
        if self.wd:
            os.chdir(self.wd)

    def __exit__(self, *a):
        os.chdir(self.old)


def run_impl(case):
    import pngref
    if case.get('stego'):
        return _run_stego(case)
    from pico8.game import file as gfile
    from pico8.game.game import Game
    from pico8.game.formatter import p8png
    from pico8.lua.lua import Lua
    code = lib.unhx(case['code'])
    v = case['version']
    regs = _regions(case['regions'], case['seed'])
    obs = {'regs': [lib.hx(r) for r in regs]}
    root = os.path.join(lib.VERIF, 'work')
    os.makedirs(root, exist_ok=True)
    d = tempfile.mkdtemp(prefix='c04-', dir=root)
    try:
        g = Game.make_empty_game(version=v)
        for s, r in zip([g.gfx, g.map, g.gff, g.music, g.sfx], regs):
            s._data[:] = r
        g.version = v
        try:
            g.lua = Lua.from_lines([code], version=v)
        except Exception as e:  # noqa  (the generator should only produce code picotool parses)
            obs['bad_lua'] = lib.exc_name(e)
            return obs
        if case.get('chain'):
            return _run_chain(case, g, d, obs)
        written = b''.join(g.lua.to_lines())
        obs['text'] = lib.hx(written)
        fn = os.path.join(d, 'cart.p8.png')
        if case.get('prior'):
            # an earlier, different cart written to the same path over another label picture
            lab0 = _label_rows(case['prior'], case['seed'] + 1)
            if lab0 is not None:
                with open(fn, 'wb') as fh:
                    fh.write(pngref.write(160, 205, lab0))
            g0 = Game.make_empty_game(version=8)
            for s0, r0 in zip([g0.gfx, g0.map, g0.gff, g0.music, g0.sfx], _regions('ramp', case['seed'] + 1)):
                s0._data[:] = r0
            g0.lua = Lua.from_lines([b'-- prior cart\nx=1\n'], version=8)
            try:
                gfile.to_file(g0, fn)
                gfile.from_file(fn)
            except Exception as e:  # noqa
                obs['prior_error'] = lib.exc_name(e)
            if os.path.exists(fn):
                os.remove(fn)
        lab = _label_rows(case['dest'], case['seed'])
        if lab is not None:
            with open(fn, 'wb') as fh:
                fh.write(pngref.write(160, 205, lab))
        else:
            with open(p8png.EMPTY_LABEL_FNAME, 'rb') as fh:
                _, _, lab = pngref.read(fh.read())
        obs['label'] = rows_hex(lab)
        try:
            # the three ways a caller can leave the label to the destination: argument omitted, passed as None, or
            # (when the destination exists) named explicitly - all must use the existing destination's picture
            how = case['seed'] % 3
            # ... and the three ways to name the destination: absolute, relative with a directory part, bare name in
            # the current directory (the picture of an existing destination must be found in each)
            pw = (case['seed'] // 3) % 3
            wd, fa = (None, fn) if pw == 0 else (root, os.path.join(os.path.basename(d), 'cart.p8.png')) if pw == 1 \
                else (d, 'cart.p8.png')
            with _cwd(wd):
                if how == 1:
                    gfile.to_file(g, fa, label_fname=None)
                elif how == 2 and case['dest'] != 'none':
                    gfile.to_file(g, fa, label_fname=fa)
                else:
                    gfile.to_file(g, fa)
            obs['raised'] = None
        except Exception as e:  # noqa
            obs['raised'] = lib.exc_name(e)
            # candidate witnesses that the code does fit compressed (validated by the monitor, not trusted): the
            # library's own compressed stream and the stream of the harness's compressor (refcompress.py, written from
            # the format description - a library compressor that has got worse cannot hide behind its own output)
            cands = []
            if len(written) < 66000:
                try:
                    from pico8.game import compress as _compress
                    if len(written) < 30000:
                        cands.append(bytes(_compress.compress_code(written)))
                except Exception:  # noqa
                    pass
                try:
                    import refcompress
                    # same policy as PICO-8's greedy compressor (reach 3120, compatibility line for _update60 text):
                    # on an unchanged library the two streams have the same length
                    cands.append(refcompress.compress(refcompress.with_future_code(written)))
                except Exception:  # noqa
                    pass
            obs['witness'] = lib.hx(min(cands, key=len)) if cands else None
            if case['dest'] != 'none':
                with open(fn, 'rb') as fh:
                    obs['dest_intact'] = fh.read() == pngref.write(160, 205, _label_rows(case['dest'], case['seed']))
            else:
                obs['dest_intact'] = not os.path.exists(fn)
            return obs
        with open(fn, 'rb') as fh:
            data = fh.read()
        try:
            w, h, rows = pngref.read(data)
            obs['png'] = [w, h]
            obs['out'] = rows_hex(rows)
        except pngref.PngInvalid as e:
            obs['png'] = 'INVALID ' + str(e)
            obs['out'] = '-'
        try:
            with open(fn, 'rb') as fh:
                raw = p8png.get_raw_data_from_p8png_file(fh, filename=fn)
            obs['raw'] = [lib.hx(bytes(x)) for x in (raw.gfx, raw.p8map, raw.gfx_props, raw.song, raw.sfx)] + \
                [lib.hx(raw.code), raw.version]
        except Exception as e:  # noqa
            obs['raw'] = 'ERR ' + lib.exc_name(e)
        try:
            g2 = gfile.from_file(fn)
            obs['back'] = [lib.hx(bytes(s._data)) for s in (g2.gfx, g2.map, g2.gff, g2.music, g2.sfx)] + \
                [lib.hx(b''.join(g2.lua.to_lines())), g2.version]
        except Exception as e:  # noqa
            obs['back'] = 'ERR ' + lib.exc_name(e)
        return obs
    finally:
        shutil.rmtree(d, ignore_errors=True)


def _cart_of(g):
    return [lib.hx(bytes(s._data)) for s in (g.gfx, g.map, g.gff, g.music, g.sfx)] + \
        [lib.hx(b''.join(g.lua.to_lines())), g.version]


def _run_chain(case, g, d, obs):
    """cart -> a.p8 -> read -> b.p8.png -> read -> c.p8 -> read; compares the first and the last reading"""
    from pico8.game import file as gfile
    a, b, c = (os.path.join(d, n) for n in ('a.p8', 'b.p8.png', 'c.p8'))
    try:
        if case['chain'] == 'short':
            # the cart as .p8, then - as PICO-8 does when it saves - without the trailing rows that hold the default
            gfile.to_file(g, a)
            with open(a, 'rb') as fh:
                whole = fh.read()
            short, keep = shortp8.strip_default_tail(whole, blank_lines=case.get('blank', False),
                                                     drop_empty=case.get('drop_empty', True))
            with open(a, 'wb') as fh:
                fh.write(short)
            obs['rows_kept'] = keep
            obs['p8_text'] = lib.hx(short[:400])
            obs['intended'] = _cart_of(g)
        elif case['chain'].startswith('text:'):
            with open(a, 'wb') as fh:
                fh.write(shortp8.MINIMAL[case['chain'][5:]])
            obs['p8_text'] = lib.hx(shortp8.MINIMAL[case['chain'][5:]][:400])
        elif case['chain'] != 'generated':
            shutil.copy(os.path.join(lib.REPO, 'tests', 'testdata', case['chain']), a)
        else:
            gfile.to_file(g, a)
        g1 = gfile.from_file(a)
        obs['chain_first'] = _cart_of(g1)
    except Exception as e:  # noqa   (a .p8 problem: not this property's mechanism)
        obs['chain_p8_error'] = lib.exc_name(e)
        return obs
    try:
        gfile.to_file(g1, b)
        g2 = gfile.from_file(b)
        gfile.to_file(g2, c)
        g3 = gfile.from_file(c)
        obs['chain_last'] = _cart_of(g3)
    except Exception as e:  # noqa
        obs['chain_last'] = 'ERR ' + lib.exc_name(e)
    return obs


# ----------------------------------------------------------------------------- model (correspondence)
def model_requests(case, obs):
    if obs.get('timeout') or 'bad_lua' in obs or case.get('chain'):
        return []
    if case.get('stego'):
        reqs = ['stego %s 4 %s' % (obs['pd'], obs['label'])]
        if 'out' in obs:
            reqs.append('unstego %d %d 4 %s' % (obs['wh'][0], obs['wh'][1], obs['out']))
        return reqs
    reqs = ['write %s %s %d 4 %s' % (' '.join(obs['regs']), obs['text'], case['version'], obs['label'])]
    if obs['raised'] is None and obs['out'] != '-':
        reqs.append('read 160 205 4 %s' % obs['out'])
    return reqs


def compare(case, obs, answers):
    if obs.get('timeout'):
        return 'implementation timed out'
    if 'bad_lua' in obs or case.get('chain'):
        return None
    if obs.get('prior_error'):
        return 'the earlier write to the same path raised %s' % obs['prior_error']
    if case.get('stego'):
        exp = ['ERR ' + obs['stego_error']] if 'stego_error' in obs and 'out' not in obs else \
            ['OK ' + obs['out'], ('OK ' + obs['back']) if 'back' in obs else 'ERR ' + obs.get('stego_error', '?')]
        for e, a in zip(exp, answers):
            if e != a:
                return 'pixel functions: implementation %s..., model %s...' % (e[:70], a[:70])
        return None
    if obs['raised'] is not None:
        exp = 'ERR ' + obs['raised']
        if answers[0] != exp:
            return 'to_file: implementation %s, model %s' % (exp, answers[0][:80])
        return None
    if answers[0] != 'OK ' + obs['out']:
        a = answers[0]
        if not a.startswith('OK '):
            return 'to_file wrote a file, model write_png_pixels says %s' % a[:80]
        ra, rb = a[3:].split('|'), obs['out'].split('|')
        for y, (p, q) in enumerate(zip(ra, rb)):
            if p != q:
                x = next(i for i in range(0, min(len(p), len(q)), 2) if p[i:i + 2] != q[i:i + 2]) // 2
                return 'pixel rows differ at row %d channel value %d: file %s, model %s' % (y, x, q[2 * x:2 * x + 2], p[2 * x:2 * x + 2])
        return 'pixel rows differ in shape'
    if len(answers) > 1:
        if isinstance(obs['raw'], str):
            exp = obs['raw']
        else:
            exp = 'OK ' + ' '.join(str(x) for x in obs['raw'])
        if answers[1] != exp:
            return 'get_raw_data_from_p8png_file: implementation %s..., model %s...' % (exp[:60], answers[1][:60])
    return None


# ----------------------------------------------------------------------------- monitor
def monitor_requests(case, obs):
    if obs.get('timeout') or 'bad_lua' in obs:
        return []
    if case.get('stego'):
        if 'back' not in obs:
            return ['pixels-' + obs.get('stego_error', 'failed')]
        return ['pixels %s %s %s %s' % (obs['pd'], obs['label'], obs['out'], obs['back'])]
    if case.get('chain'):
        if 'chain_first' not in obs:
            return []
        first = ' '.join(str(x) for x in obs['chain_first'])
        reqs = []
        if 'intended' in obs:
            # the first reading is the generated cart (full regions, its code); the last one too (code as first read)
            reqs.append('readback %s %s' % (' '.join(str(x) for x in obs['intended']), first))
            first = ' '.join(str(x) for x in obs['intended'][:5] + obs['chain_first'][5:])
        elif [len(x) // 2 for x in obs['chain_first'][:5]] != SIZES:
            reqs.append('readback-first-reading-has-regions-of-%s-bytes' % '-'.join(
                str(len(x) // 2) for x in obs['chain_first'][:5]))
        if isinstance(obs['chain_last'], str):
            return reqs + ['readback-' + obs['chain_last'].replace(' ', '-')]
        return reqs + ['readback %s %s' % (first, ' '.join(str(x) for x in obs['chain_last']))]
    cart = '%s %s %d' % (' '.join(obs['regs']), obs['text'], case['version'])
    if obs['raised'] is not None:
        reqs = ['refused ' + obs['text'], 'flag %d' % (1 if obs.get('dest_intact') else 0)]
        if obs.get('witness'):
            reqs.append('refusedw %s %s' % (obs['text'], obs['witness']))
        return reqs
    reqs = ['image %s %s %s' % (cart, obs['label'], obs['out'])]
    for key in ('raw', 'back'):
        if isinstance(obs[key], str):
            reqs.append('readback-' + obs[key].replace(' ', '-'))          # not a request: answers DRIVER-ERROR
        else:
            reqs.append('readback %s %s' % (cart, ' '.join(str(x) for x in obs[key])))
    return reqs


def signature(case, obs):
    if case.get('stego'):
        return 'C04/stego/%s' % case['tag']
    if case.get('chain'):
        return 'C04/chain/%s' % case['chain'].split(':')[0]
    if obs.get('raised') is not None:
        if not obs.get('dest_intact', True):
            return 'C04/refused/destination-modified'
        return 'C04/refused-although-it-fits/%s' % obs['raised']
    if isinstance(obs.get('png'), str):
        return 'C04/invalid-png'
    tag = case.get('tag', '').split('+')[0].split('-limit')[0]
    if case.get('prior'):
        return 'C04/roundtrip/same-path-twice'
    return 'C04/roundtrip/%s/version-%s' % (tag or 'cart', 'zero' if case['version'] == 0 else 'nonzero')


def what(case, obs):
    if case.get('chain'):
        return ('.p8 -> .p8.png -> .p8 does not preserve code and data of the cart (%s; rows of gfx,map,gff,music,sfx: %s)' % (
            signature(case, obs), case['regions'] if case['chain'] == 'short' else case['chain']))
    return '.p8.png write/read of a cart with %d bytes of code (version %d, destination %s) violates the round trip: %s' % (
        len(lib.unhx(case['code'])), case['version'], case['dest'], signature(case, obs))


def describe(case, obs):
    if case.get('stego'):
        return {'tag': case['tag'], 'stego': case['stego']}
    d = {'tag': case.get('tag'), 'code_len': len(lib.unhx(case['code'])), 'version': case['version'],
         'regions': case['regions'], 'dest': case['dest']}
    if case.get('prior'):
        d['prior'] = case['prior']
    if case.get('chain'):
        d['chain'] = case['chain']
        if obs and 'p8_text' in obs:
            d['p8_file_starts'] = lib.unhx(obs['p8_text']).decode('latin-1')
            d['rows_kept'] = obs.get('rows_kept')
            for key in ('chain_first', 'chain_last'):
                if isinstance(obs.get(key), list):
                    d[key + '_region_sizes'] = [len(x) // 2 for x in obs[key][:5]]
                    d[key + '_code'] = lib.unhx(obs[key][5])[:60].decode('latin-1')
                elif key in obs:
                    d[key] = obs[key]
    if obs and not obs.get('timeout'):
        d['raised'] = obs.get('raised')
        d['png'] = obs.get('png')
        if 'bad_lua' in obs:
            d['bad_lua'] = obs['bad_lua']
    return d


def nontrivial_key(case, obs):
    if case.get('stego'):
        return ('stego', str(case['stego']))
    if len(case['code']) > 1 and not obs.get('bad_lua'):
        return (case['code'], case['version'], case['dest'])
    return None


def histogram_key(case, obs):
    k = case.get('tag', 'cart').split('+')[0].split('-limit')[0]
    if case.get('stego'):
        return k
    if obs.get('bad_lua'):
        return 'not-a-lua-program'
    if case.get('chain'):
        return k + ('/p8-error' if 'chain_p8_error' in obs else '')
    if obs.get('raised'):
        return k + '/refused'
    return k + ('/existing-destination' if case['dest'] != 'none' else '/no-destination')


class _Pre:
    """prop facade whose run_impl returns precomputed observations (the implementation ran in a process pool)"""

    def __init__(self, mod, table):
        self._m = mod
        self._t = table

    def __getattr__(self, n):
        return getattr(self._m, n)

    def run_impl(self, case):
        return self._t[id(case)]


def _safe_impl(case):
    try:
        return lib.with_alarm(CASE_TIMEOUT, run_impl, case)
    except lib.Timeout:
        return {'timeout': True}


def run_cases(cases, ctx):
    import multiprocessing
    mod = __import__('props.c04', fromlist=['x'])
    n = min(lib.NCPU, 12, max(1, len(cases)))
    if len(cases) > 2:
        with multiprocessing.get_context('fork').Pool(n) as pool:
            obs = pool.map(_safe_impl, cases, chunksize=1)
    else:
        obs = [_safe_impl(c) for c in cases]
    pre = _Pre(mod, {id(c): o for c, o in zip(cases, obs)})
    res = lib.standard_run(pre, cases, ctx)
    bad = [c.get('tag') for c, o in zip(cases, obs) if o.get('bad_lua')]
    if bad:
        res['disagreements'].append({'case': None, 'summary': {'generator': 'produced code picotool does not parse', 'tags': bad[:5]},
                                     'difference': 'generator defect: %d cases are not Lua programs' % len(bad)})
    return res


def search(ctx, budget):
    import time
    rng = random.Random(ctx['seed'] + 1)
    t0 = time.time()
    cases = []
    for c in generate('quick', rng):
        if 'limit' in c['tag'] or 'plain-fits' in c['tag']:
            continue
        cases.append(c)
    cases.sort(key=lambda c: c['tag'] != 'nearly-full-compressible')      # the expensive, telling case first
    r = run_cases(cases[:120], {'monitor_exe': ctx.get('monitor_exe'), 'model_exe': None})
    return {'violations': r['violations'], 'evaluations': r['evaluations'], 'seconds': round(time.time() - t0, 1)}
