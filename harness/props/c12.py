"""C12 - require() and #include never read files outside the permitted directories."""
import itertools
import os
import posixpath

import lib
from props import fsobs

ID = 'C12'
GEN_FILES = ['T_files_p8', 'T_files_build', 'T_p8scii',
             # source pins of the hand-modelled modules (gen/kernels_pins.py)
             'T_pins_build', 'T_pins_p8']
COQ_PROPERTY = 'theories/Properties/C12.vo'
COQ_EXTRA = ['theories/Proofs/BuildPins.vo', 'theories/Proofs/P8Pins.vo']
MODEL = ('ExC12', 'c12_main.ml')
MONITOR = ('MonC12', 'c12_mon_main.ml')
RULE = ('three streams. paths: every string built from <= 5 components of {a, ab, ., .., ""} with/without leading and '
        'trailing "/" (+ //, ///, ~ forms): normpath, dirname, expanduser, abspath (3 working directories) and join '
        '(all pairs of the short ones) of the model vs posixpath. include: a cart at one of 5 places (own directory, '
        'sub-directory, PICO-8 carts folder, its sub-directory, a prefix-sharing sibling of the carts folder) named '
        'absolutely or relatively, with one `#include <prefix><c1>/../<ck>/x.lua`, ci from {., .., sub, foo, foobar, fo, '
        '"", a}, k <= 3, prefix from {"", /, absolute sandbox paths}; file.from_file under wrappers recording every '
        'open()/isfile()/exists(). require: main.lua with one require("<string>"), string = <= 4 components of '
        '{a, ab, sub, ., .., "", proj, projx, lib, init, ?, a;b} with/without leading/trailing "/", plus 39 strings with the '
        'load-path metacharacters ; and ? combined with absolute / parent paths of canary files that exist outside every '
        'root (ok;<sandbox>/w/a.lua, ?;<sandbox>/w/a, ok;../a, ...), x 7 load-path '
        'settings (default, environment variable, relative --lua-path, absolute, ../lib, two placeholders in a pattern, patterns that climb '
        'after a placeholder: ?/../a.lua;lib/?/../../?;??;?./a.lua) x 3 working directories x '
        'main named absolutely/relatively; tool.main([build ...]) under the same wrappers, canary files outside every '
        'root. graph: a main file and up to 10 library files (a, b, c, sub/a, sub/b, sub/sub/a, lib/a, lib/b, init, a/init), each '
        'with 0-3 require() lines over those names (+ missing, .., "", /a, ./a, ...), 7 load-path settings, 3 working '
        'directories: the complete sequence of isfile probes and opens of tool.main([build ...]) vs the model of the whole '
        'recursion (Model/RequireWalk.v). Each run: outcome / resolved path / probe sequence vs the extracted model, and the extracted monitor '
        '(Spec only) on the recorded accesses. distinct+non-trivial = distinct (stream, string, placement, load path) '
        'whose run touched the file system beyond the named files')
CLAIM = dict(
    text=("Theorems (Coq, closed under the global context), about the model of the code after four `fix:` commits "
          "(findings/known_C12.json): C12_include_contained (whatever the include string, cart name, working directory, "
          "HOME and file system, a path process_includes goes on to open lies under the include root), "
          "C12_include_root_sound (the root is a carts folder the cart lies in, or the cart's own directory), "
          "C12_include_rejects_outside (a string denoting a place outside the root is rejected with "
          "P8IncludeOutsideOfAllowedDirectory), C12_include_ok_spec, C12_include_model_holds (for carts outside the "
          "carts folders the model's accesses satisfy the monitor's predicate with the Spec-computed root); "
          "C12_require_contained_general (ANY load path - any number of '?', any components, absolute or relative - any "
          "requiring file, working directory and string the filter lets through: every candidate handed to os.path.isfile / "
          "open lies under pattern_root = the directory part of the pattern in front of its first '?' minus pattern_climb "
          "levels, a function of the pattern text and the requiring file's directory alone (Spec/LoadPathSpec.v); no "
          "hypothesis on the pattern or on the instantiated path), C12_require_candidate_under_root, C12_require_root_location, "
          "C12_require_sane_climb0 (patterns DIR/NAME?SUFFIX have climb 0, root = pattern_dir), C12_require_contained and "
          "C12_require_contained_flat (corollaries for sane / climb-0 load paths, the latter incl. several placeholders), "
          "C12_require_contained_any_path, "
          "C12_require_default_path (default path: under the requiring file's directory), C12_require_filter_spec, "
          "C12_require_model_holds (for every package graph, file system, load path and depth, the trace of the "
          "model of the whole _evaluate_require recursion satisfies the predicate the monitor evaluates), "
          "C12_require_monitor_flat / _sane (for climb-0 load paths the monitor's roots are the requiring files' directories "
          "and pattern_dir of the patterns); C12_require_natural_refuted (beyond climb 0 a candidate need not lie under "
          "pattern_dir: '??' with require('.'); the place reached is not a function of the pattern and the number of "
          "components of the string: ?/../x with 'a' / '.', x?../../y with 'a/b' / 'a/'), C12_require_root_exact_examples "
          "(for seven climbing patterns require('.') reaches a place not under the directory one level below pattern_root), "
          "C12_require_plain_location (for strings made of proper names only the candidate's location is pattern_dir's "
          "location minus m levels plus h names, (m, h) = plain_profile(pattern, number of components)); "
          "C12_abspath_location (the posixpath model's normpath/abspath preserve the POSIX location and leave no "
          "'..'); C12_monitor / C12_monitor_growing (soundness of the extracted monitors). "
          "C12_include_prefix_variant_refuted and C12_require_variants_refuted: the statements are false for the "
          "string-prefix tests / two-test filter the code had before the fixes (vm_compute witnesses), and for a "
          "load path with a pattern like ?/../../x. Tie: the SHAPES of the two containment tests and of the require "
          "filter, the regex sources, PICO8_CART_PATHS, DEFAULT_LUA_PATH, split/replace characters are regenerated "
          "from the source and pinned (a reverted fix breaks a pin and the search replays the witness); the path "
          "functions are compared with posixpath on ~335,000 inputs (incl. unusual HOME values); the resolution logic with file.from_file / "
          "tool.main(build) in a sandbox tree with canary files, incl. the complete probe/open trace of random package "
          "graphs; the Spec-only monitor runs on the recorded accesses."),
    note=("Trusted: Coq kernel+VM, extraction, OCaml glue, the in-process wrappers around builtins.open / "
          "os.path.isfile / os.path.exists (harness/props/fsobs.py), the modelling of posixpath (correspondence-tested), "
          "POSIX resolution without symbolic links as the meaning of 'located under' (Spec/PathSpec.v). "
          "`~user` expansion and symlinks are not modelled. Level: proof for the model + monitor soundness; the "
          "implementation is tied by regenerated test shapes, bounded correspondence and the run-time monitor."),
    technique='Coq proof over a posixpath model + regenerated test shapes + extracted-model correspondence + extracted monitor on recorded file accesses',
    design_ref='8 C12')
ASSUMPTIONS = ['paths are UTF-8 byte strings without NUL; os.getcwd() is absolute; HOME is set; no symbolic links inside the sandbox tree',
               'os.path.isfile/exists probes count as accesses (the property\'s observe_at lists them)',
               'the Lua load path (--lua-path / PICO8_LUA_PATH) is the configuration of the person running the tool: the '
               'directories it designates (pattern_root of each pattern; pattern_dir for every pattern of climb 0) are permitted']
PARTIAL = ('symbolic links, mount points and `~user` are operating-system behaviour outside the model')
TRUSTED = ['in-process wrappers around builtins.open, os.path.isfile, os.path.exists (harness/props/fsobs.py)']

# ---------------------------------------------------------------- sandbox layout
_SB = {'root': None, 'files': None}

INC_FILES = [
    'home/.lexaloffle/pico-8/carts/x.lua', 'home/.lexaloffle/pico-8/carts/sub/x.lua',
    'home/.lexaloffle/pico-8/carts/foo/x.lua', 'home/.lexaloffle/pico-8/carts/a/x.lua',
    'home/.lexaloffle/pico-8/cartsX/x.lua', 'home/.lexaloffle/pico-8/cartsX/sub/x.lua',
    'home/.lexaloffle/pico-8/cartsY/x.lua', 'home/.lexaloffle/pico-8/x.lua', 'home/x.lua',
    'home/.lexaloffle/pico-8/foo/x.lua', 'home/.lexaloffle/pico-8/sub/x.lua',
    't/foo/x.lua', 't/foo/a/x.lua', 't/foo/sub/x.lua', 't/foo/sub/a/x.lua', 't/foo/sub/sub/x.lua', 't/foo/foo/x.lua',
    't/foo/sub/foo/x.lua', 't/foo/fo/x.lua', 't/foo/foobar/x.lua',
    't/foobar/x.lua', 't/fo/x.lua', 't/x.lua', 't/a/x.lua', 't/sub/x.lua', 'x.lua', 'a/x.lua', 'foo/x.lua',
    't/foo/subx/x.lua',
    # siblings whose names differ from the permitted directories only in letter case (the file system is case-sensitive)
    't/FOO/x.lua', 't/Foo/x.lua', 't/foo/SUB/x.lua', 'home/.lexaloffle/pico-8/CARTS/x.lua', 'home/.lexaloffle/pico-8/Carts/x.lua',
]
# include cases that always run (the sampled product below may miss them): case-variant siblings
INC_MUST = [('foo', 'abs', 't', '../FOO/x.lua'), ('foo', 'abs', 't', '../Foo/x.lua'), ('foo', 'rel', 't/foo', '../FOO/x.lua'),
            ('foo', 'abs', 't', 'S/t/FOO/x.lua'), ('foosub', 'abs', 't', '../SUB/x.lua'), ('foosub', 'rel', 't', '../../FOO/x.lua'),
            ('carts', 'abs', 't', '../CARTS/x.lua'), ('carts', 'rel', 'home', '../Carts/x.lua'),
            ('cartssub', 'abs', 't', '../../CARTS/x.lua'), ('cartsX', 'abs', 't', '../CARTS/x.lua')]
CARTS = {
    'foo': 't/foo/c.p8', 'foosub': 't/foo/sub/c.p8',
    'carts': 'home/.lexaloffle/pico-8/carts/c.p8', 'cartssub': 'home/.lexaloffle/pico-8/carts/sub/c.p8',
    'cartsX': 'home/.lexaloffle/pico-8/cartsX/c.p8',
}
INC_CWDS = ['t', 't/foo', 't/foo/sub', 'home']
REQ_FILES = [
    'w/proj/a.lua', 'w/proj/ab.lua', 'w/proj/a/init.lua', 'w/proj/sub/a.lua', 'w/proj/sub/init.lua', 'w/proj/sub/ab.lua',
    'w/proj/lib/a.lua', 'w/proj/lib/ab.lua', 'w/proj/proj/a.lua', 'w/proj/init/a.lua', 'w/proj/sub/lib/a.lua',
    'w/proj/sub/sub/a.lua', 'w/proj/a/a.lua', 'w/proj/lib/a/a.lua', 'w/proj/lib/ab/ab.lua',
    'w/lib/a.lua', 'w/lib/ab.lua', 'w/lib/sub/a.lua', 'w/lib/init.lua',
    # canaries: outside every root for the default / relative settings
    'w/init.lua', 'w/a.lua', 'w/ab.lua', 'w/projx/a.lua', 'w/projx/init.lua', 'w/sub/a.lua', 'init.lua', 'a.lua', 'lib/a.lua',
    'w/proj.lua', 'w/a/init.lua',
    # canaries in the home directory (HOME = <S>/home during the runs): a require string starting with ~ must not reach them
    'home/a.lua', 'home/init.lua', 'home/secret', 'home/w/a.lua',
]
NESTED = {'w/proj/sub/ab.lua': b'require("a")\nv_nested=1\n'}
REQ_CWDS = ['w/proj', 'w', '']
LOAD_PATHS = ['default', 'env', 'rel', 'abs', 'up', 'multi', 'climb']
GRAPH_LOAD_PATHS = ['default', 'env', 'rel', 'abs', 'up', 'multi']    # the model's isfile is lexical: no pattern with '..' after a placeholder


def load_path(setting, S):
    """-> (argv value or None, environment value or None)"""
    if setting == 'default':
        return None, None
    if setting == 'env':
        return None, '?;?.lua;lib/?.lua'
    if setting == 'rel':
        return '?.lua;lib/?.lua;?/init.lua', None
    if setting == 'abs':
        return S + '/w/lib/?.lua;?.lua', 'ignored/?.lua'
    if setting == 'up':
        return '../lib/?.lua;?', None
    if setting == 'multi':                      # several placeholders in one pattern
        return '?/?.lua;lib/?/?.lua;?', None
    if setting == 'climb':                      # patterns that go up after a placeholder (pattern_climb 1, 2, 1, 1):
        return '?/../a.lua;lib/?/../../?;??;?./a.lua', None    # require(".") reaches w/a.lua, inside the designated w/
    raise ValueError(setting)


def sandbox():
    if _SB['root'] is None:
        S = fsobs.mk_sandbox('c12')
        n = 0
        for rel in INC_FILES + REQ_FILES:
            n += 1
            fsobs.write_file(os.path.join(S, rel), NESTED.get(rel, b'canary_%d=%d\n' % (n, n)))
        for rel in CARTS.values():
            fsobs.write_file(os.path.join(S, rel), fsobs.p8_text(b''))
        fsobs.write_file(os.path.join(S, 'w/proj/main.lua'), b'\n')
        os.makedirs(os.path.join(S, 'out'), exist_ok=True)
        files = []
        for root, _, fs in os.walk(S):
            for f in fs:
                files.append(os.path.join(root, f))
        _SB['root'], _SB['files'] = S, sorted(files)
    return _SB['root']


def cleanup():
    fsobs.rm_sandbox(_SB['root'])
    _SB['root'] = _SB['files'] = None


# ---------------------------------------------------------------- generators
def path_strings():
    comps = ['a', 'ab', '.', '..', '']
    strs = set()
    for n in range(0, 6):
        for t in itertools.product(comps, repeat=n):
            body = '/'.join(t)
            for lead in ('', '/'):
                for trail in ('', '/'):
                    strs.add(lead + body + trail)
    strs |= {'//a', '///a', '//', '///', '////a/..', '~', '~/', '~/a', '~a', '~a/b', '~//a', 'a~', '//..', '//../a', '/..'}
    return sorted(strs)


def include_strings():
    alpha = ['.', '..', 'sub', 'foo', 'foobar', 'fo', '', 'a']
    out = []
    for k in range(0, 4):
        for t in itertools.product(alpha, repeat=k):
            out.append('/'.join(t + ('x.lua',)))
    return out


def require_strings():
    alpha = ['a', 'ab', 'sub', '.', '..', '', 'proj', 'projx', 'lib', 'init', '?', 'a;b']
    out = []
    for k in range(0, 5):
        for t in itertools.product(alpha, repeat=k):
            body = '/'.join(t)
            for lead in ('', '/'):
                for trail in ('', '/'):
                    out.append(lead + body + trail)
    return sorted(set(out))


# require strings with load-path metacharacters (';' separates patterns, '?' is the placeholder) combined with
# absolute / parent paths of canary files that really exist outside every root (<S> = the sandbox directory):
# with the code as it is they are harmless (the string is substituted per pattern, after the split); a change
# that lets them act as load-path syntax opens a canary
META_REQS = ['ok;<S>/w/a.lua', 'ok;<S>/w/a', ';<S>/w/a.lua', ';<S>/w/a', '?;<S>/w/a', 'a?;<S>/w/a.lua', 'ok;<S>/w/init',
             'ok;<S>/w/projx/a', 'ok;<S>/w/projx/init.lua', 'lib/a;<S>/a', 'a;<S>/lib/a', 'ok;<S>/a.lua', 'ok;<S>/init',
             'a;<S>/w/a.lua', 'sub/a;<S>/w/sub/a', 'ok;<S>/w/?', '?;<S>/w/?', 'ok;<S>/w/a;b', 'ok;;<S>/w/a.lua',
             'ok;../a', 'ok;../a.lua', 'ok;../../a', ';../init', '?;../a', 'ok;../projx/a', 'ok;..', 'a;..;b',
             ';', '?', '??', '?;?', 'a;b', 'a;', ';a', 'a?', '?a', 'a?b;c', 'ok;/init', 'ok;/',
             # home-directory forms: the require string is a package name, never a shell-style path
             '~/a', '~/a.lua', '~/init', '~', '~/', '~/x', '~//a', 'ok;~/a', '~/w/a', '~/secret', '~/.lexaloffle/pico-8/x',
             # backslashes are ordinary characters of a package name on this platform, never directory separators
             # (<SB> = the sandbox directory spelled with backslashes)
             '..\\a', '..\\..\\a', 'sub\\..\\..\\a', '..\\projx\\a', 'lib\\a', '<SB>\\w\\a', '<SB>\\w\\a.lua',
             'ok;<SB>\\w\\a', '\\a', '.\\a', 'a\\']


def generate(tier, rng):
    quick = tier == 'quick'
    strs = path_strings()
    for cwd in ['w/proj', 'w', '']:
        for i in range(0, len(strs), 1500):
            yield {'kind': 'paths', 'cwd': cwd, 'strs': strs[i:i + 1500], 'pairs': []}
    tilde = [s for s in strs if '~' in s] + ['~/' + s for s in strs if len(s) <= 6] + ['~' + s for s in strs if len(s) <= 4]
    for hm in ['/', '/h/', '//h', '/h//', '/a/../h', 'rel/home']:      # expanduser with unusual HOME values
        yield {'kind': 'paths', 'cwd': 'w', 'home': hm, 'strs': tilde, 'pairs': []}
    short = [s for s in strs if s.count('/') <= 3 and len(s) <= 7]
    pairs = [[a, b] for a in short for b in short]
    for i in range(0, len(pairs), 20000):
        yield {'kind': 'paths', 'cwd': 'w', 'strs': [], 'pairs': pairs[i:i + 20000]}
    # include
    incs = include_strings()
    combos = []
    for cart in CARTS:
        for mode in ('abs', 'rel'):
            for cwd in INC_CWDS:
                if mode == 'abs' and cwd != 't':
                    continue
                for prefix in ('', '/', 'S/t/foo/', 'S/t/foobar/', 'S/t/', 'S/home/.lexaloffle/pico-8/carts/',
                               'S/home/.lexaloffle/pico-8/cartsY/'):
                    combos.append((cart, mode, cwd, prefix))
    n_inc = 1500 if quick else 60000
    allinc = [(c, i) for c in combos for i in incs]
    sample = allinc if len(allinc) <= n_inc else rng.sample(allinc, n_inc)
    for cart, mode, cwd, inc in INC_MUST:
        yield {'kind': 'include', 'cart': cart, 'mode': mode, 'cwd': cwd, 'inc': inc}
    for (cart, mode, cwd, prefix), inc in sample:
        yield {'kind': 'include', 'cart': cart, 'mode': mode, 'cwd': cwd, 'inc': prefix + inc}
    # require
    reqs = require_strings()
    n_req = 2500 if quick else 100000
    allreq = [(r, lp, cwd, mode) for r in reqs for lp in LOAD_PATHS for cwd in REQ_CWDS for mode in ('abs', 'rel')]
    sample = allreq if len(allreq) <= n_req else rng.sample(allreq, n_req)
    # short strings are where the escapes are: always run all strings of <= 2 components in every load path
    must = [(r, lp, 'w/proj', 'abs') for r in META_REQS for lp in LOAD_PATHS]
    must += [(r, lp, cwd, 'rel') for r in META_REQS[:12] for lp in ('default', 'rel') for cwd in ('w', '')]
    must += [(r, lp, 'w/proj', 'abs') for r in reqs if r.count('/') <= 2 and len(r) <= 8 for lp in LOAD_PATHS]
    seen = set()
    for r, lp, cwd, mode in must + sample:
        if (r, lp, cwd, mode) in seen:
            continue
        seen.add((r, lp, cwd, mode))
        yield {'kind': 'require', 'req': r, 'lp': lp, 'cwd': cwd, 'mode': mode}
    # package graphs: the whole recursion of _evaluate_require
    for _ in range(400 if quick else 6000):
        yield gen_graph(rng)


GRAPH_NAMES = ['a', 'b', 'c', 'sub/a', 'sub/b', 'sub/sub/a', 'lib/a', 'lib/b', 'init', 'a/init']
GRAPH_REQS = ['a', 'b', 'c', 'a', 'b', 'sub/a', 'sub/b', 'lib/a', 'init', 'sub/sub/a', 'lib/b', 'missing', 'a/init', 'sub',
              '..', '', '/a', './a', 'a/..', 'b.lua', 'sub/', '?', 'a;b']


def gen_graph(rng):
    files = {}
    for name in GRAPH_NAMES:
        if rng.random() < 0.9:
            k = rng.choice([0, 0, 0, 1, 1, 2])
            pool = GRAPH_REQS[:9] if rng.random() < 0.8 else GRAPH_REQS
            files[name + '.lua'] = [rng.choice(pool) for _ in range(k)]
    main = [rng.choice(GRAPH_REQS[:9] if rng.random() < 0.85 else GRAPH_REQS) for _ in range(rng.choice([1, 1, 2, 3]))]
    return {'kind': 'graph', 'files': files, 'main': main, 'lp': rng.choice(GRAPH_LOAD_PATHS + ['default', 'rel']),
            'cwd': rng.choice(['w/g', 'w', '']), 'mode': rng.choice(['abs', 'rel'])}


def corpus_cases():
    # the witnesses of the four fixed defects (Properties/C12.v *_variant_refuted), replayed with canary files:
    # today's code must reject them
    yield {'kind': 'include', 'cart': 'foo', 'mode': 'abs', 'cwd': 't', 'inc': '../foobar/x.lua'}
    yield {'kind': 'include', 'cart': 'cartsX', 'mode': 'abs', 'cwd': 't', 'inc': '../cartsY/x.lua'}
    yield {'kind': 'require', 'req': '..', 'lp': 'rel', 'cwd': 'w/proj', 'mode': 'abs'}
    yield {'kind': 'require', 'req': '', 'lp': 'rel', 'cwd': 'w/proj', 'mode': 'abs'}
    yield {'kind': 'require', 'req': '..', 'lp': 'default', 'cwd': 'w/proj', 'mode': 'abs'}
    # accepted and rejected ordinary cases
    yield {'kind': 'include', 'cart': 'foo', 'mode': 'rel', 'cwd': 't', 'inc': 'sub/x.lua'}
    yield {'kind': 'include', 'cart': 'foo', 'mode': 'abs', 'cwd': 't', 'inc': '../x.lua'}
    yield {'kind': 'include', 'cart': 'cartssub', 'mode': 'abs', 'cwd': 't', 'inc': '../x.lua'}
    yield {'kind': 'require', 'req': 'sub/ab', 'lp': 'default', 'cwd': 'w', 'mode': 'rel'}
    yield {'kind': 'require', 'req': '../a', 'lp': 'default', 'cwd': 'w/proj', 'mode': 'abs'}
    yield {'kind': 'require', 'req': 'ok;<S>/w/a.lua', 'lp': 'default', 'cwd': 'w/proj', 'mode': 'abs'}
    yield {'kind': 'require', 'req': 'ok;<S>/w/a', 'lp': 'default', 'cwd': 'w', 'mode': 'rel'}
    # a package graph with a cycle, a file required twice under the same name from two directories, a nested miss
    yield {'kind': 'graph', 'files': {'a.lua': ['b', 'sub/a'], 'b.lua': ['a'], 'sub/a.lua': ['a', 'b'], 'sub/b.lua': ['missing']},
           'main': ['a', 'b', 'sub/b'], 'lp': 'default', 'cwd': 'w', 'mode': 'rel'}
    yield {'kind': 'graph', 'files': {'a.lua': ['..'], 'lib/a.lua': []}, 'main': ['lib/a', 'a'], 'lp': 'rel', 'cwd': 'w/g', 'mode': 'abs'}


# ---------------------------------------------------------------- implementation runs
def _expand(s, S):
    return S + s[1:] if s.startswith('S/') else s


def run_impl(case):
    S = sandbox()
    home = S + '/home'
    if case['kind'] == 'paths':
        cwd = os.path.join(S, case['cwd']) if case['cwd'] else S
        home = case.get('home') or home
        rows = []
        with fsobs.environment(cwd=cwd, home=home):
            for s in case['strs']:
                rows.append([os.path.normpath(s), os.path.dirname(s), os.path.expanduser(s), os.path.abspath(s)])
            joins = [os.path.join(a, b) for a, b in case['pairs']]
        return {'S': S, 'cwd': cwd, 'home': home, 'rows': rows, 'joins': joins}
    if case['kind'] == 'include':
        from pico8.game import file as pfile
        from pico8.game.formatter import p8
        cwd = os.path.join(S, case['cwd'])
        cart_abs = os.path.join(S, CARTS[case['cart']])
        cart_arg = cart_abs if case['mode'] == 'abs' else os.path.relpath(cart_abs, cwd)
        inc = _expand(case['inc'], S)
        fsobs.write_file(cart_abs, fsobs.p8_text(b'h1=1\n#include ' + inc.encode() + b'\nh2=2\n'))
        obs = {'S': S, 'cwd': cwd, 'home': home, 'cart_arg': cart_arg, 'inc': inc,
               'carts': [home + p[1:] for p in p8.PICO8_CART_PATHS]}
        with fsobs.environment(cwd=cwd, home=home), fsobs.quiet():
            obs['root'] = p8.get_root_include_path(cart_arg)
            with fsobs.Recorder() as rec:
                try:
                    g = pfile.from_file(cart_arg)
                    obs['outcome'] = 'OK'
                    obs['lua'] = b''.join(g.lua.to_lines()).decode('latin-1')
                except Exception as e:  # noqa
                    obs['outcome'] = 'ERR ' + lib.exc_name(e)
        obs['events'] = rec.events
        fsobs.write_file(cart_abs, fsobs.p8_text(b''))
        return obs
    if case['kind'] == 'require':
        from pico8 import tool
        from pico8.build import build
        cwd = os.path.join(S, case['cwd']) if case['cwd'] else S
        main_abs = S + '/w/proj/main.lua'
        main_arg = main_abs if case['mode'] == 'abs' else os.path.relpath(main_abs, cwd)
        out = S + '/out/o.p8'
        if os.path.exists(out):
            os.remove(out)
        req = case['req'].replace('<SB>', S.replace('/', '\\')).replace('<S>', S)
        fsobs.write_file(main_abs, b'm1=1\nrequire("' + req.replace('\\', '\\\\').encode() + b'")\nm2=2\n')
        arg, env = load_path(case['lp'], S)
        argv = ['build', out, '--lua', main_arg] + (['--lua-path', arg] if arg is not None else [])
        obs = {'S': S, 'cwd': cwd, 'main_arg': main_arg, 'out': out, 'lp_arg': arg, 'lp_env': env, 'req': req,
               'lp_eff': arg if arg is not None else (env if env is not None else build.DEFAULT_LUA_PATH)}
        with fsobs.environment(cwd=cwd, home=home, env={'PICO8_LUA_PATH': env}), fsobs.quiet():
            with fsobs.Recorder() as rec:
                results = []
                real_isfile = rec._isfile

                def isfile(p):
                    r = real_isfile(p)
                    rec.events.append(('p', os.fsdecode(p), 'isfile'))
                    results.append(bool(r))
                    return r
                os.path.isfile = isfile
                try:
                    rc = tool.main(argv)
                    obs['outcome'] = 'OK' if rc == 0 else 'RC %s' % rc
                except SystemExit as e:
                    obs['outcome'] = 'EXIT %s' % (e.code,)
                except Exception as e:  # noqa
                    obs['outcome'] = 'ERR ' + lib.exc_name(e)
        obs['events'] = rec.events
        obs['isfile_results'] = results
        obs['built'] = fsobs.read_file(out).decode('latin-1') if os.path.exists(out) else None
        if os.path.exists(out):
            os.remove(out)
        return obs
    if case['kind'] == 'graph':
        from pico8 import tool
        from pico8.build import build
        import shutil
        G = S + '/w/g'
        shutil.rmtree(G, ignore_errors=True)
        cwd = os.path.join(S, case['cwd']) if case['cwd'] else S
        main_abs = G + '/main.lua'
        ex = lambda rs: [r.replace('<S>', S) for r in rs]   # noqa: E731
        fsobs.write_file(main_abs, b'm0=0\n' + b''.join(b'require("%s")\n' % r.encode() for r in ex(case['main'])))
        n = 0
        for rel, reqs in sorted(case['files'].items()):
            n += 1
            fsobs.write_file(os.path.join(G, rel), b'g%d=%d\n' % (n, n) + b''.join(b'require("%s")\n' % r.encode() for r in ex(reqs)))
        main_arg = main_abs if case['mode'] == 'abs' else os.path.relpath(main_abs, cwd)
        out = S + '/out/g.p8'
        if os.path.exists(out):
            os.remove(out)
        arg, env = load_path(case['lp'], S)
        argv = ['build', out, '--lua', main_arg] + (['--lua-path', arg] if arg is not None else [])
        obs = {'S': S, 'cwd': cwd, 'main_arg': main_arg, 'out': out,
               'lp_eff': arg if arg is not None else (env if env is not None else build.DEFAULT_LUA_PATH)}
        # the regular files of the sandbox as the model's isfile, and the require table by absolute path
        files = []
        for root, _, fs in os.walk(S):
            for f in fs:
                files.append(os.path.join(root, f))
        obs['files'] = sorted(files)
        table = {main_abs: ex(case['main'])}
        for rel, reqs in case['files'].items():
            table[os.path.join(G, rel)] = ex(reqs)
        table[S + '/w/proj/sub/ab.lua'] = ['a']          # the one canary file that requires something
        obs['table'] = table
        with fsobs.environment(cwd=cwd, home=home, env={'PICO8_LUA_PATH': env}), fsobs.quiet():
            with fsobs.Recorder() as rec:
                try:
                    rc = tool.main(argv)
                    obs['outcome'] = 'OK' if rc == 0 else 'RC %s' % rc
                except SystemExit as e:
                    obs['outcome'] = 'EXIT %s' % (e.code,)
                except Exception as e:  # noqa
                    obs['outcome'] = 'ERR ' + lib.exc_name(e)
        obs['events'] = rec.events
        if os.path.exists(out):
            os.remove(out)
        shutil.rmtree(G, ignore_errors=True)
        return obs
    raise ValueError(case['kind'])


# ---------------------------------------------------------------- model side
def model_requests(case, obs):
    h = fsobs.hx
    if case['kind'] == 'paths':
        reqs = []
        for s in case['strs']:
            reqs += ['norm ' + h(s), 'dirname ' + h(s), 'expanduser %s %s' % (h(obs['home']), h(s)),
                     'abspath %s %s' % (h(obs['cwd']), h(s))]
        reqs += ['join %s %s' % (h(a), h(b)) for a, b in case['pairs']]
        return reqs
    if case['kind'] == 'include':
        files = fsobs.hxlist(_SB['files'] or [])
        return ['root %s %s %s' % (h(obs['cwd']), h(obs['home']), h(obs['cart_arg'])),
                'inc %s %s %s %s %s' % (h(obs['cwd']), h(obs['home']), h(obs['cart_arg']), h(obs['inc']), files),
                'incacc %s %s %s %s %s' % (h(obs['cwd']), h(obs['home']), h(obs['cart_arg']), h(obs['inc']), files)]
    if case['kind'] == 'require':
        return ['filter ' + h(obs['req']),
                'eff %s %s' % (h(obs['lp_arg']) if obs['lp_arg'] is not None else '~',
                               h(obs['lp_env']) if obs['lp_env'] is not None else '~'),
                'cands %s %s %s' % (h(obs['main_arg']), h(obs['lp_eff']), h(obs['req']))]
    if case['kind'] == 'graph':
        tbl = ';'.join('%s=%s' % (h(k), ','.join(h(r) for r in v) if v else '~') for k, v in sorted(obs['table'].items()))
        return ['walk %s %s %s %s %s' % (h(obs['cwd']), h(obs['main_arg']), h(obs['lp_eff']), fsobs.hxlist(obs['files']), tbl or '~')]
    return []


def graph_trace(obs):
    """isfile probes and read-opens of required files, in order (the main file and OUT are named on the command line)"""
    tr = []
    for e in obs['events']:
        if e[0] == 'p' and e[2] == 'isfile':
            tr.append('p:' + fsobs.hx(e[1]))
        elif e[0] == 'o' and e[2] == 'rb' and e[1] not in (obs['main_arg'], obs['out']):
            tr.append('o:' + fsobs.hx(e[1]))
    return ','.join(tr) if tr else '~'


def compare(case, obs, answers):
    un = lib.unhx
    if case['kind'] == 'paths':
        i = 0
        for s, row in zip(case['strs'], obs['rows']):
            for name, exp in zip(('normpath', 'dirname', 'expanduser', 'abspath'), row):
                if answers[i] != fsobs.hx(exp):
                    return '%s(%r): posixpath %r, model %r' % (name, s, exp, answers[i])
                i += 1
        for (a, b), exp in zip(case['pairs'], obs['joins']):
            if answers[i] != fsobs.hx(exp):
                return 'join(%r, %r): posixpath %r, model %r' % (a, b, exp, answers[i])
            i += 1
        return None
    if case['kind'] == 'include':
        if answers[0] != fsobs.hx(obs['root']):
            return 'get_root_include_path(%r): implementation %r, model %r' % (obs['cart_arg'], obs['root'], answers[0])
        opened = [e[1] for e in obs['events'] if e[0] == 'o' and e[1] != obs['cart_arg']]
        if obs['outcome'] == 'OK':
            got = 'OK ' + fsobs.hx(opened[-1]) if opened else 'OK <nothing opened>'
        else:
            got = obs['outcome']
        if answers[1] != got:
            return '#include %r from %r: implementation %s, model %s' % (obs['inc'], obs['cart_arg'], got, answers[1])
        # the accesses themselves: isfile probe, then open, of the resolved path (the cart is named on the command line)
        evs = [e for e in obs['events'] if not (e[0] == 'o' and e[1] == obs['cart_arg'])]
        tr = ','.join('%s:%s' % (e[0], fsobs.hx(e[1])) for e in evs) or '~'
        exp = '%s %s' % (tr, 'false' if obs['outcome'] == 'OK' else 'true')
        if answers[2] != exp:
            return '#include %r from %r: implementation accesses %s, model %s' % (obs['inc'], obs['cart_arg'], exp, answers[2])
        return None
    if case['kind'] == 'graph':
        tr, _, outcome = answers[0].partition(' ')
        got = graph_trace(obs)
        if tr != got:
            return 'package graph %r: implementation trace %s, model trace %s' % (case['main'], got[:300], tr[:300])
        if obs['outcome'] != outcome:
            return 'package graph %r: implementation %s, model %s' % (case['main'], obs['outcome'], outcome)
        return None
    if case['kind'] == 'require':
        filt, eff, cands = answers
        if eff != fsobs.hx(obs['lp_eff']):
            return 'effective load path: harness %r, model %r' % (obs['lp_eff'], eff)
        probes = [e[1] for e in obs['events'] if e[0] == 'p' and e[2] == 'isfile']
        if filt == 'false':
            if obs['outcome'] != 'ERR BuildError' or probes:
                return 'require(%r): model filter rejects, implementation %s probes %r' % (case['req'], obs['outcome'], probes[:3])
            return None
        cl = [un(c).decode('latin-1') for c in cands.split(',')]
        res = obs['isfile_results']
        n = len(cl)
        for j in range(min(len(res), len(cl))):
            if res[j]:
                n = j + 1
                break
        if probes[:n] != cl[:n]:
            return 'require(%r) load path %r: implementation probes %r, model candidates %r' % (
                case['req'], obs['lp_eff'], probes[:n], cl[:n])
        found = any(res[:n])
        if not found and obs['outcome'] != 'ERR BuildError':
            return 'require(%r): no candidate is a file, implementation %s' % (case['req'], obs['outcome'])
        if found:
            opened = [e[1] for e in obs['events'] if e[0] == 'o']
            if cl[n - 1] not in opened:
                return 'require(%r): candidate %r is a file but was not opened (%r)' % (case['req'], cl[n - 1], opened)
            if obs['outcome'] != 'OK':
                return 'require(%r): file found, implementation %s' % (case['req'], obs['outcome'])
        return None
    return None


# ---------------------------------------------------------------- monitor side
def monitor_requests(case, obs):
    h = fsobs.hx
    if case['kind'] == 'paths':
        return []
    evs = [(e[0], e[1]) for e in obs['events']]
    if case['kind'] == 'include':
        return ['inc %s %s %s %s %d %s %s' % (h(obs['cwd']), fsobs.hxlist(obs['carts']), h(obs['cart_arg']), h(obs['inc']),
                                             0 if obs['outcome'] == 'OK' else 1, fsobs.hxlist([obs['cart_arg']]),
                                             fsobs.trace_str(evs))]
    return ['req %s %s %s %s %s' % (h(obs['cwd']), h(obs['lp_eff']), h(obs['main_arg']),
                                    fsobs.hxlist([obs['out'], obs['main_arg']]), fsobs.trace_str(evs))]


def _norm_abs(cwd, p):
    return posixpath.normpath(p if p.startswith('/') else posixpath.join(cwd, p))


def _under(root, p):
    return p == root or root == '/' or p.startswith(root.rstrip('/') + '/')


def signature(case, obs):
    if case['kind'] == 'include':
        cart = _norm_abs(obs['cwd'], obs['cart_arg'])
        spec_root = posixpath.dirname(cart)
        for c in obs['carts']:
            if _under(c, cart):
                spec_root = c
        if obs['root'] != spec_root:
            return 'C12/include/carts-folder-prefix'
        for e in obs['events']:
            p = _norm_abs(obs['cwd'], e[1])
            if e[1] != obs['cart_arg'] and not _under(spec_root, p):
                if p.startswith(spec_root):
                    return 'C12/include/prefix-sibling'
                return 'C12/include/other'
        return 'C12/include/escape-not-rejected'
    if case['kind'] == 'graph':
        return 'C12/require/graph'
    if case['kind'] == 'require':
        if case['req'] == '':
            return 'C12/require/empty-string'
        if '..' in case['req'].split('/'):
            return 'C12/require/dotdot-component'
        if ';' in case['req'] or '?' in case['req']:
            return 'C12/require/load-path-metacharacter'
        return 'C12/require/other'
    return 'C12/paths'


def what(case, obs):
    return '%s: %s' % (signature(case, obs), describe(case, obs))


def describe(case, obs):
    if case['kind'] == 'paths':
        return {'kind': 'paths', 'cwd': case['cwd'], 'n': len(case['strs']) * 4 + len(case['pairs'])}
    S = (obs or {}).get('S', '')
    d = dict(case)
    if obs:
        d['outcome'] = obs.get('outcome')
        d['accessed'] = [e[1].replace(S, 'S') for e in obs.get('events', [])][:8]
    return d


def minimize(case, obs, answers):
    return case


def nontrivial_key(case, obs):
    if case['kind'] == 'paths':
        return None
    named = {obs.get('cart_arg'), obs.get('main_arg'), obs.get('out')}
    if any(e[1] not in named for e in obs.get('events', [])):
        return (case['kind'], case.get('inc') or case.get('req') or repr((case.get('main'), sorted(case.get('files', {}).items()))),
                case.get('cart') or case.get('lp'), case['cwd'], case['mode'])
    return None


def histogram_key(case, obs):
    if case['kind'] == 'paths':
        return 'paths'
    return '%s:%s' % (case['kind'], obs.get('outcome'))


def run_cases(cases, ctx):
    mod = __import__('props.c12', fromlist=['x'])
    try:
        res = lib.standard_run(mod, cases, ctx)
    finally:
        cleanup()
    n = 0
    for c in cases:
        n += (len(c['strs']) * 4 + len(c['pairs'])) if c['kind'] == 'paths' else 1
    res['evaluations'] = n
    return res


def search_cases(rng):
    """cases for the search after a broken obligation / correspondence, most telling first: the corpus, the
    load-path-metacharacter and short require strings in every load-path setting, package graphs, then the rest"""
    for c in corpus_cases():
        yield c
    for r in META_REQS:
        for lp in LOAD_PATHS:
            yield {'kind': 'require', 'req': r, 'lp': lp, 'cwd': 'w/proj', 'mode': 'abs'}
    for r in META_REQS[:12]:
        for cwd in ('w', ''):
            yield {'kind': 'require', 'req': r, 'lp': 'default', 'cwd': cwd, 'mode': 'rel'}
    for _ in range(150):
        yield gen_graph(rng)
    rest = [c for c in generate('quick', rng) if c['kind'] != 'paths']
    incs = [c for c in rest if c['kind'] == 'include']
    others = [c for c in rest if c['kind'] != 'include']
    for a, b in itertools.zip_longest(incs, others):
        if a is not None:
            yield a
        if b is not None:
            yield b
    for c in generate('thorough', rng):
        if c['kind'] != 'paths':
            yield c


def search(ctx, budget):
    import random
    import time
    rng = random.Random(ctx['seed'] + 1)
    t0 = time.time()
    viol, n = [], 0
    mod = __import__('props.c12', fromlist=['x'])
    gen = search_cases(rng)
    try:
        while time.time() - t0 < budget and not viol:
            batch = list(itertools.islice(gen, 200))
            if not batch:
                break
            r = lib.standard_run(mod, batch, {'monitor_exe': ctx.get('monitor_exe'), 'model_exe': None})
            n += r['evaluations']
            viol.extend(r['violations'])
    finally:
        cleanup()
    return {'violations': viol, 'evaluations': n}
