"""C06 - the default writer (LuaEchoWriter) echoes the source losslessly."""
import itertools
import random

import lib
from props import lexcommon as LC
from props import luagen

ID = 'C06'
GEN_FILES = ['T_lexer', 'T_pins_lexer', 'T_pins_luawriter']
COQ_PROPERTY = 'theories/Properties/C06.vo'
COQ_EXTRA = ['theories/Proofs/LexerPins.vo']
MODEL = ('ExC06', 'c06_main.ml')
MONITOR = ('MonC06', 'c06_mon_main.ml')
RULE = ('one evaluation = one source text, lexed and written back by the implementation with the default writer, as a '
        'single chunk (.p8.png path) AND as per-line chunks (.p8 path): the yielded lines are compared one by one with '
        'the extracted model (lexer + LuaEchoWriter), the full Lua.from_lines(...).to_lines() path is compared with the '
        'lexer-only path whenever the source parses, and the extracted predicates holds_C06 (walk of the written text '
        'along the reference tokens of the source: identical outside quoted strings, same denoted bytes inside) and '
        'holds_C06_relex (the written text re-lexes under the reference grammar to the same views) are evaluated on '
        '(source, written text); streams: every escape form x follower class x both quotes, two-escape sequences, every '
        'byte value written raw / as \\ddd with 1-3 digits / as \\xhh followed by a digit and a non-digit, long brackets '
        'of levels 0-3, generated programs x {LF, CRLF} x {final newline, none}, malformed soup; distinct+non-trivial = '
        'distinct sources containing a string literal or at least three tokens, or raising an error')
ASSUMPTIONS = [
    'the echo is observed on the token list right after Lexer.process_lines through LuaEchoWriter(tokens=...) (the '
    'writer ignores the parse tree); when Lua.from_lines accepts the source its to_lines() output must be identical',
    'holds_C06 makes no claim for sources the reference grammar leaves undefined (Spec/LuaLex.v header), e.g. unknown '
    'escapes, raw line breaks inside quoted strings, lone carriage returns',
]
PARTIAL = ('Nothing of the statement is left unproved for the model: C06_echo (holds_C06) and C06_relex_reference '
           '(holds_C06_relex: the written text is itself in the dialect and re-lexes, under the REFERENCE grammar, to the same '
           'views; Proofs/EchoRelexSpec.v) hold for every byte string, as one chunk and as per-line chunks. Limits: sources '
           'the reference grammar leaves undefined are outside the claim of both predicates (C06_cover, C06_code_is_extent, '
           'C06_relex_stable, C06_echo_chunks_nonempty hold for every lexable input).')
CLAIM = dict(
    text=("Theorems (Coq, closed under the global context) about an executable model of the lexer, Token.code / "
          "TokString.code (over the escape tables regenerated from lexer.py on every run) and LuaEchoWriter.to_lines: "
          "C06_echo - for EVERY byte string given as one chunk, if the reference grammar is defined on it the model "
          "(or as per-line chunks: C06_echo_chunks, C06_echo_chunking) lexes it and the written text passes holds_C06, the same predicate the extracted monitor applies to the "
          "implementation's output (byte-for-byte outside quoted strings; inside, the same quote and a spelling the "
          "reference decoder reads back as the same bytes); C06_cover and C06_code_is_extent for any chunking and any "
          "lexable input; C06_echo_is_codes; C06_string_reencode (decode(TokString.code(v)) = v for every byte string, "
          "both quotes); C06_string_decode_agrees (the in-string loop = the reference decoder, every escape form); "
          "C06_relex_stable / C06_echo_idempotent(_lf) (lexing the written text again, also with a final line feed "
          "supplied, writes the very same text - every input); C06_echo_chunks_nonempty; "
          "C06_relex_reference(_chunks) - for EVERY byte string the second monitor predicate holds_C06_relex holds of "
          "(source, text written by the model): the written text of a source of the dialect is in the dialect and its "
          "reference tokens have the same views (C06_relex_of_holds: holds_C06 + no lone CR implies holds_C06_relex for "
          "any pair, C06_echo_in_dialect). "
          "Tie: extracted model vs implementation line by line in both chunkings + extracted monitor on the "
          "implementation's output. Three echo defects found by this check were fixed (findings/known_C06.json)."),
    note=("Trusted: Coq kernel+VM, table dump gen/kernels_lexer.py, hand-written scanners for the pinned regex sources "
          "(compared with re.match in the C07 check), ExtrOcamlBasic extraction, OCaml glue, Spec/LuaLex.v as a rendering "
          "of Lua 5.2 section 3.1 + PICO-8 extensions."),
    technique='Coq proof over regenerated tables + extracted-model correspondence + extracted reference-decoder monitor',
    design_ref='8 C06')
CASE_TIMEOUT = 600

ESCAPES = [b'\\a', b'\\b', b'\\f', b'\\n', b'\\r', b'\\t', b'\\v', b'\\\\', b'\\"', b"\\'", b'\\\n', b'\\\r\n',
           b'\\0', b'\\1', b'\\7', b'\\9', b'\\00', b'\\10', b'\\12', b'\\14', b'\\15', b'\\65', b'\\000', b'\\001',
           b'\\014', b'\\015', b'\\048', b'\\127', b'\\128', b'\\255', b'\\256', b'\\x00', b'\\x0a', b'\\x22', b'\\x27',
           b'\\x41', b'\\x5c', b'\\xfF', b'\\xAb', b'\\x4', b'\\xg1', b'\\*', b'\\#', b'\\-', b'\\|', b'\\+', b'\\^',
           b'\\z', b'\\q', b'\\e', b'\\\r', b'\\', b'\\ ']
FOLLOW = [b'', b'0', b'1', b'9', b'a', b'f', b'F', b'x', b'z', b' ', b'\\\\', b'\\n', b'\\0', b'\x80', b'\xff', b'-']


def literal_sources(tier, rng):
    out = []
    for q in (b'"', b"'"):
        other = b"'" if q == b'"' else b'"'
        for e in ESCAPES:
            for f in FOLLOW + [other, b'\\' + q]:
                out.append(b'x=' + q + e + f + q + b'\n')
                out.append(q + b'k' + e + f + q)
        pairs = list(itertools.product(ESCAPES, ESCAPES))
        if tier == 'quick':
            pairs = rng.sample(pairs, 500)
        for e1, e2 in pairs:
            out.append(b's=' + q + e1 + e2 + q + b' t=1\n')
    return out


def byte_sources(tier):
    out = []
    for b in range(256):
        forms = [b'\\%d' % b, b'\\%02d' % b, b'\\%03d' % b, b'\\x%02x' % b, b'\\x%02X' % b]
        if b not in (10, 13, 34, 39, 92):
            forms.append(bytes([b]))
        for f in forms:
            for tail in (b'', b'7', b'a', b'\\0'):
                out.append(b'v="' + f + tail + b'"\n')
            out.append(b"v='" + f + b"'")
    return out


def pair_sources():
    """all byte pairs inside one literal (thorough)"""
    for a in range(256):
        srcs = []
        for b in range(256):
            srcs.append(b'p="\\%d\\%d"' % (a, b))
        yield srcs


def long_sources():
    out = []
    bodies = [b'', b'a', b'a\nb', b'\n', b'\na', b'\r\na\r\n', b']', b']=', b'--', b'"', b'\\', b'\\n', b'[[', b'\x00\xff',
              b'a]b', b']]'[:1] + b'x']
    for b in bodies:
        for lvl in range(4):
            eq = b'=' * lvl
            out.append(b'x=[' + eq + b'[' + b + b']' + eq + b']\ny=1\n')
            out.append(b't[ [' + eq + b'[' + b + b']' + eq + b'] ]=2')
            out.append(b'[' + eq + b'[' + b)                       # unterminated
        out.append(b'--[[' + b + b']]x=1\n')
        out.append(b'a --[[' + b + b']] b')
    return out


def soup(rng, n):
    alpha = [b'a', b'1', b' ', b'\n', b'\r\n', b'\t', b'"', b"'", b'[', b']', b'=', b'-', b'.', b'\\', b'\\0', b'\\x4',
             b'1', b'\x80', b'\r', b'--', b'//', b'\x00', b'!', b'end']
    for _ in range(n):
        yield b''.join(rng.choice(alpha) for _ in range(rng.randrange(1, 10)))


def generate(tier, rng):
    yield {'kind': 'literals', 'srcs': literal_sources(tier, rng)}
    yield {'kind': 'bytes', 'srcs': byte_sources(tier)}
    yield {'kind': 'long', 'srcs': long_sources()}
    yield {'kind': 'soup', 'srcs': list(soup(rng, 1000 if tier == 'quick' else 20000))}
    progs = []
    nprog = 300 if tier == 'quick' else 5000
    for i in range(nprog):
        for eol in (b'\n', b'\r\n'):
            for fin in (True, False):
                st = rng.getstate()
                progs.append(luagen.program_source(rng, eol=eol, final_newline=fin))
                if not (eol == b'\r\n' and not fin):
                    rng.setstate(st)           # the same program in the four layouts of line ends
    yield {'kind': 'programs', 'srcs': progs}
    if tier != 'quick':
        for srcs in pair_sources():
            yield {'kind': 'pairs', 'srcs': srcs}


def corpus_cases():
    yield {'kind': 'corpus', 'srcs': [
        b'x="\\0001"', b'x="\\0145"', b'x="\\x41"', b'x="a\\\r\nb"', b'x="\\15\\0009"', b"y='\\\"\"'", b'x=[[\nk]]',
        b'x="\\\\x41"', b'--c\r\nx', b'"\\256"', b'"', b'x="a\nb"', b's="\\z"', b'a\rb', b'?"hi"\n', b'x="\\65\\066\\x43"',
        b'a=1 -- \xe2\x99\xa5\r\n', b'', b'\n', b'x',
        # byte order marks are ordinary P8SCII glyph bytes (names may consist of them), wherever they stand
        b'\xef\xbb\xbf = {}\n', b'x=\xef\xbb\xbf+1\n\xef\xbb\xbfy=2', b'\xff\xfe=1 \xfe\xff=2\n', b'a\xef\xbb\xbf=1',
        b'-- \xef\xbb\xbf\n"\xef\xbb\xbf"']}


# ------------------------------------------------------------------ implementation
def echo_impl(chunks):
    """-> {'err': name} | {'lines': [bytes], 'full': [bytes] | None}"""
    from pico8.lua import lua
    l = lua.Lua(lib.lua_version(chunks))
    try:
        l._lexer.process_lines(list(chunks))
        lines = [bytes(x) for x in lua.LuaEchoWriter(tokens=l._lexer.tokens, root=None, args=None).to_lines()]
    except Exception as e:  # noqa
        return {'err': lib.exc_name(e)}
    full = None
    try:
        full = [bytes(x) for x in lua.Lua.from_lines(list(chunks), 8).to_lines()]
    except Exception:  # noqa  (the parser rejects many lexable sources; the echo writer never needs it)
        full = None
    # the public API on a Lua object with a history: half of the chunks are loaded, the object is echoed and asked for
    # its character count, then the rest is loaded (update_from_lines appends): the echo must be that of a fresh load
    upd = None
    chunks = list(chunks)
    if full is not None and len(chunks) >= 2:
        try:
            k = len(chunks) // 2
            l2 = lua.Lua(8)
            l2.update_from_lines(chunks[:k])
            b''.join(l2.to_lines())
            l2.get_char_count()
            l2.update_from_lines(chunks[k:])
            upd = [bytes(x) for x in l2.to_lines()]
        except Exception:  # noqa  (the first half alone need not parse)
            upd = None
    return {'lines': lines, 'full': full, 'upd': upd}


def run_impl_src(src):
    return {'src': src, 'one': echo_impl([src]), 'lines': echo_impl(luagen.split_lines(src))}


REASON = {1: 'outside-string-text', 2: 'quote', 3: 'respelling-not-a-literal', 4: 'string-bytes', 5: 'trailing-output'}


def _classify(src, ans):
    if ans.startswith('false:'):
        _, idx, why = ans.split(':')
        why = int(why)
        name = REASON.get(why, str(why))
        if why in (3, 4):
            import re as _re
            if _re.search(rb'\\(0|14|15)[0-9]', src) or _re.search(rb'\\0{1,2}(0|14|15)?[0-9]', src):
                return 'C06/%s/numbered-escape+digit' % name
            if b'\\x' in src:
                return 'C06/%s/hex-escape' % name
            if b'\\\r\n' in src:
                return 'C06/%s/backslash-crlf' % name
        return 'C06/%s' % name
    if ans == 'false':
        return 'C06/error-or-relex'
    return 'C06/other/' + ans[:20]


def _mon_reqs(row):
    reqs, labs = [], []
    hs = lib.hx(row['src'])
    for key in ('one', 'lines'):
        r = row[key]
        if 'err' in r:
            reqs.append('err ' + hs)
            labs.append(key + '/error')
        else:
            out = lib.hx(b''.join(r['lines']))
            reqs.append('hold %s %s' % (hs, out))
            labs.append(key + '/hold')
            reqs.append('relex %s %s' % (hs, out))
            labs.append(key + '/relex')
    return reqs, labs


def _eval_rows(mon, rows):
    reqs, spans, labs = [], [], []
    for r in rows:
        q, lb = _mon_reqs(r)
        spans.append((len(reqs), len(reqs) + len(q)))
        reqs.extend(q)
        labs.append(lb)
    ans = lib.run_driver_parallel(mon, reqs)
    out = []
    for r, (a, b), lb in zip(rows, spans, labs):
        sig = None
        for lab, x in zip(lb, ans[a:b]):
            if x != 'true':
                if lab.endswith('/relex'):
                    sig = 'C06/relex'
                elif lab.endswith('/error'):
                    sig = 'C06/error/%s' % r[lab.split('/')[0]]['err']
                else:
                    sig = _classify(r['src'], x)
                break
        # the two chunkings must write the same text
        if sig is None and ('err' in r['one']) != ('err' in r['lines']):
            sig = 'C06/chunking/error-differs'
        if sig is None and 'err' not in r['one'] and b''.join(r['one']['lines']) != b''.join(r['lines']['lines']):
            sig = 'C06/chunking/text-differs'
        if sig is None and r['lines'].get('upd') is not None and b''.join(r['lines']['upd']) != b''.join(r['lines']['full']):
            sig = 'C06/history/update-from-lines'
        out.append((sig, r))
    return out


def shrink(mon, src, sig):
    cur = src
    n = 2
    rounds = 0
    while len(cur) > 1 and rounds < 40:
        rounds += 1
        size = max(1, len(cur) // n)
        cands = [cur[:i] + cur[i + size:] for i in range(0, len(cur), size)]
        cands = [c for c in cands if c and c != cur]
        res = _eval_rows(mon, [run_impl_src(c) for c in cands])
        hit = [r['src'] for s, r in res if s == sig]
        if hit:
            cur = min(hit, key=len)
            n = max(n - 1, 2)
        else:
            if size == 1:
                break
            n = min(len(cur), n * 2)
    return cur


WHAT = {
    'C06/string-bytes/numbered-escape+digit': 'a digit following \\0, \\14 or \\15 is absorbed into the numbered escape when the string is written back ("\\0001" -> "\\01")',
    'C06/string-bytes/hex-escape': 'the escape \\xhh is not decoded and its backslash is doubled on output ("\\x41" -> "\\\\x41")',
    'C06/string-bytes/backslash-crlf': 'a backslash line continuation before CR LF is written back as backslash, CR, LF data',
}


def _model_line(lines):
    return 'OK ' + ('.' if not lines else '|'.join(lib.hx(x) for x in lines))


def _disagrees(model, src):
    """None, or a description of how implementation and model differ on src (either chunking)"""
    for chunks in ([src], luagen.split_lines(src)):
        o = echo_impl(chunks)
        exp = ('ERR ' + o['err']) if 'err' in o else _model_line(o['lines'])
        a = lib.run_driver(model, ['echo ' + LC.enc_chunks(chunks)])[0]
        if a != exp:
            return 'implementation %s, model %s' % (exp[:120], a[:120])
    return None


def shrink_disagreement(model, src):
    cur = src
    n = 2
    rounds = 0
    while len(cur) > 1 and rounds < 60:
        rounds += 1
        size = max(1, len(cur) // n)
        hit = None
        for i in range(0, len(cur), size):
            c = cur[:i] + cur[i + size:]
            if c and _disagrees(model, c):
                hit = c
                break
        if hit is not None:
            cur = hit
            n = max(n - 1, 2)
        else:
            if size == 1:
                break
            n = min(len(cur), n * 2)
    return cur


def run_cases(cases, ctx):
    model, mon = ctx.get('model_exe'), ctx.get('monitor_exe')
    disagreements, violations = [], []
    seen, nontrivial = set(), set()
    hist = {}
    n_eval = 0
    samples = []
    for case in cases:
        kind = case['kind']
        srcs = [s if isinstance(s, bytes) else bytes.fromhex(s) for s in case['srcs']]
        srcs = [s for s in dict.fromkeys(srcs) if s not in seen]
        seen.update(srcs)
        rows = [run_impl_src(s) for s in srcs]
        hist[kind] = hist.get(kind, 0) + len(rows)
        n_eval += len(rows)
        for r in rows:
            one = r['one']
            if 'err' in one:
                hist['impl-' + one['err']] = hist.get('impl-' + one['err'], 0) + 1
                nontrivial.add(r['src'])
            else:
                if b'"' in r['src'] or b"'" in r['src'] or b'[[' in r['src'] or len(r['src'].split()) >= 3:
                    nontrivial.add(r['src'])
                if b''.join(one['lines']) == r['src']:
                    hist['echo-identical'] = hist.get('echo-identical', 0) + 1
                else:
                    hist['echo-respelled'] = hist.get('echo-respelled', 0) + 1
                for key in ('one', 'lines'):
                    o = r[key]
                    if 'lines' in o and o['full'] is not None and o['full'] != o['lines'] and len(disagreements) < 50:
                        disagreements.append({'case': {'kind': 'corpus', 'srcs': [r['src'].hex()]},
                                              'summary': {'src': r['src'][:80].hex(), 'chunking': key},
                                              'difference': 'Lua.from_lines(...).to_lines() differs from the lexer-only echo'})
        if rows and len(samples) < 6:
            r = rows[len(rows) // 2]
            samples.append({'kind': kind, 'src': r['src'][:60].hex(),
                            'written': b''.join(r['one'].get('lines', []))[:60].hex(), 'error': r['one'].get('err')})
        if model:
            reqs, meta = [], []
            for r in rows:
                reqs.append('echo ' + LC.enc_chunks([r['src']]))
                meta.append((r, 'one'))
                reqs.append('echo ' + LC.enc_chunks(luagen.split_lines(r['src'])))
                meta.append((r, 'lines'))
            ans = lib.run_driver_parallel(model, reqs)
            for (r, key), a in zip(meta, ans):
                o = r[key]
                exp = ('ERR ' + o['err']) if 'err' in o else _model_line(o['lines'])
                if a != exp and len(disagreements) < 50:
                    disagreements.append({'case': {'kind': 'corpus', 'srcs': [r['src'].hex()]},
                                          'summary': {'src': r['src'][:80].hex(), 'chunking': key},
                                          'difference': 'implementation %s, model %s' % (exp[:120], a[:120])})
        if mon:
            for sig, r in _eval_rows(mon, rows):
                if sig is not None:
                    violations.append((sig, r['src']))
    if model:
        done = 0
        for d in disagreements:
            srcs = d.get('case', {}).get('srcs') or []
            if not srcs or done >= 3 or 'from_lines' in d.get('difference', ''):
                continue
            small = shrink_disagreement(model, bytes.fromhex(srcs[0]))
            d['case'] = {'kind': 'corpus', 'srcs': [small.hex()]}
            d['summary'] = {'shrunk_source': small.hex(), 'shrunk_source_repr': repr(small), 'original': d.get('summary')}
            d['difference'] = 'on %r: %s' % (small, _disagrees(model, small))
            done += 1
    by_sig = {}
    for sig, src in violations:
        if sig not in by_sig or len(src) < len(by_sig[sig]):
            by_sig[sig] = src
    hist['monitor-violating-sources'] = len(violations)
    out_v = []
    for sig, src in sorted(by_sig.items()):
        small = shrink(mon, src, sig) if mon else src
        out_v.append({'case': {'kind': 'corpus', 'srcs': [small.hex()]}, 'signature': sig,
                      'what': WHAT.get(sig, 'the written text is not a faithful echo of the source (%s)' % sig),
                      'summary': {'source': small.hex(), 'source_repr': repr(small),
                                  'sources_with_this_signature': sum(1 for s, _ in violations if s == sig)},
                      'observed': [repr(echo_impl([small]))[:400]]})
    return {'evaluations': n_eval, 'nontrivial': len(nontrivial), 'rule': RULE, 'samples': samples,
            'disagreements': disagreements, 'violations': out_v, 'histogram': hist, 'exhaustive': False}


def search(ctx, budget):
    import time
    t0 = time.time()
    rng = random.Random(ctx['seed'] + 1)
    total, viol = 0, []
    for case in generate('thorough', rng):
        if time.time() - t0 > budget:
            break
        r = run_cases([case], {'seed': ctx['seed'] + 1, 'model_exe': None, 'monitor_exe': ctx.get('monitor_exe')})
        total += r['evaluations']
        viol.extend(r['violations'])
    return {'violations': viol, 'evaluations': total}
