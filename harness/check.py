#!/usr/bin/env python3
"""Entry point of every registered check:  check.py <Cxx> [--tier quick|thorough] [--replay FILE]

Pipeline (DESIGN.md section 2): regenerate -> build the property's Coq cone (theorems,
pins, translator self-tests) -> build the extracted model and monitor runners ->
corpus + generated cases: implementation vs model (correspondence) and the extracted
instance predicate on the implementation's real observations (monitor) -> verdict.
"""
import importlib
import json
import os
import random
import sys
import time

sys.path.insert(0, os.path.dirname(os.path.abspath(__file__)))
import lib  # noqa: E402


def main():
    lib.ensure_env()
    args = sys.argv[1:]
    if not args:
        print('usage: check.py <Cxx> [--tier quick|thorough] [--replay FILE]')
        return 2
    pid = args[0].upper()
    tier = os.environ.get('VERIF_TIER') or 'quick'
    if '--tier' in args:
        tier = args[args.index('--tier') + 1]
    replay = args[args.index('--replay') + 1] if '--replay' in args else None
    seed = int(os.environ.get('VERIF_SEED', '20260926'))
    prop = importlib.import_module('props.' + pid.lower())
    return run_check(prop, tier, seed, replay)


def run_check(prop, tier, seed, replay=None):
    t0 = time.time()
    pid = prop.ID
    rng = random.Random(seed)
    broken = []          # broken obligations: dicts {kind, name, detail}
    trusted = []
    notes = []

    # ---- 1+2+3: regenerate and build, serialised across concurrent checks
    with lib.BuildLock():
        rep = lib.regenerate()
        n_kernels = 0
        if '_error' in rep:
            broken.append({'kind': 'translator', 'name': 'gen.py', 'detail': rep['_error']})
        else:
            for g in prop.GEN_FILES:
                r = rep.get(g)
                if r is None:
                    broken.append({'kind': 'translator', 'name': g, 'detail': 'not generated'})
                    continue
                n_kernels += r['kernels']
                for f in r['failed']:
                    broken.append({'kind': 'translator', 'name': '%s:%s' % (g, f['kernel']), 'detail': f['reason']})
        prop_vo = prop.COQ_PROPERTY
        targets = [prop_vo] + list(prop.COQ_EXTRA)
        mon_vo = 'theories/Extract/%s.vo' % prop.MONITOR[0] if prop.MONITOR else None
        mod_vo = 'theories/Extract/%s.vo' % prop.MODEL[0] if prop.MODEL else None
        if mon_vo:
            targets.append(mon_vo)
        if mod_vo:
            targets.append(mod_vo)
        force = [prop_vo]
        if mon_vo:
            force.append(mon_vo)
        if mod_vo:
            force.append(mod_vo)
        status, log = lib.coq_build(targets, force=force)
        thms = lib.theorem_names(os.path.join(lib.ROCQ, prop_vo[:-1]))
        assumptions = lib.parse_assumptions(log)
        if not status.get(prop_vo):
            e = lib.first_coq_error(log)
            broken.append({'kind': 'proof', 'name': prop_vo, 'detail': e or log[-1500:]})
        for t in prop.COQ_EXTRA:
            if not status.get(t):
                broken.append({'kind': 'side-condition', 'name': t, 'detail': lib.first_coq_error(log) or 'did not compile'})
        model_exe = monitor_exe = None
        if mod_vo and status.get(mod_vo):
            model_exe, err = lib.ocaml_build(pid.lower() + '_model', prop.MODEL[0], prop.MODEL[1])
            if model_exe is None:
                broken.append({'kind': 'extraction', 'name': prop.MODEL[0], 'detail': err})
        elif mod_vo:
            broken.append({'kind': 'model', 'name': mod_vo, 'detail': lib.first_coq_error(log) or 'did not compile'})
        if mon_vo and status.get(mon_vo):
            monitor_exe, err = lib.ocaml_build(pid.lower() + '_monitor', prop.MONITOR[0], prop.MONITOR[1])
            if monitor_exe is None:
                broken.append({'kind': 'extraction', 'name': prop.MONITOR[0], 'detail': err})
        elif mon_vo:
            broken.append({'kind': 'monitor', 'name': mon_vo, 'detail': lib.first_coq_error(log) or 'did not compile'})

    # ---- thorough: re-check the property's compiled cone with the independent checker coqchk
    coqchk = None
    if tier == 'thorough' and status.get(prop_vo) and not replay:
        mod = 'PV.' + prop_vo[len('theories/'):-3].replace('/', '.')
        with lib.BuildLock():
            try:
                # coqchk has no VM: it re-checks vm_compute proofs by ordinary conversion, so a cone with large computed
                # examples (C03: whole 8 KiB regions) takes 35-45 minutes on an idle core, more on a loaded machine.  The
                # limit is generous because running out of time here reads as "no longer shown to hold".
                lim = int(os.environ.get('VERIF_COQCHK_TIMEOUT', '14400'))
                rc, out, err = lib.sh(['timeout', str(lim), 'coqchk', '-silent', '-o', '-Q', 'theories', 'PV', mod],
                                      cwd=lib.ROCQ, timeout=lim + 100)
            except Exception as e:  # noqa
                rc, out, err = 124, '', 'coqchk did not finish: %r' % (e,)
        txt = out + err
        import re as _re
        m = _re.search(r'\* Axioms:(.*?)\n\s*\n\* Constants/Inductives relying on type-in-type:(.*?)\n\s*\n'
                       r'\* Constants/Inductives relying on unsafe \(co\)fixpoints:(.*?)\n\s*\n'
                       r'\* Inductives whose positivity is assumed:(.*?)\n', txt, _re.S)
        if rc == 0 and m:
            fields = [' '.join(g.split()) for g in m.groups()]
            coqchk = {'module': mod, 'axioms': fields[0], 'type_in_type': fields[1], 'unsafe_fixpoints': fields[2],
                      'assumed_positivity': fields[3]}
            if any(f != '<none>' for f in fields[1:]) or (fields[0] != '<none>' and not all(
                    any(ok in a for ok in prop_allowed_axioms(prop)) for a in fields[0].split())):
                broken.append({'kind': 'proof', 'name': 'coqchk ' + mod, 'detail': str(coqchk)})
        else:
            broken.append({'kind': 'proof', 'name': 'coqchk ' + mod, 'detail': txt[-1500:]})

    n_obl = len(thms) + len(prop.COQ_EXTRA) + n_kernels
    axioms = sorted(set(a for a in assumptions if a != 'closed'))
    if status.get(prop_vo) and len([a for a in assumptions]) < len(thms):
        notes.append('Print Assumptions blocks seen: %d for %d theorems' % (len(assumptions), len(thms)))
    bad_ax = [a for a in axioms if not any(ok in a for ok in prop_allowed_axioms(prop))]

    # ---- 4+5: cases
    ctx = {'tier': tier, 'rng': rng, 'seed': seed, 'model_exe': model_exe, 'monitor_exe': monitor_exe,
           'broken': broken, 'deadline': None}
    if replay:
        with open(replay) as fh:
            rp = json.load(fh)
        cases = [rp['case']] if 'case' in rp else []
        ctx['tier'] = 'replay'
    else:
        cases = list(prop.corpus_cases()) + list(prop.generate(tier, rng))
    result = prop.run_cases(cases, ctx)
    # result: {'evaluations', 'nontrivial', 'rule', 'samples', 'disagreements': [...], 'violations': [...],
    #          'histogram': {...}, 'exhaustive': bool}

    # ---- verdict
    kf = lib.load_known_findings()
    known = [k for k in kf.get('known', []) if k['property'] == pid]
    unlisted = []
    printed_known = set()
    for v in result['violations']:
        sig = v['signature']
        hit = [k for k in known if k['signature'] == sig]
        if hit:
            if sig not in printed_known:
                printed_known.add(sig)
                print('KNOWN-FINDING: property=%s %s' % (pid, hit[0]['what']))
        else:
            unlisted.append(v)

    searched = None
    if not unlisted and (broken or result['disagreements']) and not replay:
        # a proof obligation or the correspondence broke and no failing input is in hand: search
        budget = 60 if tier == 'quick' else 600
        searched = prop.search(ctx, budget) if hasattr(prop, 'search') else {'violations': [], 'evaluations': 0}
        for v in searched['violations']:
            if not any(k['signature'] == v['signature'] for k in known):
                unlisted.append(v)

    exit_code = 0
    os.makedirs(os.path.join(lib.VERIF, 'replay'), exist_ok=True)
    if unlisted:
        v = min(unlisted, key=lambda x: len(json.dumps(x.get('case', ''), default=str)))
        path = os.path.join(lib.VERIF, 'replay', '%s_counterexample.json' % pid)
        with open(path, 'w') as fh:
            json.dump({'property': pid, 'kind': 'counterexample', 'signature': v['signature'],
                       'case': v['case'], 'summary': v.get('summary'), 'observed': v.get('observed'), 'expected': v.get('expected'),
                       'what': v.get('what'), 'seed': seed,
                       'how_to_replay': '/venv/bin/python harness/check.py %s --replay %s' % (pid, path)},
                      fh, indent=1, default=str)
        print('VIOLATION property=%s replay=%s' % (pid, path))
        exit_code = 1
    elif broken or result['disagreements'] or bad_ax:
        path = os.path.join(lib.VERIF, 'replay', '%s_broken_obligation.json' % pid)
        with open(path, 'w') as fh:
            json.dump({'property': pid, 'kind': 'broken-obligation' if broken else 'correspondence',
                       'broken_obligations': broken, 'unexpected_axioms': bad_ax,
                       'correspondence_disagreements': [{'summary': d.get('summary'), 'difference': d['difference']} for d in result['disagreements'][:5]],
                       'case': result['disagreements'][0]['case'] if result['disagreements'] else None,
                       'searched': (searched or {}).get('evaluations', 0), 'seed': seed,
                       'note': 'no failing input found by the search; the theorem / pin / correspondence case above no longer checks'},
                      fh, indent=1, default=str)
        print('VIOLATION property=%s replay=%s no-failing-input-found' % (pid, path))
        exit_code = 1

    # ---- evidence
    discharged = n_obl - len([b for b in broken if b['kind'] in ('proof', 'side-condition', 'translator')]) \
        if not any(b['kind'] == 'proof' for b in broken) else \
        n_obl - len(thms) - len([b for b in broken if b['kind'] in ('side-condition', 'translator')])
    discharged = max(0, discharged)
    trusted = [
        'Coq 8.16.1 kernel incl. its VM (vm_compute); no native_compute',
        'axioms (Print Assumptions): ' + ('none - every property theorem is closed under the global context' if not axioms else '; '.join(axioms)),
        'translator gen/gen.py + gen/py2gallina.py (checked by in-Coq self-test lemmas *_selftest.v against Python eval)',
        'extraction: Require Extraction + ExtrOcamlBasic only (no Extract Constant / Extract Inductive of our own); OCaml 4.13.1; ocaml/io.ml and the per-property *_main.ml',
        'correspondence harness (generators, canonicalisation) in harness/props/%s.py' % pid.lower(),
    ] + list(getattr(prop, 'TRUSTED', []))
    ev = {
        'property_id': pid, 'tier': tier if not replay else 'quick', 'seed': seed, 'level': 'proof',
        'coverage': {
            'obligations': n_obl, 'discharged': discharged,
            'checker_cmd': 'make -k -j%d %s (coqc 8.16.1, full .vo) in /verif/rocq, after regenerating theories/Generated from %s' % (lib.NCPU, ' '.join(targets), lib.REPO),
            'trusted_base': trusted,
            'theorems': thms, 'print_assumptions': assumptions,
            'kernels_regenerated': n_kernels,
            'broken_obligations': broken,
            'evaluations': result['evaluations'], 'distinct_nontrivial': result['nontrivial'],
            'rule': result['rule'], 'samples': result['samples'][:6],
            'histogram': result.get('histogram', {}),
            'exhaustive': bool(result.get('exhaustive', False)),
            'correspondence_disagreements': len(result['disagreements']),
            'monitor_violations': len(result['violations']),
            'known_findings_printed': sorted(printed_known),
            'search': searched and {'evaluations': searched.get('evaluations', 0), 'found': len(searched['violations'])},
            'partial': getattr(prop, 'PARTIAL', ''),
            'coqchk': coqchk,
        },
        'assumptions': list(getattr(prop, 'ASSUMPTIONS', [])) + notes,
        'wall_s': round(time.time() - t0, 2),
        'violations': len(unlisted),
    }
    os.makedirs(os.path.join(lib.VERIF, 'evidence'), exist_ok=True)
    with open(os.path.join(lib.VERIF, 'evidence', pid + '.json'), 'w') as fh:
        json.dump(ev, fh, indent=1, default=str)
    print('%s tier=%s obligations=%d/%d evaluations=%d nontrivial=%d disagreements=%d violations=%d (unlisted %d) wall=%.1fs' % (
        pid, tier, discharged, n_obl, result['evaluations'], result['nontrivial'], len(result['disagreements']),
        len(result['violations']), len(unlisted), time.time() - t0))
    return exit_code


def prop_allowed_axioms(prop):
    return list(getattr(prop, 'ALLOWED_AXIOMS', []))


if __name__ == '__main__':
    sys.exit(main())
