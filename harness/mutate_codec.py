#!/usr/bin/env python3
"""Developer command (not a registered check): mutation self-test of the C04 / C05 checks.

Applies one realistic change at a time to the working tree of $PICOTOOL_REPO (never committed), runs the
pinned test suite on the mutant (informative), runs the quick check, records the outcome, restores the tree
with `git checkout`.  Usage:  PICOTOOL_REPO=... /venv/bin/python harness/mutate_codec.py [name ...]
Writes notes/mutation_codec.json.
"""
import json
import os
import subprocess
import sys
import time

VERIF = os.path.dirname(os.path.dirname(os.path.abspath(__file__)))
REPO = os.environ['PICOTOOL_REPO']
CP = 'pico8/game/compress.py'
PP = 'pico8/game/formatter/p8png.py'
FP = 'pico8/game/file.py'

# (name, property, file, old, new, expectation)
MUTANTS = [
    ('revert-overlap-fix', 'C05', CP, None, 'git:copied overlapping back-references', 'red'),
    ('revert-both-decoder-fixes', 'C05', CP, None, 'git2:decoder', 'red'),
    ('block-len-18', 'C05', CP, 'max_block_len = 17', 'max_block_len = 18', 'red'),
    ('window-3136', 'C05', CP, '(255 - len(COMPRESSED_LUA_CHAR_TABLE)) * 16', '(256 - len(COMPRESSED_LUA_CHAR_TABLE)) * 16', 'red'),
    ('min-block-2', 'C05', CP, 'if block_len >= 3:', 'if block_len >= 2:', 'red'),
    ('decoder-offset-mask', 'C05', CP, '(codedata[in_i] & 0xf))', '(codedata[in_i] & 0x7))', 'red'),
    ('decoder-length-plus-1', 'C05', CP, 'length = (codedata[in_i] >> 4) + 2', 'length = (codedata[in_i] >> 4) + 3', 'red'),
    ('table-swap', 'C05', CP, "abcdefghijklmnopqrstuvwxyz!#%(){}", "abcdefghijklmnopqrstuvwxyz#!%(){}", 'red'),
    ('encoder-offset-div', 'C05', CP, '(block_offset // 16) + len(COMPRESSED_LUA_CHAR_TABLE))', '(block_offset // 16) + len(COMPRESSED_LUA_CHAR_TABLE) - 1)', 'red'),
    ('prefer-last-match', 'C05', CP, 'if (j - i) > best_len:', 'if (j - i) >= best_len:', 'harmless:no-failing-input-found'),
    ('suffix-without-newline', 'C05', CP, "            in_p += b'\\n'\n", "            pass\n", 'harmless:no-failing-input-found'),
    ('header-length-off', 'C05', PP, 'bytes([len(code) >> 8, len(code) & 255])', 'bytes([len(code) >> 8, (len(code) + 1) & 255])', 'red'),
    ('revert-plain-typeerror-fix', 'C04', PP, 'code_bytes = bytes(code)', "code_bytes = bytes(code, 'ascii')", 'red'),
    ('revert-oversize-fix', 'C04', PP, '    if len(code_bytes) > 0x8000-0x4300:\n', '    if False:\n', 'red'),
    ('revert-version0-fix', 'C04', PP, "    if bytes(codedata[:4]) != b':c:\\x00':", "    if version == 0 or bytes(codedata[:4]) != b':c:\\x00':", 'red'),
    ('revert-header-count-fix', 'C04', PP, '    if (len(compressed_bytes) < len(code) and\n            len(compressed_bytes) + 8 <= 0x8000-0x4300):', '    if len(compressed_bytes) < len(code):', 'red'),
    ('reader-channels-swapped', 'C04', PP, "(row[col_i * attrs['planes'] + 2] & 3) << (0 * 2))", "(row[col_i * attrs['planes'] + 0] & 3) << (0 * 2))", 'red'),
    ('both-sides-red-blue-swapped', 'C04', PP, None, 'multi:rb', 'red'),
    ('writer-drops-upper-bits', 'C04', PP, '(row[col_i * planes + 3] & ~3) |', '(row[col_i * planes + 3] & ~7) |', 'red'),
    ('code-slice-off-by-one', 'C04', PP, 'data.codedata = picodata[0x4300:0x8000]', 'data.codedata = picodata[0x4301:0x8000]', 'red'),
    ('version-byte-dropped', 'C04', PP, 'bytes((game.version,))))', 'bytes((0,))))', 'red'),
    ('label-of-destination-ignored', 'C04', FP, "                kwargs['label_fname'] = filename\n", "                pass\n", 'red'),
    ('no-cr-normalisation', 'C04', PP, "    code = code.replace(b'\\r', b' ')\n", "", 'harmless:no-failing-input-found'),
    ('plain-code-without-final-newline', 'C04', PP, "code = bytes(codedata[:code_length]) + b'\\n'", "code = bytes(codedata[:code_length])", 'harmless:no-failing-input-found'),
]


def sh(cmd, **kw):
    return subprocess.run(cmd, capture_output=True, text=True, **kw)


def apply(m):
    name, prop, rel, old, new, _ = m
    path = os.path.join(REPO, rel)
    if old is None and new.startswith('git:'):
        h = sh(['git', 'log', '--format=%H', '--grep', new[4:]], cwd=REPO).stdout.split()[0]
        p = sh(['git', 'show', h], cwd=REPO).stdout
        r = subprocess.run(['git', 'apply', '-R'], input=p, text=True, cwd=REPO, capture_output=True)
        assert r.returncode == 0, r.stderr
        return
    if old is None and new == 'git2:decoder':
        for g in ('copied overlapping back-references', "returned bytes past the header"):
            h = sh(['git', 'log', '--format=%H', '--grep', g], cwd=REPO).stdout.split()[0]
            p = sh(['git', 'show', h], cwd=REPO).stdout
            r = subprocess.run(['git', 'apply', '-R'], input=p, text=True, cwd=REPO, capture_output=True)
            assert r.returncode == 0, r.stderr
        return
    src = open(path).read()
    if old is None and new == 'multi:rb':
        reps = [("(row[col_i * attrs['planes'] + 2] & 3) << (0 * 2))", "(row[col_i * attrs['planes'] + 0] & 3) << (0 * 2))"),
                ("(row[col_i * attrs['planes'] + 0] & 3) << (2 * 2))", "(row[col_i * attrs['planes'] + 2] & 3) << (2 * 2))"),
                ("new_row[col_i * planes + 2] = (\n                    (row[col_i * planes + 2] & ~3) |\n                    (picobyte & 3))",
                 "new_row[col_i * planes + 2] = (\n                    (row[col_i * planes + 2] & ~3) |\n                    ((picobyte >> 4) & 3))"),
                ("new_row[col_i * planes + 0] = (\n                    (row[col_i * planes + 0] & ~3) |\n                    ((picobyte >> 4) & 3))",
                 "new_row[col_i * planes + 0] = (\n                    (row[col_i * planes + 0] & ~3) |\n                    (picobyte & 3))")]
        # apply first pair with a placeholder to avoid clobbering
        a, b = reps[0][0], reps[1][0]
        assert a in src and b in src
        src = src.replace(a, '@@A@@').replace(b, reps[1][1]).replace('@@A@@', reps[0][1])
        for o, n in reps[2:]:
            assert o in src, o
        src = src.replace(reps[2][0], '@@B@@').replace(reps[3][0], reps[3][1]).replace('@@B@@', reps[2][1])
    else:
        assert src.count(old) >= 1, 'pattern not found: %s' % name
        src = src.replace(old, new, 1)
    open(path, 'w').write(src)


def main():
    want = set(sys.argv[1:])
    out_path = os.path.join(VERIF, 'notes', 'mutation_codec.json')
    res = json.load(open(out_path)) if os.path.exists(out_path) else {}
    assert sh(['git', 'status', '--porcelain'], cwd=REPO).stdout.strip() == '', 'repo clone not clean'
    for m in MUTANTS:
        name, prop, rel, old, new, expect = m
        if want and name not in want:
            continue
        try:
            apply(m)
            t0 = time.time()
            pt = sh(['/venv/bin/python', '-m', 'pytest', '-q', '-p', 'no:cacheprovider', '--timeout=900', '-x'], cwd=REPO)
            suite = pt.stdout.strip().split('\n')[-1]
            env = dict(os.environ)
            r = sh(['timeout', '1500', '/venv/bin/python', os.path.join(VERIF, 'harness', 'check.py'), prop, '--tier', 'quick'], cwd=VERIF, env=env)
            lines = [l for l in r.stdout.split('\n') if l.startswith(('VIOLATION', 'KNOWN-FINDING', prop + ' tier'))]
            sig = None
            rp = os.path.join(VERIF, 'replay', '%s_counterexample.json' % prop)
            if r.returncode == 1 and any('no-failing-input-found' not in l for l in lines if l.startswith('VIOLATION')):
                try:
                    sig = json.load(open(rp)).get('signature')
                except Exception:
                    pass
            res[name] = {'property': prop, 'file': rel, 'expected': expect, 'exit': r.returncode, 'pinned_suite': suite,
                         'lines': lines, 'signature': sig, 'seconds': round(time.time() - t0)}
            print(name, res[name]['exit'], lines[:1], sig, flush=True)
        finally:
            sh(['git', 'checkout', '.'], cwd=REPO)
        os.makedirs(os.path.dirname(out_path), exist_ok=True)
        json.dump(res, open(out_path, 'w'), indent=1)


if __name__ == '__main__':
    main()
