"""Minimal, independent PNG reader and writer for the C04 check (no pypng): 8-bit RGBA, non-interlaced.

read(data) validates the container strictly - signature, chunk lengths and CRCs, a single leading IHDR,
contiguous IDAT chunks, a final IEND, zlib stream that ends exactly at the end of the IDAT data, the five
filter types of the PNG specification, exact decompressed size - and returns (width, height, rows).
Anything else raises PngInvalid.  write(width, height, rows) produces a plain filter-0 file.
"""
import struct
import zlib

SIG = b'\x89PNG\r\n\x1a\n'


class PngInvalid(Exception):
    pass


def _paeth(a, b, c):
    p = a + b - c
    pa, pb, pc = abs(p - a), abs(p - b), abs(p - c)
    if pa <= pb and pa <= pc:
        return a
    if pb <= pc:
        return b
    return c


def read(data):
    if data[:8] != SIG:
        raise PngInvalid('signature')
    pos = 8
    chunks = []
    while pos < len(data):
        if pos + 8 > len(data):
            raise PngInvalid('truncated chunk header')
        (ln,) = struct.unpack('>I', data[pos:pos + 4])
        typ = data[pos + 4:pos + 8]
        if pos + 12 + ln > len(data):
            raise PngInvalid('truncated chunk')
        body = data[pos + 8:pos + 8 + ln]
        (crc,) = struct.unpack('>I', data[pos + 8 + ln:pos + 12 + ln])
        if zlib.crc32(typ + body) & 0xffffffff != crc:
            raise PngInvalid('crc of %r' % typ)
        chunks.append((typ, body))
        pos += 12 + ln
        if typ == b'IEND':
            break
    if pos != len(data):
        raise PngInvalid('data after IEND')
    if not chunks or chunks[0][0] != b'IHDR' or chunks[-1][0] != b'IEND' or chunks[-1][1] != b'':
        raise PngInvalid('IHDR/IEND placement')
    if sum(1 for t, _ in chunks if t == b'IHDR') != 1:
        raise PngInvalid('several IHDR')
    if len(chunks[0][1]) != 13:
        raise PngInvalid('IHDR length')
    width, height, depth, ctype, comp, filt, inter = struct.unpack('>IIBBBBB', chunks[0][1])
    if (depth, ctype, comp, filt, inter) != (8, 6, 0, 0, 0) or width == 0 or height == 0:
        raise PngInvalid('unsupported header %r' % ((width, height, depth, ctype, comp, filt, inter),))
    idx = [i for i, (t, _) in enumerate(chunks) if t == b'IDAT']
    if not idx or idx != list(range(idx[0], idx[0] + len(idx))):
        raise PngInvalid('IDAT chunks missing or not contiguous')
    for t, _ in chunks:
        if t not in (b'IHDR', b'IDAT', b'IEND') and not (t[0] & 0x20):
            raise PngInvalid('unknown critical chunk %r' % t)
    d = zlib.decompressobj()
    try:
        raw = d.decompress(b''.join(b for t, b in chunks if t == b'IDAT'))
    except zlib.error as e:
        raise PngInvalid('zlib: %s' % e)
    if not d.eof or d.unused_data:
        raise PngInvalid('zlib stream does not end with the IDAT data')
    bpp = 4
    stride = width * bpp
    if len(raw) != height * (stride + 1):
        raise PngInvalid('decompressed size %d, expected %d' % (len(raw), height * (stride + 1)))
    rows = []
    prev = bytearray(stride)
    for y in range(height):
        ft = raw[y * (stride + 1)]
        line = bytearray(raw[y * (stride + 1) + 1:(y + 1) * (stride + 1)])
        if ft == 0:
            pass
        elif ft == 1:
            for i in range(bpp, stride):
                line[i] = (line[i] + line[i - bpp]) & 255
        elif ft == 2:
            for i in range(stride):
                line[i] = (line[i] + prev[i]) & 255
        elif ft == 3:
            for i in range(stride):
                a = line[i - bpp] if i >= bpp else 0
                line[i] = (line[i] + ((a + prev[i]) >> 1)) & 255
        elif ft == 4:
            for i in range(stride):
                a = line[i - bpp] if i >= bpp else 0
                c = prev[i - bpp] if i >= bpp else 0
                line[i] = (line[i] + _paeth(a, prev[i], c)) & 255
        else:
            raise PngInvalid('filter type %d' % ft)
        rows.append(bytes(line))
        prev = line
    return width, height, rows


def _chunk(typ, body):
    return struct.pack('>I', len(body)) + typ + body + struct.pack('>I', zlib.crc32(typ + body) & 0xffffffff)


def write(width, height, rows):
    assert len(rows) == height and all(len(r) == width * 4 for r in rows)
    raw = b''.join(b'\x00' + bytes(r) for r in rows)
    return (SIG + _chunk(b'IHDR', struct.pack('>IIBBBBB', width, height, 8, 6, 0, 0, 0)) +
            _chunk(b'IDAT', zlib.compress(raw, 6)) + _chunk(b'IEND', b''))
