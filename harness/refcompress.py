"""A small compressor for the PICO-8 `:c:` code format, written from the format description (not from picotool).

Used only to produce WITNESSES: "this text has a compressed form of n bytes".  A witness is never trusted - the
Spec-only monitor decodes it with the reference decoder (Instances/HoldsC04.v fits_compressed_witness) and ignores it
unless it decodes to the text and fits.  So a defect here can only lose a witness, never raise a false alarm.

Format (stream without the 8-byte header):
  0x00 b        the byte b itself
  0x01..0x3b    the character at that index of the table below
  0x3c..0xff n  a copy: offset = (first - 0x3c) * 16 + (n & 15), length = (n >> 4) + 2, taken `offset` bytes back
"""

TABLE = b'#\n 0123456789abcdefghijklmnopqrstuvwxyz!#%(){}[]<>+=/*:;.,~_'
_INDEX = {}
for _i in range(1, len(TABLE)):
    _INDEX.setdefault(TABLE[_i], _i)
MAX_OFFSET = (0xff - 0x3c) * 16 + 15      # what the two bytes can express
REACH = (0xff - len(TABLE)) * 16            # how far back PICO-8's own (greedy) compressor looks: 3120
FUTURE_CODE = (b'if(_update60)_update=function()'
               b'_update60()_update_buttons()_update60()end')


def with_future_code(text):
    """PICO-8 compresses text that mentions _update60 together with a compatibility line (and cuts it off again after
    decompressing): a witness for such a text must make room for it"""
    text = bytes(text)
    if b'_update60' in text and len(text) < 0x10001 - (len(FUTURE_CODE) + 1):
        if text[-1:] not in (b' ', b'\n'):
            text += b'\n'
        text += FUTURE_CODE
    return text


def compress(text):
    """greedy: at each position the longest earlier, non-overlapping occurrence (3..17 bytes) within reach"""
    text = bytes(text)
    out = bytearray()
    pos, n = 0, len(text)
    while pos < n:
        best_len, best_off = 0, 0
        lo = max(0, pos - REACH)
        for ln in range(min(17, n - pos, pos), 2, -1):
            k = text.rfind(text[pos:pos + ln], lo, pos)
            if k >= 0 and pos - k >= 1 and k + ln <= pos:
                best_len, best_off = ln, pos - k
                break
        if best_len >= 3:
            out.append(0x3c + best_off // 16)
            out.append((best_off % 16) + (best_len - 2) * 16)
            pos += best_len
        else:
            b = text[pos]
            i = _INDEX.get(b, 0)
            if i:
                out.append(i)
            else:
                out.append(0)
                out.append(b)
            pos += 1
    return bytes(out)


def decompress(stream, length):
    """the inverse, for the self-test below"""
    out = bytearray()
    i = 0
    while len(out) < length and i < len(stream):
        c = stream[i]
        i += 1
        if c == 0:
            out.append(stream[i])
            i += 1
        elif c < 0x3c:
            out.append(TABLE[c])
        else:
            nb = stream[i]
            i += 1
            off = (c - 0x3c) * 16 + (nb & 15)
            ln = (nb >> 4) + 2
            for _ in range(ln):
                out.append(out[-off])
    return bytes(out[:length])


if __name__ == '__main__':
    import random
    r = random.Random(1)
    for _ in range(200):
        t = bytes(r.choice(b'ab\n#x=1 ' + bytes([200])) for _ in range(r.randrange(0, 400)))
        assert decompress(compress(t), len(t)) == t
    print('ok')
