#!/bin/bash
# developer helper: refresh the Makefile and build the given targets (default: all)
cd "$(dirname "$(readlink -f "$0")")"
(cat _CoqProject; find theories -name '*.v' | sort) > _CoqProject.all
coq_makefile -f _CoqProject.all -o Makefile 2>&1 | grep -v conda
mkdir -p ../ocaml/build
timeout ${MK_TIMEOUT:-900} make -j16 "$@" 2>&1 | grep -v 'conda\|^COQDEP'
