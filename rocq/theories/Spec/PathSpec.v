(* Reference notion of "file located under a directory", written from the POSIX pathname
   resolution rules (IEEE 1003.1, 4.13) for a file system without symbolic links - not
   from picotool or posixpath code.

   A location is the list of directory-entry names leading from the root to the file.
   Resolving a pathname: an absolute pathname starts at the root, a relative one at the
   current working directory; empty components and "." stay in place, ".." moves to the
   parent (the parent of the root is the root), any other name descends.
   [under root p]  :=  the location of root is a component-wise prefix of the location of p.
   Symbolic links, mount points and permissions are operating-system behaviour and are
   not modelled (DESIGN.md section 6). *)
From PV Require Import Base.Prelude.

(* split a byte string at '/' (47): the components, including empty ones *)
Fixpoint components (s : bytes) : list bytes :=
  match s with
  | [] => [[]]
  | c :: r =>
    if c =? 47 then [] :: components r
    else match components r with
         | h :: t => (c :: h) :: t
         | [] => [[c]]
         end
  end.

Definition comp_kind (c : bytes) : Z :=      (* 0 stay, 1 parent, 2 descend *)
  match c with
  | [] => 0
  | [46] => 0
  | [46; 46] => 1
  | _ => 2
  end.

(* walk the components; [loc] is the current location, innermost name first *)
Fixpoint walk (loc : list bytes) (cs : list bytes) : list bytes :=
  match cs with
  | [] => loc
  | c :: r =>
    match comp_kind c with
    | 0 => walk loc r
    | 1 => walk (tl loc) r
    | _ => walk (c :: loc) r
    end
  end.

Definition absolute (p : bytes) : bool := match p with 47 :: _ => true | _ => false end.

(* location of pathname p for a process whose working directory is cwd (root first) *)
Definition locate (cwd p : bytes) : list bytes :=
  rev (walk (if absolute p then [] else walk [] (components cwd)) (components p)).

Fixpoint prefix_b (a b : list bytes) : bool :=
  match a, b with
  | [], _ => true
  | x :: a', y :: b' => zlist_eqb x y && prefix_b a' b'
  | _ :: _, [] => false
  end.

Definition under_loc (root p : list bytes) : Prop := exists rest, p = root ++ rest.

Definition under (cwd root p : bytes) : Prop := under_loc (locate cwd root) (locate cwd p).
Definition underb (cwd root p : bytes) : bool := prefix_b (locate cwd root) (locate cwd p).

(* ---- observations of a run: every path handed to open() / os.path.isfile() / os.path.exists() ---- *)
Inductive access := Probe | OpenRead.
Definition event : Type := access * bytes.

Definition under_any (cwd : bytes) (roots : list bytes) (p : bytes) : bool :=
  existsb (fun r => underb cwd r p) roots.

(* static roots (include): every accessed path lies under one of the roots *)
Definition all_opens_under (cwd : bytes) (roots : list bytes) (tr : list event) : bool :=
  forallb (fun e => under_any cwd roots (snd e)) tr.

(* require: a file that has been opened becomes a requiring file, so the directories it
   names (its own directory and the load-path directories relative to it, computed by
   [grow]) are roots for the accesses that follow *)
Fixpoint all_opens_under_growing (cwd : bytes) (grow : bytes -> list bytes)
         (roots : list bytes) (tr : list event) : bool :=
  match tr with
  | [] => true
  | (Probe, p) :: r => under_any cwd roots p && all_opens_under_growing cwd grow roots r
  | (OpenRead, p) :: r => under_any cwd roots p && all_opens_under_growing cwd grow (grow p ++ roots) r
  end.

(* the directory part of a pathname, textually: everything up to and including the last '/' *)
Fixpoint dir_part (s : bytes) : bytes :=
  match s with
  | [] => []
  | c :: r => if existsb (fun x => x =? 47) s then c :: dir_part r else []
  end.

(* the longest prefix of a load-path pattern that contains no '?' (63) *)
Fixpoint before_placeholder (pat : bytes) : bytes :=
  match pat with
  | [] => []
  | c :: r => if c =? 63 then [] else c :: before_placeholder r
  end.

(* the directory a load-path pattern names, as a pathname: the directory part of the
   pattern text in front of the first placeholder; relative patterns are relative to the
   directory [base] of the requiring file *)
Definition pattern_dir (base pat : bytes) : bytes :=
  let d := dir_part (before_placeholder pat) in
  if absolute pat then d else match base with [] => d | _ => base ++ 47 :: d end.

(* roots a requiring file contributes: its directory and every pattern directory *)
Definition require_roots (pats : list bytes) (file : bytes) : list bytes :=
  let base := dir_part file in
  base :: map (pattern_dir base) pats.

(* include root by the property text: the PICO-8 carts folder if the cart lies in it,
   otherwise the cart's own directory.  [carts] are the (home-expanded) carts folders. *)
Definition include_root (cwd : bytes) (carts : list bytes) (cart : bytes) : bytes :=
  match filter (fun c => underb cwd c cart) carts with
  | c :: _ => c
  | [] => dir_part cart
  end.
