(* Token-level reference notions for C10's re-indentation clause (written from the property text, not from the writer):

     segs ts            a token list cut at its significant tokens: the white-space / comment run before the first significant
                        token, then every significant token with the run that follows it (the last run ends the file)
     layout_equiv R     "the same program with the same line breaks": the same significant tokens in the same order, and the runs
                        at corresponding places related by R at_start at_end (comments are part of the runs, so R decides how far
                        they may differ; the instance used by Properties/C10.v relates two runs whose texts agree after the
                        line-end / tab normalisation and the removal of blanks at the edges of lines)
     formatted_as G     ts' is spelled as the reference formatting of ts: the same significant tokens, and the joined codes of every run
                        of ts' are what G makes of the run of ts at the same place ("already formatted code")
     ref_fmt G          the formatter the property describes, as a function of the token list: every significant token is written
                        with its own code; the run in front of a token is rewritten by G knowing only whether it begins the file,
                        whether it ends the file and the number of blocks and brackets open at the token (the depth rules of
                        Spec/TokenDepth.v folded along the significant tokens; 0 for the run that ends the file). *)
From PV Require Import Base.Prelude Spec.LuaTokens Spec.FmtShape Spec.TokenDepth.

Fixpoint segs (ts : list token) : list token * list (token * list token) :=
  match ts with
  | [] => ([], [])
  | t :: r => let '(r0, l) := segs r in if is_trivia t then (t :: r0, l) else ([], (t, r0) :: l)
  end.

Definition is_nilb {A} (l : list A) : bool := match l with [] => true | _ => false end.

Section Rel.
(* R at_start at_end run1 run2 *)
Variable R : bool -> bool -> list token -> list token -> Prop.

Fixpoint body_equiv (l1 l2 : list (token * list token)) : Prop :=
  match l1, l2 with
  | [], [] => True
  | (t1, r1) :: l1', (t2, r2) :: l2' => t1 = t2 /\ R false (is_nilb l1') r1 r2 /\ body_equiv l1' l2'
  | _, _ => False
  end.

Definition layout_equiv (ts1 ts2 : list token) : Prop :=
  let '(a1, l1) := segs ts1 in
  let '(a2, l2) := segs ts2 in
  R true (is_nilb l1) a1 a2 /\ body_equiv l1 l2.
End Rel.

Section Ref.
(* G at_start at_end depth run *)
Variable G : bool -> bool -> Z -> list token -> list Z.

(* the depth at the next significant token (0 at the end of the file) *)
Definition next_depth (st : dstate) (l : list (token * list token)) : Z :=
  match l with (t, _) :: _ => tok_depth_at st t | [] => 0 end.

Fixpoint ref_body (st : dstate) (l : list (token * list token)) : list Z :=
  match l with
  | [] => []
  | (t, r) :: l' =>
      let st' := tok_depth_after st t in
      tcode t ++ G false (is_nilb l') (next_depth st' l') r ++ ref_body st' l'
  end.

Definition ref_fmt (ts : list token) : list Z :=
  let '(r0, l) := segs ts in
  G true (is_nilb l) (next_depth (mk_dstate 0 0) l) r0 ++ ref_body (mk_dstate 0 0) l.

Fixpoint spelled_body (st : dstate) (l l' : list (token * list token)) : Prop :=
  match l, l' with
  | [], [] => True
  | (t, r) :: l1, (t', r') :: l1' =>
      let st' := tok_depth_after st t in
      t' = t /\ flat_map tcode r' = G false (is_nilb l1) (next_depth st' l1) r /\ spelled_body st' l1 l1'
  | _, _ => False
  end.

Definition formatted_as (ts ts' : list token) : Prop :=
  let '(a, l) := segs ts in
  let '(a', l') := segs ts' in
  flat_map tcode a' = G true (is_nilb l) (next_depth (mk_dstate 0 0) l) a /\ spelled_body (mk_dstate 0 0) l l'.
End Ref.
