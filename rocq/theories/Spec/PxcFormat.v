(* The PICO-8 ":c:" compressed-code format, written from the format description
   (PICO-8 cart format notes; the 0.1.x "old" compression), NOT from picotool's code.

   Code area (0x4300..0x7fff of the cart ROM, 0x3d00 bytes):
     bytes 0..3   ":c:" 0x00
     bytes 4..5   length of the decompressed code, big endian
     bytes 6..7   0x00 0x00
     bytes 8..    the stream, a sequence of items:
        0x00 b            the byte b itself
        k in 0x01..0x3b   the k-th character of
                          "\n 0123456789abcdefghijklmnopqrstuvwxyz!#%(){}[]<>+=/*:;.,~_"  (k = 1 is "\n")
        b1 >= 0x3c, b2    copy  length = (b2 >> 4) + 2  bytes starting  offset = (b1 - 0x3c) * 16 + (b2 & 15)
                          bytes back in the output produced so far, ONE BYTE AT A TIME (so a block may
                          overlap the bytes it produces)
   Decoding stops when `length` bytes have been produced; the result is the first `length` bytes.
   A stream is well formed when every item is complete, every back-reference has 3 <= length <= 17 and
   1 <= offset <= number of bytes produced before it.
   A code area that does not start with ":c:" 0x00 holds plain text terminated by the first 0x00
   (or filling the whole area).

   Output is kept as a *history*: most recent byte first. *)
From PV Require Import Base.Prelude.

Definition pxc_table : list Z := 10 :: " 0123456789abcdefghijklmnopqrstuvwxyz!#%(){}[]<>+=/*:;.,~_"%bs.

Definition pxc_lookup (k : Z) : option Z :=
  if (1 <=? k) && (k <=? 59) then nth_error pxc_table (Z.to_nat (k - 1)) else None.

Inductive item :=
| Lit (c : Z)                 (* table character or escaped byte: one output byte *)
| Ref (off len : Z).          (* back-reference *)

(* one item from the front of the stream *)
Definition parse_item (s : list Z) : option (item * list Z) :=
  match s with
  | [] => None
  | b1 :: r =>
    if b1 =? 0 then match r with b :: r' => Some (Lit b, r') | [] => None end
    else if b1 <=? 59 then match pxc_lookup b1 with Some c => Some (Lit c, r) | None => None end
    else match r with
         | b2 :: r' => Some (Ref ((b1 - 60) * 16 + b2 mod 16) (b2 / 16 + 2), r')
         | [] => None
         end
  end.

(* copy n bytes from `off` bytes back, one at a time *)
Fixpoint copy_back (n : nat) (off : nat) (hist : list Z) : option (list Z) :=
  match n with
  | O => Some hist
  | S n' => match nth_error hist (off - 1) with
            | Some b => copy_back n' off (b :: hist)
            | None => None
            end
  end.

Definition ref_ok (off len : Z) : bool := (3 <=? len) && (len <=? 17) && (1 <=? off).

(* effect of one item on the history; None = not well formed here *)
Definition apply_item (it : item) (hist : list Z) : option (list Z) :=
  match it with
  | Lit c => Some (c :: hist)
  | Ref off len => if ref_ok off len then copy_back (Z.to_nat len) (Z.to_nat off) hist else None
  end.

Definition item_len (it : item) : Z := match it with Lit _ => 1 | Ref _ len => len end.

(* decode items while fewer than `limit` bytes have been produced (None = no limit: the whole stream).
   produced = length of hist, carried along. *)
Fixpoint pxc_run (fuel : nat) (limit : option Z) (s hist : list Z) (produced : Z) : option (list Z) :=
  match fuel with
  | O => None
  | S f =>
    let stop := match limit with Some n => n <=? produced | None => false end in
    if stop then Some hist
    else match s with
         | [] => Some hist
         | _ => match parse_item s with
                | Some (it, r) => match apply_item it hist with
                                  | Some h' => pxc_run f limit r h' (produced + item_len it)
                                  | None => None
                                  end
                | None => None
                end
         end
  end.

(* the whole stream, start to end *)
Definition pxc_decode_all (s : list Z) : option (list Z) :=
  match pxc_run (S (length s)) None s [] 0 with
  | Some h => Some (rev' h)
  | None => None
  end.

Definition wf_stream (s : list Z) : Prop := exists out, pxc_decode_all s = Some out.
Definition wf_streamb (s : list Z) : bool := match pxc_decode_all s with Some _ => true | None => false end.

(* the first n bytes the stream produces; None when the stream is malformed before n bytes are out
   or ends before producing n bytes *)
Definition pxc_decode (n : Z) (s : list Z) : option (list Z) :=
  match pxc_run (S (length s)) (Some n) s [] 0 with
  | Some h => let out := rev' h in
              if n <=? zlen out then Some (firstn (Z.to_nat n) out) else None
  | None => None
  end.

(* ---- the code area ---- *)
Definition pxc_magic : list Z := ":c:"%bs ++ [0].
Definition area_size : Z := 15616.   (* 0x8000 - 0x4300 = 0x3d00 *)

Fixpoint until_nul (l : list Z) : list Z :=
  match l with [] => [] | x :: r => if x =? 0 then [] else x :: until_nul r end.

Inductive area_content :=
| Compressed (text : list Z)
| Plain (text : list Z)
| Malformed.

Definition decode_area (area : list Z) : area_content :=
  if starts_with pxc_magic area then
    match skipn 4 area with
    | hi :: lo :: 0 :: 0 :: s =>
      match pxc_decode (hi * 256 + lo) s with Some t => Compressed t | None => Malformed end
    | _ => Malformed
    end
  else Plain (until_nul area).

(* the stream of a compressed area *)
Definition area_stream (area : list Z) : list Z := skipn 8 area.

(* ---- the compatibility suffix ----
   PICO-8 appends one of these lines to the code it stores for a cart that mentions _update60
   (so that the cart still runs at 30 fps on versions without _update60) and removes it again when
   it loads the cart; a reader of carts is expected to do the same. Consequently a text that itself
   ends with one of these lines cannot be told apart from a text that had it appended. *)
Definition pxc_future1 : list Z :=
  "if(_update60)_update=function()_update60()_update60()end"%bs.
Definition pxc_future2 : list Z :=
  "if(_update60)_update=function()_update60()_update_buttons()_update60()end"%bs.
