(* The .p8 section text formats and the .p8.png pixel format, written from the format
   descriptions (PICO-8 manual / wiki "P8FileFormat", "P8PNGFileFormat", "Memory"),
   independent of picotool's code. Bytes are Z in [0,256); text is ASCII codes.

   gfx / label : one row = 64 memory bytes = 128 pixels; pixel x of the row is the LOW
                 nibble of byte x/2 for even x and the HIGH nibble for odd x; the text row
                 is the 128 pixels left to right, one hex digit each.
   gff / map   : rows of plain two-digit hex bytes (128 bytes per row).
   sfx         : one line per 68-byte pattern: bytes 64..67 (editor mode, speed, loop start,
                 loop end) as two-digit hex, then 32 notes. Note word w = lsb + 256*msb:
                 pitch = bits 0-5, waveform = bits 6-8, volume = bits 9-11, effect = bits
                 12-14, custom-instrument flag = bit 15 (printed as waveform + 8);
                 text = pitch (2 digits) waveform (1) volume (1) effect (1).
   music       : one line per 4-byte pattern: flag byte = bit7(b0) | bit7(b1)<<1 | bit7(b2)<<2
                 as two digits, a space, then b0..b3 with bit 7 cleared as two digits each.
   png         : each pixel hides one byte: its bits 7-6 in alpha, 5-4 in red, 3-2 in green,
                 1-0 in blue (low two bits of each channel); pixel i of the 160x205 image is
                 byte i of: gfx 0x0000, map 0x2000, gff 0x3000, music 0x3100, sfx 0x3200,
                 code 0x4300..0x7fff, version byte at 0x8000. *)
From PV Require Import Base.Prelude.

Definition hexd (n : Z) : Z := if n <? 10 then 48 + n else 97 + (n - 10).   (* '0'..'9','a'..'f' *)
Definition hexbyte (b : Z) : list Z := [hexd (b / 16); hexd (b mod 16)].
Definition nl : Z := 10.

Fixpoint rows (n : nat) (fuel : nat) (l : list Z) : list (list Z) :=
  match fuel with
  | O => []
  | S f => match l with [] => [] | _ => firstn n l :: rows n f (skipn n l) end
  end.
Definition rows_of (n : nat) (l : list Z) := rows n (length l) l.

(* ---- gfx / label ---- *)
Definition spec_gfx_row (r : list Z) : list Z :=
  flat_map (fun b => [hexd (b mod 16); hexd (b / 16)]) r ++ [nl].
Definition spec_gfx_lines (d : list Z) : list (list Z) := map spec_gfx_row (rows_of 64 d).

(* ---- gff / map ---- *)
Definition spec_hex_row (r : list Z) : list Z := flat_map hexbyte r ++ [nl].
Definition spec_hex_lines (d : list Z) : list (list Z) := map spec_hex_row (rows_of 128 d).

(* ---- sfx ---- *)
Definition note_word (lsb msb : Z) : Z := lsb + 256 * msb.
Definition w_pitch (w : Z) : Z := w mod 64.
Definition w_waveform (w : Z) : Z := (w / 64) mod 8 + 8 * (w / 32768).
Definition w_volume (w : Z) : Z := (w / 512) mod 8.
Definition w_effect (w : Z) : Z := (w / 4096) mod 8.
Definition spec_note_text (lsb msb : Z) : list Z :=
  let w := note_word lsb msb in
  hexbyte (w_pitch w) ++ [hexd (w_waveform w); hexd (w_volume w); hexd (w_effect w)].
Fixpoint spec_notes (l : list Z) : list Z :=
  match l with
  | lsb :: msb :: r => spec_note_text lsb msb ++ spec_notes r
  | _ => []
  end.
Definition spec_sfx_row (p : list Z) : list Z :=   (* p: one 68-byte pattern *)
  flat_map hexbyte (skipn 64 p) ++ spec_notes (firstn 64 p) ++ [nl].
Definition spec_sfx_lines (d : list Z) : list (list Z) := map spec_sfx_row (rows_of 68 d).

(* ---- music ---- *)
Definition bit7 (b : Z) : Z := b / 128.
Definition spec_music_row (p : list Z) : list Z :=
  match p with
  | [b0; b1; b2; b3] =>
    hexbyte (bit7 b0 + 2 * bit7 b1 + 4 * bit7 b2) ++ [32] ++
    hexbyte (b0 mod 128) ++ hexbyte (b1 mod 128) ++ hexbyte (b2 mod 128) ++ hexbyte (b3 mod 128) ++ [nl]
  | _ => []
  end.
Definition spec_music_lines (d : list Z) : list (list Z) := map spec_music_row (rows_of 4 d).
(* the one bit the text format has no place for: bit 7 of every pattern's 4th byte *)
Fixpoint music_norm (d : list Z) : list Z :=
  match d with
  | b0 :: b1 :: b2 :: b3 :: r => b0 :: b1 :: b2 :: (b3 mod 128) :: music_norm r
  | _ => d
  end.

(* ---- short sections ----
   Newer PICO-8 versions do not write the empty tail of a data section: trailing rows that hold what an empty cart
   holds are left out of the .p8 file (a section may have any number of rows from none to the full count, or be
   missing altogether).  A row that is not in the file therefore denotes the empty default, and every region keeps
   its full size and its place in the cart's memory.  The defaults are the contents of the empty cart PICO-8 itself
   writes: zeros for gfx / label / gff / map; for music the pattern 41 42 43 44 (the four channels silent: bit 6
   set, pattern numbers 1-4; text line "00 41424344"); for sfx the never-edited pattern - no notes, no loop, speed 16,
   but speed 1 for pattern 0 (text lines "001000000..." and, for the first, "000100000..."). *)
Definition spec_default_music : list Z := concat (repeat [65; 66; 67; 68] 64).
Definition spec_default_sfx_pattern (speed : Z) : list Z := repeat 0 64 ++ [0; speed; 0; 0].
Definition spec_default_sfx : list Z :=
  spec_default_sfx_pattern 1 ++ concat (repeat (spec_default_sfx_pattern 16) 63).
(* the region denoted by the bytes d of the rows that are present: d followed by the default's tail *)
Definition spec_fill (dflt d : list Z) : list Z := d ++ skipn (length d) dflt.

(* ---- png steganography ---- *)
(* a pixel is (r, g, b, a) as pypng delivers it (RGBA order) *)
Definition spec_pixel_byte (r g b a : Z) : Z :=
  (a mod 4) * 64 + (r mod 4) * 16 + (g mod 4) * 4 + (b mod 4).
Definition spec_pixel_hide (r g b a byte_ : Z) : Z * Z * Z * Z :=
  (r - r mod 4 + (byte_ / 16) mod 4,
   g - g mod 4 + (byte_ / 4) mod 4,
   b - b mod 4 + byte_ mod 4,
   a - a mod 4 + (byte_ / 64) mod 4).

(* ---- memory map of a cart image ---- *)
Definition mem_gfx := 0. Definition mem_map := 8192. Definition mem_gff := 12288.
Definition mem_music := 12544. Definition mem_sfx := 12800. Definition mem_code := 17152.
Definition mem_version := 32768.
Definition spec_image_bytes (gfx map_ gff music sfx code : list Z) (version : Z) : list Z :=
  gfx ++ map_ ++ gff ++ music ++ sfx ++ code ++ [version].
