(* A plain model of the documented semantics of the section accessors (docstrings of
   gfx.py, map.py, gff.py, sfx.py, music.py and the PICO-8 memory layout), independent of
   the code: pixels, map cells (rows 32-63 live in gfx bytes 4096..8191), sprite flags,
   sfx notes / properties, music channels / flags. Memory = the five regions. *)
From PV Require Import Base.Prelude Spec.P8Format.

Record mem := { m_gfx : list Z; m_map : list Z; m_gff : list Z; m_music : list Z; m_sfx : list Z }.

Inductive op :=
| GetSprite (id w h : Z)
| SetSprite (id xo yo : Z) (rows : list (list Z))
| MapGet (x y : Z)
| MapSet (x y v : Z)
| MapGetRect (x y w h : Z)
| MapSetRect (x y : Z) (rows : list (list Z))
| MapGetRectPx (x y w h : Z)
| FlagGet (id fl : Z) | FlagSet (id fl : Z) | FlagClear (id fl : Z) | FlagReset (id fl : Z)
| NoteGet (id n : Z)
| NoteSet (id n : Z) (p w v e : option Z)
| SfxPropGet (id : Z)
| SfxPropSet (id : Z) (a b c d : option Z)
| ChanGet (id ch : Z)
| ChanSet (id ch : Z) (pat : option Z)
| MusPropGet (id : Z)
| MusPropSet (id : Z) (b e s : option bool).

Inductive val :=
| VNone | VInt (z : Z) | VOptInt (o : option Z) | VRows (r : list (list Z))
| VTuple (t : list Z) | VBools (b e s : bool).

Definition at_ (l : list Z) (i : Z) : Z := nth (Z.to_nat i) l 0.
Fixpoint put_nat (l : list Z) (n : nat) (v : Z) : list Z :=
  match l, n with
  | [], _ => []
  | _ :: r, O => v :: r
  | x :: r, S k => x :: put_nat r k v
  end.
Definition put (l : list Z) (i v : Z) : list Z := if i <? 0 then l else put_nat l (Z.to_nat i) v.

(* ---- pixels: sheet is 128x128, two pixels per byte, left pixel in the low nibble ---- *)
Definition get_px (g : list Z) (x y : Z) : Z :=
  let b := at_ g (y * 64 + x / 2) in if x mod 2 =? 0 then b mod 16 else b / 16.
Definition set_px (g : list Z) (x y c : Z) : list Z :=
  let i := y * 64 + x / 2 in let b := at_ g i in
  put g i (if x mod 2 =? 0 then (b / 16) * 16 + c else c * 16 + b mod 16).

Definition transparent : Z := 16.

Definition zrange (lo n : Z) : list Z := map (fun k => lo + k) (upto n).
Fixpoint indexed {A} (i : Z) (l : list A) : list (Z * A) :=
  match l with [] => [] | x :: r => (i, x) :: indexed (i + 1) r end.

(* get_sprite: tile (id mod 16, id / 16) is the upper left corner; tiles beyond column or
   row 15 read as zero *)
Definition spec_get_sprite (g : list Z) (id w h : Z) : list (list Z) :=
  flat_map (fun ty => map (fun yo =>
      flat_map (fun tx => map (fun xo => if (15 <? tx) || (15 <? ty) then 0
                                         else get_px g (tx * 8 + xo) (ty * 8 + yo)) (upto 8))
               (zrange (id mod 16) w)) (upto 8))
    (zrange (id / 16) h).

(* set_sprite: pixels right of column 127 or below row 127 are clipped; TRANSPARENT skips *)
Definition spec_set_sprite (g : list Z) (id xo yo : Z) (rows : list (list Z)) : list Z :=
  fold_left (fun g yr => let '(y, row) := yr in
    fold_left (fun g xv => let '(x, v) := xv in
      let px := (id mod 16) * 8 + xo + x in let py := (id / 16) * 8 + yo + y in
      if (v =? transparent) || (127 <? px) || (127 <? py) then g else set_px g px py v)
      (indexed 0 row) g) (indexed 0 rows) g.

(* ---- map: 128 x 64 cells ---- *)
Definition get_cell (m g : list Z) (x y : Z) : Z :=
  if y <? 32 then at_ m (y * 128 + x) else at_ g (4096 + (y - 32) * 128 + x).
Definition set_cell (mg : list Z * list Z) (x y v : Z) : list Z * list Z :=
  let '(m, g) := mg in
  if y <? 32 then (put m (y * 128 + x) v, g) else (m, put g (4096 + (y - 32) * 128 + x) v).
Definition spec_get_rect (m g : list Z) (x y w h : Z) : list (list Z) :=
  map (fun ty => map (fun tx => if (63 <? ty) || (127 <? tx) then 0 else get_cell m g tx ty) (zrange x w))
      (zrange y h).
(* get_rect_pixels: the rectangle of get_rect_tiles drawn as pixels - every row of tiles gives 8
   rows of pixels, every tile 8 pixels of each of them. Tile 0 is empty (all 0, as PICO-8 draws
   it, not sprite 0); any other tile t is the 8x8 block of the sprite sheet whose upper left pixel
   is at column (t mod 16) * 8, row (t / 16) * 8 *)
Definition tile_px (g : list Z) (t xo yo : Z) : Z :=
  if t =? 0 then 0 else get_px g ((t mod 16) * 8 + xo) ((t / 16) * 8 + yo).
Definition spec_get_rect_pixels (m g : list Z) (x y w h : Z) : list (list Z) :=
  flat_map (fun tiles => map (fun yo => flat_map (fun t => map (fun xo => tile_px g t xo yo) (upto 8)) tiles) (upto 8))
           (spec_get_rect m g x y w h).
Definition spec_set_rect (mg : list Z * list Z) (x y : Z) (rows : list (list Z)) : list Z * list Z :=
  fold_left (fun mg yr => let '(ty, row) := yr in
    fold_left (fun mg xv => let '(tx, v) := xv in
      if (63 <? ty + y) || (127 <? tx + x) then mg else set_cell mg (tx + x) (ty + y) v)
      (indexed 0 row) mg) (indexed 0 rows) mg.

(* ---- sfx notes: 16-bit word, fields as in Spec/P8Format ---- *)
Definition note_get (s : list Z) (id n : Z) : list Z :=
  let w := note_word (at_ s (id * 68 + n * 2)) (at_ s (id * 68 + n * 2 + 1)) in
  [w_pitch w; w_waveform w; w_volume w; w_effect w].
Definition odef (o : option Z) (d : Z) : Z := match o with Some v => v | None => d end.
Definition note_set (s : list Z) (id n : Z) (p w v e : option Z) : list Z :=
  match note_get s id n with
  | [p0; w0; v0; e0] =>
    let p1 := odef p p0 in let w1 := odef w w0 in let v1 := odef v v0 in let e1 := odef e e0 in
    let word := p1 + 64 * (w1 mod 8) + 512 * v1 + 4096 * e1 + 32768 * (w1 / 8) in
    put (put s (id * 68 + n * 2) (word mod 256)) (id * 68 + n * 2 + 1) (word / 256)
  | _ => s
  end.
Definition put_opt (l : list Z) (i : Z) (o : option Z) : list Z :=
  match o with Some v => put l i v | None => l end.

(* ---- music ---- *)
Definition chan_get (mu : list Z) (id ch : Z) : option Z :=
  let p := at_ mu (id * 4 + ch) mod 128 in if 63 <? p then None else Some p.
Definition chan_set (mu : list Z) (id ch : Z) (pat : option Z) : list Z :=
  let old := at_ mu (id * 4 + ch) in
  put mu (id * 4 + ch) ((old / 128) * 128 + odef pat (65 + ch)).    (* silent channel n is 0x41+n *)
Definition flag7 (mu : list Z) (i : Z) : bool := 128 <=? at_ mu i.
Definition set7 (mu : list Z) (i : Z) (o : option bool) : list Z :=
  match o with
  | None => mu
  | Some b => put mu i (at_ mu i mod 128 + (if b then 128 else 0))
  end.

Definition spec_step (s : mem) (o : op) : mem * val :=
  match o with
  | GetSprite id w h => (s, VRows (spec_get_sprite (m_gfx s) id w h))
  | SetSprite id xo yo rows =>
    ({| m_gfx := spec_set_sprite (m_gfx s) id xo yo rows; m_map := m_map s; m_gff := m_gff s;
        m_music := m_music s; m_sfx := m_sfx s |}, VNone)
  | MapGet x y => (s, VInt (get_cell (m_map s) (m_gfx s) x y))
  | MapSet x y v =>
    let '(m, g) := set_cell (m_map s, m_gfx s) x y v in
    ({| m_gfx := g; m_map := m; m_gff := m_gff s; m_music := m_music s; m_sfx := m_sfx s |}, VNone)
  | MapGetRect x y w h => (s, VRows (spec_get_rect (m_map s) (m_gfx s) x y w h))
  | MapSetRect x y rows =>
    let '(m, g) := spec_set_rect (m_map s, m_gfx s) x y rows in
    ({| m_gfx := g; m_map := m; m_gff := m_gff s; m_music := m_music s; m_sfx := m_sfx s |}, VNone)
  | MapGetRectPx x y w h => (s, VRows (spec_get_rect_pixels (m_map s) (m_gfx s) x y w h))
  | FlagGet id fl => (s, VInt (Z.land (at_ (m_gff s) id) fl))
  | FlagSet id fl =>
    ({| m_gfx := m_gfx s; m_map := m_map s; m_gff := put (m_gff s) id (Z.lor (at_ (m_gff s) id) fl);
        m_music := m_music s; m_sfx := m_sfx s |}, VNone)
  | FlagClear id fl =>
    ({| m_gfx := m_gfx s; m_map := m_map s;
        m_gff := put (m_gff s) id (Z.land (at_ (m_gff s) id) (255 - fl));
        m_music := m_music s; m_sfx := m_sfx s |}, VNone)
  | FlagReset id fl =>
    ({| m_gfx := m_gfx s; m_map := m_map s; m_gff := put (m_gff s) id fl;
        m_music := m_music s; m_sfx := m_sfx s |}, VNone)
  | NoteGet id n => (s, VTuple (note_get (m_sfx s) id n))
  | NoteSet id n p w v e =>
    ({| m_gfx := m_gfx s; m_map := m_map s; m_gff := m_gff s; m_music := m_music s;
        m_sfx := note_set (m_sfx s) id n p w v e |}, VNone)
  | SfxPropGet id =>
    (s, VTuple [at_ (m_sfx s) (id * 68 + 64); at_ (m_sfx s) (id * 68 + 65);
                at_ (m_sfx s) (id * 68 + 66); at_ (m_sfx s) (id * 68 + 67)])
  | SfxPropSet id a b c d =>
    ({| m_gfx := m_gfx s; m_map := m_map s; m_gff := m_gff s; m_music := m_music s;
        m_sfx := put_opt (put_opt (put_opt (put_opt (m_sfx s) (id * 68 + 64) a) (id * 68 + 65) b)
                                  (id * 68 + 66) c) (id * 68 + 67) d |}, VNone)
  | ChanGet id ch => (s, VOptInt (chan_get (m_music s) id ch))
  | ChanSet id ch pat =>
    ({| m_gfx := m_gfx s; m_map := m_map s; m_gff := m_gff s;
        m_music := chan_set (m_music s) id ch pat; m_sfx := m_sfx s |}, VNone)
  | MusPropGet id =>
    (s, VBools (flag7 (m_music s) (id * 4)) (flag7 (m_music s) (id * 4 + 1)) (flag7 (m_music s) (id * 4 + 2)))
  | MusPropSet id b e st =>
    ({| m_gfx := m_gfx s; m_map := m_map s; m_gff := m_gff s;
        m_music := set7 (set7 (set7 (m_music s) (id * 4) b) (id * 4 + 1) e) (id * 4 + 2) st;
        m_sfx := m_sfx s |}, VNone)
  end.

(* ---- the documented argument ranges ---- *)
Definition inr (lo x hi : Z) : bool := (lo <=? x) && (x <=? hi).
Definition oinr (lo : Z) (o : option Z) (hi : Z) : bool :=
  match o with Some x => inr lo x hi | None => true end.
Definition rows_in (lo hi : Z) (rows : list (list Z)) : bool :=
  forallb (fun r => forallb (fun v => inr lo v hi) r) rows.

Definition in_contract (o : op) : bool :=
  match o with
  | GetSprite id w h => inr 0 id 255 && (1 <=? w) && (1 <=? h)
  | SetSprite id xo yo rows => inr 0 id 255 && (0 <=? xo) && (0 <=? yo) && rows_in 0 16 rows
  | MapGet x y => inr 0 x 127 && inr 0 y 63
  | MapSet x y v => inr 0 x 127 && inr 0 y 63 && inr 0 v 255
  | MapGetRect x y w h => inr 0 x 127 && inr 0 y 63 && (1 <=? w) && (1 <=? h)
  | MapSetRect x y rows => (0 <=? x) && (0 <=? y) && rows_in 0 255 rows
  | MapGetRectPx x y w h => inr 0 x 127 && inr 0 y 63 && (1 <=? w) && (1 <=? h) && (y + h <=? 64)
  | FlagGet id fl | FlagSet id fl | FlagClear id fl | FlagReset id fl => inr 0 id 255 && inr 0 fl 255
  | NoteGet id n => inr 0 id 63 && inr 0 n 31
  | NoteSet id n p w v e => inr 0 id 63 && inr 0 n 31 && oinr 0 p 63 && oinr 0 w 15 && oinr 0 v 7 && oinr 0 e 7
  | SfxPropGet id => inr 0 id 63
  | SfxPropSet id a b c d => inr 0 id 63 && oinr 0 a 255 && oinr 0 b 255 && oinr 0 c 255 && oinr 0 d 255
  | ChanGet id ch => inr 0 id 63 && inr 0 ch 3
  | ChanSet id ch pat => inr 0 id 63 && inr 0 ch 3 && oinr 0 pat 63
  | MusPropGet id => inr 0 id 63
  | MusPropSet id _ _ _ => inr 0 id 63
  end.

Definition wf_mem (s : mem) : Prop :=
  zlen (m_gfx s) = 8192 /\ zlen (m_map s) = 4096 /\ zlen (m_gff s) = 256 /\
  zlen (m_music s) = 256 /\ zlen (m_sfx s) = 4352 /\
  Forall byte (m_gfx s) /\ Forall byte (m_map s) /\ Forall byte (m_gff s) /\
  Forall byte (m_music s) /\ Forall byte (m_sfx s).

Definition wf_memb (s : mem) : bool :=
  (zlen (m_gfx s) =? 8192) && (zlen (m_map s) =? 4096) && (zlen (m_gff s) =? 256) &&
  (zlen (m_music s) =? 256) && (zlen (m_sfx s) =? 4352) &&
  all_bytes (m_gfx s) && all_bytes (m_map s) && all_bytes (m_gff s) &&
  all_bytes (m_music s) && all_bytes (m_sfx s).
