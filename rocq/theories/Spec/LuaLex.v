(* Reference lexical grammar of the PICO-8 dialect of Lua.

   Written from the Lua 5.2 reference manual section 3.1 (and llex.c's reading of it for the
   points the manual leaves to the implementation: line-break sequences, decimal escapes,
   long-bracket newline handling) plus the PICO-8 manual's extensions.  NOT written from
   picotool's lexer.py: no matcher order, no regular expressions.  Dispatch is on the first
   byte; symbols are recognised by LONGEST match over the symbol set.

   [spec_lex src = None] means: lexical error, or an input on which the dialect's behaviour
   is not established offline ("undefined", see DESIGN.md 8.0).  No claim is made for such
   inputs.  Undefined here:
     - vertical tab / form feed and every other control byte outside strings and comments;
     - comments opened with a long bracket of level >= 1  (--[==[ );
     - the escape \z, and every escape letter not listed in [simple_escape];
     - an exponent with an explicit plus sign (1e+5), hexadecimal exponents (0x1p4), a
       hexadecimal or binary numeral ending in '.' (0x1.);
     - a numeral run that is not one complete numeral.  The run is the one Lua 5.2's llex.c
       read_numeral consumes: the first digit (after an optional leading '.'), an optional x / X
       directly after a first digit 0 (which switches the exponent letters from e E to p P), then
       every hexadecimal digit (0-9 a-f A-F), every '.', every exponent letter, and a sign
       directly after an exponent letter; the first other byte ends the run.  So 1then is the
       number 1 and the keyword then, 3x is 3 and the name x, 0x1g is 0x1 and g, 1or 2 is 1 or 2;
       but 9do (run 9d), 1and (1a), 1end / 1else (1e), 1for (1f), 1..2, 1.5.5, 0x1p (no hexadecimal
       exponents), 0b12 (the binary prefix 0b / 0B of PICO-8 consists of run bytes: b is a
       hexadecimal digit) and .0x5 (read_numeral sees the 0x after the '.': the run is .0x5) are
       not numerals: undefined.  (This was Lua 5.1's rule before - the run took ALL letters and
       digits - under which 1then and 3x were undefined.  On a run that is no numeral [num_run]
       may extend further than read_numeral, which reads an exponent letter that directly follows
       an exponent and its sign as a hexadecimal digit: 1ee+ ; the result is None either way.);
     - '::' that is not the opening or closing of an unspaced label ::name:: ;
     - an operator of the symbol set directly followed by '=' where later PICO-8 versions
       have a compound assignment operator that is not in the dialect's set (\= ^= |= &= ^^=
       <<= >>= >>>= <<>= >><=);
     - a raw line break inside a quoted string (a lexical error in Lua);
     - any source containing a carriage return that is not directly followed by a line feed (Lua
       also takes a lone CR and LF CR as line breaks; PICO-8 carts use LF, Windows editors CR LF; what
       PICO-8 does with the other two is not established, and the property text names LF and CR LF).
       Line breaks are therefore the newline tokens LF and CR LF.  [spec_advance] still follows Lua's
       counting rule literally; on this domain it counts exactly the line feeds. *)
From PV Require Import Base.Prelude.

Inductive skind : Set :=
| SSpace | SNewline | SComment | SString | SNumber | SName | SLabel | SKeyword | SSymbol.

Definition skind_code (k : skind) : Z :=
  match k with
  | SSpace => 0 | SNewline => 1 | SComment => 2 | SString => 3 | SNumber => 4
  | SName => 5 | SLabel => 6 | SKeyword => 7 | SSymbol => 8
  end.

Record stok : Set := mk_stok {
  s_kind : skind;
  s_raw : list Z;      (* the source bytes of the token *)
  s_text : list Z;     (* strings: the denoted bytes; labels: the name; otherwise the raw text *)
  s_num : Z;           (* numbers: value = s_num / s_den, s_den > 0 *)
  s_den : Z;
  s_long : Z;          (* strings: -1 quoted, n >= 0 long bracket of level n; otherwise -1 *)
  s_line : Z;          (* 0-based line of the first byte *)
  s_col : Z            (* 0-based column of the first byte *)
}.

(* ---------- character classes (ASCII; bytes >= 0x80 are PICO-8 glyphs = identifier characters) *)
Definition is_digit (c : Z) : bool := (48 <=? c) && (c <=? 57).
Definition is_lower_hex (c : Z) : bool := (97 <=? c) && (c <=? 102).
Definition is_upper_hex (c : Z) : bool := (65 <=? c) && (c <=? 70).
Definition is_hex (c : Z) : bool := is_digit c || is_lower_hex c || is_upper_hex c.
Definition is_bin (c : Z) : bool := (c =? 48) || (c =? 49).
Definition is_alpha (c : Z) : bool := ((97 <=? c) && (c <=? 122)) || ((65 <=? c) && (c <=? 90)).
Definition is_alnum (c : Z) : bool := is_alpha c || is_digit c.
Definition is_name_start (c : Z) : bool := is_alpha c || (c =? 95) || ((128 <=? c) && (c <=? 255)).
Definition is_name_char (c : Z) : bool := is_name_start c || is_digit c.
Definition is_blank (c : Z) : bool := (c =? 32) || (c =? 9).
Definition is_eol (c : Z) : bool := (c =? 10) || (c =? 13).

Fixpoint span (p : Z -> bool) (s : list Z) : list Z * list Z :=
  match s with
  | c :: r => if p c then let '(a, b) := span p r in (c :: a, b) else ([], s)
  | [] => ([], [])
  end.

Definition bs_ (x : bstr) : list Z := unBS x.
Arguments bs_ x%bs.

Definition nonempty {A} (l : list A) : bool := match l with [] => false | _ => true end.

(* ---------- positions: Lua counts one line for each of \n, \r, \r\n, \n\r *)
Fixpoint spec_advance (line col : Z) (bs : list Z) : Z * Z :=
  match bs with
  | [] => (line, col)
  | c :: r =>
    if is_eol c then
      match r with
      | d :: r' => if is_eol d && negb (c =? d) then spec_advance (line + 1) 0 r'
                   else spec_advance (line + 1) 0 r
      | [] => (line + 1, 0)
      end
    else spec_advance line (col + 1) r
  end.

(* ---------- keywords and symbols of the dialect *)
Definition spec_keywords : list (list Z) :=
  [bs_ "and"; bs_ "break"; bs_ "do"; bs_ "else"; bs_ "elseif";
   bs_ "end"; bs_ "false"; bs_ "for"; bs_ "function"; bs_ "goto";
   bs_ "if"; bs_ "in"; bs_ "local"; bs_ "nil"; bs_ "not";
   bs_ "or"; bs_ "repeat"; bs_ "return"; bs_ "then"; bs_ "true";
   bs_ "until"; bs_ "while"].

(* Lua 5.2: + - * / % ^ # == ~= <= >= < > = ( ) { } [ ] ; : , . .. ...
   PICO-8: != ; compound assignment += -= *= /= %= ..= ; integer division \ ; bitwise & | ^^ ~
   << >> >>> <<> >>< ; peek shorthands @ % $ *)
Definition spec_symbols : list (list Z) :=
  [bs_ "+"; bs_ "-"; bs_ "*"; bs_ "/"; bs_ "%"; bs_ "^";
   bs_ "#"; bs_ "=="; bs_ "~="; bs_ "<="; bs_ ">="; bs_ "<";
   bs_ ">"; bs_ "="; bs_ "("; bs_ ")"; bs_ "{"; bs_ "}";
   bs_ "["; bs_ "]"; bs_ ";"; bs_ ":"; bs_ ","; bs_ ".";
   bs_ ".."; bs_ "...";
   bs_ "!="; bs_ "+="; bs_ "-="; bs_ "*="; bs_ "/="; bs_ "%=";
   bs_ "..="; [92]; bs_ "&"; bs_ "|"; bs_ "^^"; bs_ "~";
   bs_ "<<"; bs_ ">>"; bs_ ">>>"; bs_ "<<>"; bs_ ">><";
   bs_ "@"; bs_ "$"].

(* operators after which a directly following '=' would form a compound assignment of later
   PICO-8 versions: left undefined *)
Definition later_compound_bases : list (list Z) :=
  [[92]; bs_ "^"; bs_ "|"; bs_ "&"; bs_ "^^"; bs_ "<<";
   bs_ ">>"; bs_ ">>>"; bs_ "<<>"; bs_ ">><"].

Definition mem_bytes (x : list Z) (l : list (list Z)) : bool := existsb (zlist_eqb x) l.

(* strip a literal prefix *)
Fixpoint strip_prefix (p s : list Z) : option (list Z) :=
  match p, s with
  | [], _ => Some s
  | x :: p', y :: s' => if x =? y then strip_prefix p' s' else None
  | _ :: _, [] => None
  end.

(* the longest element of [l] that is a prefix of [s] (the earliest among equally long ones) *)
Fixpoint longest_match (l : list (list Z)) (s : list Z) : option (list Z) :=
  match l with
  | [] => None
  | x :: l' =>
    match longest_match l' s with
    | Some y => if starts_with x s && (length y <? length x)%nat then Some x else Some y
    | None => if starts_with x s then Some x else None
    end
  end.

(* ---------- numerals *)
Definition digit_val (c : Z) : Z :=
  if is_digit c then c - 48 else if is_lower_hex c then c - 87 else c - 55.
Definition digits_val (base : Z) (ds : list Z) : Z := fold_left (fun a c => a * base + digit_val c) ds 0.

(* the loop of Lua 5.2's read_numeral (llex.c): an exponent letter (e/E; p/P in hexadecimal) is
   read together with a sign that directly follows it; otherwise a hexadecimal digit or a dot is
   read; anything else ends the run *)
Fixpoint num_run (hexmode after_expo : bool) (s : list Z) : list Z * list Z :=
  match s with
  | c :: r =>
    if is_hex c || (c =? 46) || (hexmode && ((c =? 112) || (c =? 80))) then
      let ex := if hexmode then (c =? 112) || (c =? 80) else (c =? 101) || (c =? 69) in
      let '(a, b) := num_run hexmode ex r in (c :: a, b)
    else if after_expo && ((c =? 43) || (c =? 45)) then
      let '(a, b) := num_run hexmode false r in (c :: a, b)
    else ([], s)
  | [] => ([], [])
  end.

(* digits [. digits] in the given base, after the 0x / 0b prefix; at least one digit before or
   after the point, and digits after the point when there is one *)
Definition parse_based (base : Z) (isd : Z -> bool) (s : list Z) : option (Z * Z) :=
  let '(ip, r) := span isd s in
  match r with
  | [] => if nonempty ip then Some (digits_val base ip, 1) else None
  | c :: r' =>
    if c =? 46 then
      let '(fp, r'') := span isd r' in
      if nonempty fp && negb (nonempty r'') then
        Some (digits_val base ip * base ^ zlen fp + digits_val base fp, base ^ zlen fp)
      else None
    else None
  end.

Definition parse_exponent (s : list Z) : option Z :=
  match s with
  | [] => None
  | c :: ds =>
    if c =? 45 then (if nonempty ds && forallb is_digit ds then Some (- digits_val 10 ds) else None)
    else if c =? 43 then None
    else if forallb is_digit s then Some (digits_val 10 s) else None
  end.

Definition parse_decimal (s : list Z) : option (Z * Z) :=
  let '(ip, r) := span is_digit s in
  let '(fp, r2) := match r with
                   | c :: r' => if c =? 46 then span is_digit r' else ([], r)
                   | [] => ([], r)
                   end in
  if nonempty ip || nonempty fp then
    let m := digits_val 10 ip * 10 ^ zlen fp + digits_val 10 fp in
    let d := 10 ^ zlen fp in
    match r2 with
    | [] => Some (m, d)
    | e :: r3 =>
      if (e =? 101) || (e =? 69) then
        match parse_exponent r3 with
        | Some x => if 0 <=? x then Some (m * 10 ^ x, d) else Some (m, d * 10 ^ (- x))
        | None => None
        end
      else None
    end
  else None.

(* value of a complete numeral *)
Definition spec_numeral (d : list Z) : option (Z * Z) :=
  match d with
  | 48 :: x :: r =>
    if (x =? 120) || (x =? 88) then parse_based 16 is_hex r
    else if (x =? 98) || (x =? 66) then parse_based 2 is_bin r
    else parse_decimal d
  | _ => parse_decimal d
  end.

Definition is_hex_prefix (s : list Z) : bool :=
  match s with 48 :: x :: _ => (x =? 120) || (x =? 88) | _ => false end.

(* read_numeral from its first digit: the digit, 0x / 0X switches to hexadecimal, then the loop
   (the binary prefix 0b / 0B of PICO-8 needs nothing: b and B are hexadecimal digits) *)
Definition num_body (s : list Z) : list Z * list Z :=
  match s with
  | z :: x :: r =>
    if is_hex_prefix s then let '(a, b) := num_run true false r in (z :: x :: a, b)
    else num_run false false s
  | _ => num_run false false s
  end.

(* the lexer reads a leading '.' itself and then calls read_numeral on the digit after it *)
Definition num_split (s : list Z) : list Z * list Z :=
  match s with
  | c :: r => if c =? 46 then let '(a, b) := num_body r in (c :: a, b) else num_body s
  | [] => ([], [])
  end.

(* ---------- quoted strings *)
Definition simple_escape (c : Z) : option Z :=
  if c =? 97 then Some 7          (* \a *)
  else if c =? 98 then Some 8     (* \b *)
  else if c =? 102 then Some 12   (* \f *)
  else if c =? 110 then Some 10   (* \n *)
  else if c =? 114 then Some 13   (* \r *)
  else if c =? 116 then Some 9    (* \t *)
  else if c =? 118 then Some 11   (* \v *)
  else if c =? 92 then Some 92    (* \\ *)
  else if c =? 34 then Some 34    (* backslash double-quote *)
  else if c =? 39 then Some 39    (* backslash single-quote *)
  else if c =? 42 then Some 1     (* \*  P8SCII control codes of the PICO-8 manual *)
  else if c =? 35 then Some 2     (* \# *)
  else if c =? 45 then Some 3     (* \- *)
  else if c =? 124 then Some 4    (* \| *)
  else if c =? 43 then Some 5     (* \+ *)
  else if c =? 94 then Some 6     (* \^ *)
  else None.

(* reads up to and including the closing quote [q]; returns (denoted bytes, raw bytes read
   including the closing quote, rest) *)
Definition ucons (pre : list Z) (v : Z) (res : option (list Z * list Z * list Z)) :=
  match res with
  | Some (val, raw, rest) => Some (v :: val, pre ++ raw, rest)
  | None => None
  end.

Fixpoint unescape_until (q : Z) (s : list Z) : option (list Z * list Z * list Z) :=
  match s with
  | [] => None                                    (* unfinished string *)
  | c :: r =>
    if c =? q then Some ([], [c], r)
    else if is_eol c then None                    (* raw line break *)
    else if c =? 92 then
      match r with
      | [] => None
      | e :: r1 =>
        if is_digit e then                        (* \ddd: up to three decimal digits *)
          match r1 with
          | e2 :: r2 =>
            if is_digit e2 then
              match r2 with
              | e3 :: r3 =>
                if is_digit e3 then
                  let v := (e - 48) * 100 + (e2 - 48) * 10 + (e3 - 48) in
                  if v <=? 255 then ucons [c; e; e2; e3] v (unescape_until q r3) else None
                else ucons [c; e; e2] ((e - 48) * 10 + (e2 - 48)) (unescape_until q r2)
              | [] => ucons [c; e; e2] ((e - 48) * 10 + (e2 - 48)) (unescape_until q r2)
              end
            else ucons [c; e] (e - 48) (unescape_until q r1)
          | [] => ucons [c; e] (e - 48) (unescape_until q r1)
          end
        else if e =? 120 then                     (* \xhh: exactly two hexadecimal digits *)
          match r1 with
          | h1 :: h2 :: r3 =>
            if is_hex h1 && is_hex h2 then ucons [c; e; h1; h2] (digit_val h1 * 16 + digit_val h2) (unescape_until q r3) else None
          | _ => None
          end
        else if e =? 10 then                      (* backslash-newline denotes a newline *)
          match r1 with
          | e2 :: r2 => if e2 =? 13 then ucons [c; e; 13] 10 (unescape_until q r2)
                        else ucons [c; e] 10 (unescape_until q r1)
          | [] => ucons [c; e] 10 (unescape_until q r1)
          end
        else if e =? 13 then
          match r1 with
          | e2 :: r2 => if e2 =? 10 then ucons [c; e; 10] 10 (unescape_until q r2)
                        else ucons [c; e] 10 (unescape_until q r1)
          | [] => ucons [c; e] 10 (unescape_until q r1)
          end
        else
          match simple_escape e with
          | Some v => ucons [c; e] v (unescape_until q r1)
          | None => None                          (* \z and unknown escapes: undefined *)
          end
      end
    else ucons [c] c (unescape_until q r)
  end.

(* the bytes denoted by the body of a quoted string (the text between the quotes) *)
Definition spec_unescape (q : Z) (body : list Z) : option (list Z) :=
  match unescape_until q (body ++ [q]) with
  | Some (v, _, []) => Some v
  | _ => None
  end.

(* ---------- long brackets *)
(* after an opening '[': the level if the bytes are  =^n [  *)
Fixpoint long_open (s : list Z) (n : Z) : option (Z * list Z) :=
  match s with
  | c :: r => if c =? 61 then long_open r (n + 1) else if c =? 91 then Some (n, r) else None
  | [] => None
  end.

(* does [s] start with  =^n ]  ?  -> rest *)
Fixpoint long_close_here (n : nat) (s : list Z) : option (list Z) :=
  match n, s with
  | O, 93 :: r => Some r
  | S k, 61 :: r => long_close_here k r
  | _, _ => None
  end.

(* body up to the closing bracket of level n: (body, closing bracket, rest) *)
Fixpoint long_body (n : nat) (s : list Z) : option (list Z * list Z * list Z) :=
  match s with
  | [] => None
  | c :: r =>
    match (if c =? 93 then long_close_here n r else None) with
    | Some rest => Some ([], c :: repeat 61 n ++ [93], rest)
    | None =>
      match long_body n r with
      | Some (b, cl, rest) => Some (c :: b, cl, rest)
      | None => None
      end
    end
  end.

(* a first line break directly after the opening bracket is not part of the string *)
Definition skip_first_eol (s : list Z) : list Z :=
  match s with
  | c :: r =>
    if is_eol c then
      match r with
      | d :: r' => if is_eol d && negb (c =? d) then r' else r
      | [] => r
      end
    else s
  | [] => s
  end.

(* every line-break sequence inside a long string denotes one \n *)
Fixpoint normalize_eols (s : list Z) : list Z :=
  match s with
  | [] => []
  | c :: r =>
    if is_eol c then
      match r with
      | d :: r' => if is_eol d && negb (c =? d) then 10 :: normalize_eols r' else 10 :: normalize_eols r
      | [] => [10]
      end
    else c :: normalize_eols r
  end.

Definition long_string_value (body : list Z) : list Z := normalize_eols (skip_first_eol body).

(* ---------- one token *)
Definition mk (k : skind) (raw text : list Z) := mk_stok k raw text 0 1 (-1) 0 0.

Definition line_comment (s : list Z) : option (stok * list Z) :=
  let '(a, b) := span (fun c => negb (is_eol c)) s in Some (mk SComment a a, b).

Definition spec_symbol (s : list Z) : option (stok * list Z) :=
  match longest_match spec_symbols s with
  | None => None
  | Some x =>
    match strip_prefix x s with
    | None => None
    | Some rest =>
      match rest with
      | 61 :: _ => if mem_bytes x later_compound_bases then None else Some (mk SSymbol x x, rest)
      | _ => Some (mk SSymbol x x, rest)
      end
    end
  end.

Definition spec_number (s : list Z) : option (stok * list Z) :=
  let '(run, rest) := num_split s in
  match spec_numeral run with
  | Some (n, d) => Some (mk_stok SNumber run run n d (-1) 0 0, rest)
  | None => None
  end.

Definition spec_step (s : list Z) : option (stok * list Z) :=
  match s with
  | [] => None
  | c :: r =>
    if is_blank c then
      let '(a, b) := span is_blank s in Some (mk SSpace a a, b)
    else if c =? 10 then Some (mk SNewline [10] [10], r)
    else if c =? 13 then
      match r with
      | 10 :: r' => Some (mk SNewline [13; 10] [13; 10], r')
      | _ => None                           (* a carriage return that is not part of CR LF: undefined *)
      end
    else if c =? 45 then
      match r with
      | 45 :: r2 =>
        match r2 with
        | 91 :: r3 =>
          match long_open r3 0 with
          | Some (lvl, r4) =>
            if lvl =? 0 then
              match long_body 0 r4 with
              | Some (b, cl, rest) => let raw := 45 :: 45 :: 91 :: 91 :: b ++ cl in Some (mk SComment raw raw, rest)
              | None => None
              end
            else None
          | None => line_comment s
          end
        | _ => line_comment s
        end
      | _ => spec_symbol s
      end
    else if c =? 47 then
      match r with
      | 47 :: _ => line_comment s
      | _ => spec_symbol s
      end
    else if c =? 91 then
      match long_open r 0 with
      | Some (lvl, r2) =>
        match long_body (Z.to_nat lvl) r2 with
        | Some (b, cl, rest) =>
          let eqs := repeat 61 (Z.to_nat lvl) in
          Some (mk_stok SString (91 :: eqs ++ 91 :: b ++ cl) (long_string_value b) 0 1 lvl 0 0, rest)
        | None => None
        end
      | None =>
        match r with
        | 61 :: _ => None                     (* invalid long string delimiter *)
        | _ => spec_symbol s
        end
      end
    else if (c =? 34) || (c =? 39) then
      match unescape_until c r with
      | Some (v, raw, rest) => Some (mk_stok SString (c :: raw) v 0 1 (-1) 0 0, rest)
      | None => None
      end
    else if is_digit c then spec_number s
    else if c =? 46 then
      match r with
      | d :: _ => if is_digit d then spec_number s else spec_symbol s
      | [] => spec_symbol s
      end
    else if is_name_start c then
      let '(a, b) := span is_name_char s in
      Some (mk (if mem_bytes a spec_keywords then SKeyword else SName) a a, b)
    else if c =? 58 then
      match r with
      | 58 :: r2 =>
        let '(a, b) := span is_name_char r2 in
        match a, strip_prefix [58; 58] b with
        | n0 :: _, Some rest =>
          if is_name_start n0 then Some (mk SLabel (58 :: 58 :: a ++ [58; 58]) a, rest) else None
        | _, _ => None
        end
      | _ => spec_symbol s
      end
    else if c =? 63 then Some (mk SName [63] [63], r)
    else spec_symbol s
  end.

(* ---------- the token list, with positions *)
Definition at_pos (t : stok) (line col : Z) : stok :=
  mk_stok (s_kind t) (s_raw t) (s_text t) (s_num t) (s_den t) (s_long t) line col.

Fixpoint spec_lex_fuel (fuel : nat) (line col : Z) (s : list Z) (acc : list stok) : option (list stok) :=
  match s with
  | [] => Some (rev' acc)
  | _ =>
    match fuel with
    | O => None
    | S f =>
      match spec_step s with
      | None => None
      | Some (t, rest) =>
        match s_raw t with
        | [] => None
        | _ =>
          let '(l', c') := spec_advance line col (s_raw t) in
          spec_lex_fuel f l' c' rest (at_pos t line col :: acc)
        end
      end
    end
  end.

(* line ends of the dialect are LF and CR LF: every carriage return is directly followed by a line feed *)
Fixpoint crlf_only (s : list Z) : bool :=
  match s with
  | [] => true
  | c :: r => (if c =? 13 then match r with 10 :: _ => true | _ => false end else true) && crlf_only r
  end.

Definition spec_lex (src : list Z) : option (list stok) :=
  if crlf_only src then spec_lex_fuel (length src) 0 0 src [] else None.

(* significant tokens and views (DESIGN section 8) *)
Definition is_trivia (t : stok) : bool :=
  match s_kind t with SSpace | SNewline | SComment => true | _ => false end.
Definition sig_toks (ts : list stok) : list stok := filter (fun t => negb (is_trivia t)) ts.

(* the rule `stats` uses to count tokens, as the PICO-8 manual states it: every significant token
   counts 1, except that  : . ) ] }  and the keywords local and end count 0 *)
Definition free_symbols : list (list Z) := [bs_ ":"; bs_ "."; bs_ ")"; bs_ "]"; bs_ "}"].
Definition free_keywords : list (list Z) := [bs_ "local"; bs_ "end"].
