(* Reference description of what `p8tool build --lua main.lua` must put into the cart when the
   program uses require() (property C14).  Written from the picotool README ("Packages and the
   require() function", "How require() actually works") and the property text - NOT from build.py:
   no syntax tree, no walker, no depth-first order.  Everything works on the significant tokens
   of the reference tokenizer (Spec/LuaLex.v) and on locations in the sense of Spec/PathSpec.v.

   * a call of require: the name `require` (not a field `x.require`, a method `x:require`, or the
     name of a `function require` definition) directly applied to arguments.  Its arguments are
     valid if they are one string literal, optionally followed by the table {use_game_loop=<bool>}
     (call forms  require("n")  require("n", {use_game_loop=true})  require "n").
   * the string names a file through the load path: the patterns separated by ';', '?' replaced
     by the string, relative patterns taken from the directory of the requiring file; the first
     pattern that names an existing file wins.
   * a package is remembered by its string.  Its code is embedded without its top-level
     function _init / _update / _update60 / _draw definitions, unless a require asked for
     {use_game_loop=true}.
   * the cart's code is: the package table, then for every package `package._c["name"]=function()`
     <its code> `end`, then the definition of require(), then the main program.

   [expect] returns Undefined whenever the description above does not determine the outcome (the
   reference tokenizer does not accept a file; a string names different files from different
   requiring files or is only sometimes found; requests for the same package disagree about
   the game loop and that changes which packages are needed; exotic package names; unbalanced
   blocks): no claim is made for such inputs. *)
From PV Require Import Base.Prelude Spec.LuaLex Spec.PathSpec.

(* ---------- token tests ---------- *)
Definition is_kind (k : skind) (t : stok) : bool := skind_code (s_kind t) =? skind_code k.
Definition kw_is (s : list Z) (t : stok) : bool := is_kind SKeyword t && zlist_eqb (s_text t) s.
Definition sym_is (s : list Z) (t : stok) : bool := is_kind SSymbol t && zlist_eqb (s_text t) s.
Definition name_is (s : list Z) (t : stok) : bool := is_kind SName t && zlist_eqb (s_text t) s.
Definition is_string (t : stok) : bool := is_kind SString t.

(* two tokens are the same token: same kind; numbers by value; everything else by text (strings:
   the denoted bytes) *)
Definition view_eqb (a b : stok) : bool :=
  (skind_code (s_kind a) =? skind_code (s_kind b)) &&
  match s_kind a with
  | SNumber => s_num a * s_den b =? s_num b * s_den a
  | _ => zlist_eqb (s_text a) (s_text b)
  end.

Fixpoint views_eqb (a b : list stok) : bool :=
  match a, b with
  | [], [] => true
  | x :: a', y :: b' => view_eqb x y && views_eqb a' b'
  | _, _ => false
  end.

(* [exp] is a prefix of [act] (as tokens): the rest of [act] *)
Fixpoint match_prefix (exp act : list stok) : option (list stok) :=
  match exp with
  | [] => Some act
  | x :: exp' =>
    match act with
    | y :: act' => if view_eqb x y then match_prefix exp' act' else None
    | [] => None
    end
  end.

Definition sig_of (src : list Z) : option (list stok) :=
  match spec_lex src with Some ts => Some (sig_toks ts) | None => None end.

(* ---------- blocks ---------- *)
(* how a token changes the number of open blocks that an `end` / `until` will close *)
Definition depth_delta (t : stok) : Z :=
  if kw_is (bs_ "function") t || kw_is (bs_ "do") t || kw_is (bs_ "then") t || kw_is (bs_ "repeat") t then 1
  else if kw_is (bs_ "end") t || kw_is (bs_ "until") t || kw_is (bs_ "elseif") t then -1
  else 0.

(* never negative, zero at the end *)
Fixpoint balanced_from (ts : list stok) (d : Z) : bool :=
  match ts with
  | [] => d =? 0
  | t :: r => let d' := d + depth_delta t in (0 <=? d') && balanced_from r d'
  end.
Definition balanced (ts : list stok) : bool := balanced_from ts 0.

Definition game_loop_names : list (list Z) := [bs_ "_init"; bs_ "_update"; bs_ "_update60"; bs_ "_draw"].

(* the tokens without the top-level definitions  function <game loop name> ( ... ) ... end .
   d: open blocks; skip > 0: inside a definition being removed, with that many open blocks;
   prev_local: the previous token was `local` *)
Fixpoint strip_from (ts : list stok) (d skip : Z) (prev_local : bool) : list stok :=
  match ts with
  | [] => []
  | t :: r =>
    if 0 <? skip then
      let s' := skip + depth_delta t in
      strip_from r d s' false
    else
      let starts :=
        (d =? 0) && negb prev_local && kw_is (bs_ "function") t &&
        match r with
        | n :: p :: _ => is_kind SName n && mem_bytes (s_text n) game_loop_names && sym_is (bs_ "(") p
        | _ => false
        end in
      if starts then strip_from r d 1 false
      else t :: strip_from r (d + depth_delta t) 0 (kw_is (bs_ "local") t)
  end.
Definition spec_strip (ts : list stok) : list stok := strip_from ts 0 0 false.

(* ---------- calls of require ---------- *)
Inductive occ : Set :=
| OValid (name : list Z) (gl : bool)
| OBad.

Definition bool_kw (t : stok) : option bool :=
  if kw_is (bs_ "true") t then Some true else if kw_is (bs_ "false") t then Some false else None.

(* the arguments after  require (  *)
Definition paren_args (r : list stok) : occ :=
  match r with
  | s :: c :: r1 =>
    if negb (is_string s) then OBad
    else if sym_is (bs_ ")") c then OValid (s_text s) false
    else if sym_is (bs_ ",") c then
      match r1 with
      | o :: k :: e :: v :: r2 =>
        if sym_is (bs_ "{") o && name_is (bs_ "use_game_loop") k && sym_is (bs_ "=") e then
          match bool_kw v with
          | Some b =>
            match r2 with
            | c1 :: c2 :: r3 =>
              if sym_is (bs_ "}") c1 && sym_is (bs_ ")") c2 then OValid (s_text s) b
              else if (sym_is (bs_ ",") c1 || sym_is (bs_ ";") c1) && sym_is (bs_ "}") c2 then
                match r3 with
                | c3 :: _ => if sym_is (bs_ ")") c3 then OValid (s_text s) b else OBad
                | [] => OBad
                end
              else OBad
            | _ => OBad
            end
          | None => OBad
          end
        else OBad
      | _ => OBad
      end
    else OBad
  | _ => OBad
  end.

(* all calls of require in a token list, in source order.  prev: 0 nothing special, 1 the previous
   token makes the name a field / method / definition name *)
Fixpoint requires_from (ts : list stok) (prev_blocks : bool) : list occ :=
  match ts with
  | [] => []
  | t :: r =>
    let here :=
      if name_is (bs_ "require") t && negb prev_blocks then
        match r with
        | a :: r' =>
          if is_string a then [OValid (s_text a) false]
          else if sym_is (bs_ "{") a then [OBad]
          else if sym_is (bs_ "(") a then [paren_args r']
          else []
        | [] => []
        end
      else [] in
    here ++ requires_from r (sym_is (bs_ ".") t || sym_is (bs_ ":") t || kw_is (bs_ "function") t)
  end.
Definition spec_requires (ts : list stok) : list occ := requires_from ts false.

(* ---------- package names ---------- *)
Fixpoint contains_sub (sub s : list Z) : bool :=
  starts_with sub s || match s with [] => false | _ :: r => contains_sub sub r end.

Fixpoint last_byte (s : list Z) : Z :=
  match s with [] => -1 | [c] => c | _ :: r => last_byte r end.

(* names the description covers: non-empty printable ASCII, no "./" (which includes "../"), not
   starting or ending with '/' *)
Definition plain_name (n : list Z) : bool :=
  nonempty n && forallb (fun c => (32 <=? c) && (c <? 127)) n &&
  negb (contains_sub [46; 47] n) && negb (starts_with [47] n) && negb (last_byte n =? 47).

(* ---------- the load path ---------- *)
Fixpoint split_at (sep : Z) (s : list Z) : list (list Z) :=
  match s with
  | [] => [[]]
  | c :: r =>
    if c =? sep then [] :: split_at sep r
    else match split_at sep r with
         | h :: t => (c :: h) :: t
         | [] => [[c]]
         end
  end.

Definition subst_name (name pat : list Z) : list Z :=
  flat_map (fun c => if c =? 63 then name else [c]) pat.

Definition loc_eqb (a b : list (list Z)) : bool :=
  (Nat.eqb (length a) (length b)) && prefix_b a b.

Record file : Set := mkFile { f_loc : list (list Z); f_toks : list stok }.

Fixpoint file_at (fs : list file) (loc : list (list Z)) : option file :=
  match fs with
  | [] => None
  | f :: r => if loc_eqb (f_loc f) loc then Some f else file_at r loc
  end.

(* the file [name] denotes when required from the file with pathname [from], and a pathname of it *)
Fixpoint resolve_in (cwd : list Z) (fs : list file) (from name : list Z) (pats : list (list Z))
  : option (file * list Z) :=
  match pats with
  | [] => None
  | p :: r =>
    let c := subst_name name p in
    let path := if absolute c then c else dir_part from ++ c in
    match file_at fs (locate cwd path) with
    | Some f => Some (f, path)
    | None => resolve_in cwd fs from name r
    end
  end.

(* ---------- which packages are needed ---------- *)
Record pkg : Set := mkPkg {
  p_name : list Z;
  p_file : file;
  p_path : list Z;        (* a pathname of the file (requests made from it are relative to it) *)
  p_gl : bool;            (* some request asks for the game loop *)
  p_nogl : bool           (* some request does not *)
}.

Inductive outcome : Set :=
| Undefined
| MustFail
| Packages (ps : list pkg).

(* the code of a package as embedded: with the game loop as soon as one request asks for it *)
Definition effective (p : pkg) : list stok :=
  if p_gl p then f_toks (p_file p) else spec_strip (f_toks (p_file p)).

Fixpoint find_pkg (ps : list pkg) (n : list Z) : option pkg :=
  match ps with
  | [] => None
  | p :: r => if zlist_eqb (p_name p) n then Some p else find_pkg r n
  end.

Fixpoint update_pkg (ps : list pkg) (n : list Z) (gl : bool) : list pkg :=
  match ps with
  | [] => []
  | p :: r =>
    if zlist_eqb (p_name p) n
    then mkPkg (p_name p) (p_file p) (p_path p) (p_gl p || gl) (p_nogl p || negb gl) :: r
    else p :: update_pkg r n gl
  end.

(* one pass over all requests: the packages found, the names no pattern finds, bad: some call has
   invalid arguments, undef: the description does not determine the outcome *)
Record st : Set := mkSt { s_pk : list pkg; s_missing : list (list Z); s_bad : bool; s_undef : bool }.

Section Reach.
Variable cwd : list Z.
Variable fs : list file.
Variable pats : list (list Z).
Variable main_path : list Z.
Variable main_toks : list stok.

Definition request (from : list Z) (s : st) (o : occ) : st :=
  match o with
  | OBad => mkSt (s_pk s) (s_missing s) true (s_undef s)
  | OValid n gl =>
    if negb (plain_name n) then mkSt (s_pk s) (s_missing s) (s_bad s) true
    else
      match resolve_in cwd fs from n pats with
      | Some (f, path) =>
        if mem_bytes n (s_missing s) then mkSt (s_pk s) (s_missing s) (s_bad s) true
        else match find_pkg (s_pk s) n with
             | Some p =>
               if loc_eqb (f_loc (p_file p)) (f_loc f)
               then mkSt (update_pkg (s_pk s) n gl) (s_missing s) (s_bad s) (s_undef s)
               else mkSt (s_pk s) (s_missing s) (s_bad s) true        (* two files under one name *)
             | None => mkSt (s_pk s ++ [mkPkg n f path gl (negb gl)]) (s_missing s) (s_bad s) (s_undef s)
             end
      | None =>
        match find_pkg (s_pk s) n with
        | Some _ => mkSt (s_pk s) (s_missing s) (s_bad s) true          (* found from elsewhere only *)
        | None => mkSt (s_pk s) (n :: s_missing s) (s_bad s) (s_undef s)
        end
      end
  end.

Definition requests_of (from : list Z) (ts : list stok) (s : st) : st :=
  fold_left (request from) (spec_requires ts) s.

(* all requests made by the main program and by the packages [ps] *)
Definition round (ps : list pkg) : st :=
  fold_left (fun s p => requests_of (p_path p) (effective p) s) ps
            (requests_of main_path main_toks (mkSt [] [] false false)).

Fixpoint iterate (n : nat) (ps : list pkg) : list pkg :=
  match n with O => ps | S k => iterate k (s_pk (round ps)) end.

Definition same_pkg (a b : pkg) : bool :=
  zlist_eqb (p_name a) (p_name b) && Bool.eqb (p_gl a) (p_gl b) && Bool.eqb (p_nogl a) (p_nogl b).

Fixpoint same_pkgs (a b : list pkg) : bool :=
  match a, b with
  | [], [] => true
  | x :: a', y :: b' => same_pkg x y && same_pkgs a' b'
  | _, _ => false
  end.

Fixpoint occs_eqb (a b : list occ) : bool :=
  match a, b with
  | [], [] => true
  | OBad :: a', OBad :: b' => occs_eqb a' b'
  | OValid n g :: a', OValid m h :: b' => zlist_eqb n m && Bool.eqb g h && occs_eqb a' b'
  | _, _ => false
  end.

(* a package asked for both with and without its game loop: determined only if that makes no
   difference to the requests it makes *)
Definition mixed_ok (p : pkg) : bool :=
  negb (p_gl p && p_nogl p) ||
  occs_eqb (spec_requires (f_toks (p_file p))) (spec_requires (spec_strip (f_toks (p_file p)))).

Definition expect : outcome :=
  let ps := iterate (3 * length fs + 4) [] in
  let s := round ps in
  if s_undef s || negb (same_pkgs ps (s_pk s)) then Undefined
  else if negb (balanced main_toks) ||
          negb (forallb (fun p => balanced (f_toks (p_file p)) && balanced (spec_strip (f_toks (p_file p)))
                                  && mixed_ok p) (s_pk s))
  then Undefined
  else if s_bad s || nonempty (s_missing s) then MustFail
  else Packages (s_pk s).
End Reach.

(* ---------- the cart's code ---------- *)
Definition spec_header_src : list Z := bs_ "package={loaded={},_c={}}" ++ [10].
Definition spec_loader_src : list Z :=
  bs_ "function require(p)" ++ 10 ::
  bs_ "local l=package.loaded" ++ 10 ::
  bs_ "if (l[p]==nil) l[p]=package._c[p]()" ++ 10 ::
  bs_ "if (l[p]==nil) l[p]=true" ++ 10 ::
  bs_ "return l[p]" ++ 10 ::
  bs_ "end" ++ [10].

(* the bodies a package may be embedded with *)
Definition bodies (p : pkg) : list (list stok) :=
  (if p_nogl p then [spec_strip (f_toks (p_file p))] else []) ++
  (if p_gl p then [f_toks (p_file p)] else []).

Fixpoint first_body (bs : list (list stok)) (rest : list stok) : option (list stok) :=
  match bs with
  | [] => None
  | b :: r =>
    match match_prefix b rest with
    | Some (e :: rest') => if kw_is (bs_ "end") e then Some rest' else first_body r rest
    | _ => first_body r rest
    end
  end.

(* package._c["name"]=function() <body> end, repeatedly: the names seen and the remaining tokens *)
Fixpoint blocks (fuel : nat) (ps : list pkg) (seen : list (list Z)) (act : list stok)
  : option (list (list Z) * list stok) :=
  match fuel with
  | O => None
  | S f =>
    match act with
    | t1 :: t2 :: t3 :: t4 :: t5 :: t6 :: t7 :: t8 :: t9 :: t10 :: rest =>
      if name_is (bs_ "package") t1 && sym_is (bs_ ".") t2 && name_is (bs_ "_c") t3 && sym_is (bs_ "[") t4
         && is_string t5 && sym_is (bs_ "]") t6 && sym_is (bs_ "=") t7 && kw_is (bs_ "function") t8
         && sym_is (bs_ "(") t9 && sym_is (bs_ ")") t10
      then
        let n := s_text t5 in
        if mem_bytes n seen then None                      (* a name defined twice *)
        else match find_pkg ps n with
             | None => None                                (* a name nobody needs *)
             | Some p =>
               match first_body (bodies p) rest with
               | Some rest' => blocks f ps (n :: seen) rest'
               | None => None                              (* not the package's code *)
               end
             end
      else Some (seen, act)
    | _ => Some (seen, act)
    end
  end.

(* 0: as described; 4: the package table; 5: a block; 6: a needed package is not defined;
   7: the definition of require(); 8: the main program *)
Definition check_output (main_toks : list stok) (ps : list pkg) (out : list stok) : Z :=
  match ps with
  | [] => if views_eqb out main_toks then 0 else 8
  | _ =>
    match sig_of spec_header_src, sig_of spec_loader_src with
    | Some hdr, Some ldr =>
      match match_prefix hdr out with
      | None => 4
      | Some r1 =>
        match blocks (S (length ps)) ps [] r1 with
        | None => 5
        | Some (seen, r2) =>
          if negb (Nat.eqb (length seen) (length ps)) then 6
          else match match_prefix ldr r2 with
               | None => 7
               | Some r3 => if views_eqb r3 main_toks then 0 else 8
               end
        end
      end
    | _, _ => 4
    end
  end.
