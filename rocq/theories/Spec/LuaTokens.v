(* Observation types of the Lua text stack: tokens as the lexer produces them and the
   generic view of the parser's syntax tree (class / fields / token positions).  These are
   interchange types only (no behaviour of picotool is described here); they are shared by
   the models (Model/) and the instance predicates (Instances/), which must not depend on
   Model/. *)
From PV Require Import Base.Prelude.

(* token classes of pico8/lua/lexer.py *)
Inductive kclass : Set :=
| CSpace | CNewline | CComment | CString | CNumber | CName | CLabel | CKeyword | CSymbol.

Definition kclass_eqb (a b : kclass) : bool :=
  match a, b with
  | CSpace, CSpace | CNewline, CNewline | CComment, CComment | CString, CString
  | CNumber, CNumber | CName, CName | CLabel, CLabel | CKeyword, CKeyword | CSymbol, CSymbol => true
  | _, _ => false
  end.

Lemma kclass_eqb_eq a b : kclass_eqb a b = true <-> a = b.
Proof. destruct a, b; cbn; split; intros H; try reflexivity; try discriminate. Qed.

(* tk: class; tq: for strings the quote byte (34 / 39) or 256 + level of a long bracket, else 0;
   tdata: Token._data; tcode: Token.code (for strings the re-escaped spelling) *)
Record token : Set := mkTok { tk : kclass; tq : Z; tdata : list Z; tcode : list Z }.

Definition is_trivia (t : token) : bool :=
  match tk t with CSpace | CNewline | CComment => true | _ => false end.

Definition is_newline (t : token) : bool :=
  match tk t with CNewline => true | _ => false end.

(* bytes.lower(): ASCII only *)
Definition lower_byte (b : Z) : Z := if (65 <=? b) && (b <=? 90) then b + 32 else b.
Definition lower (s : list Z) : list Z := map lower_byte s.

(* Token.__eq__ : same class; keywords compare case-insensitively; positions and quotes ignored *)
Definition tok_eqb (a b : token) : bool :=
  kclass_eqb (tk a) (tk b) &&
  match tk a with
  | CKeyword => zlist_eqb (lower (tdata a)) (lower (tdata b))
  | _ => zlist_eqb (tdata a) (tdata b)
  end.

Definition is_sym (d : list Z) (t : token) : bool := kclass_eqb (tk t) CSymbol && zlist_eqb (tdata t) d.
Definition is_kw (d : list Z) (t : token) : bool := kclass_eqb (tk t) CKeyword && zlist_eqb (lower (tdata t)) (lower d).

(* The syntax tree, generic view.
   Node tag s e short fields : an instance of the tag-th class of parser._ast_node_types with
                               start_pos s, end_pos e, the short_if attribute, and its fields in order
   Tok i t                   : a token object stored in a field (i = its index in the token list)
   Lst                       : a Python list / tuple
   PNone / PBool / PBytes    : None, True / False, a bytes value
   The last three constructors never occur in a tree read from the implementation; the model
   uses them to remember tokens that the Python objects do not store:
   Kw i                      : token i was accepted here (keyword, bracket, separator)
   Paren i j x               : x was written between the parentheses i and j (transparent)
   Hid x                     : x was parsed here and then dropped from the Python tree *)
Inductive tree : Set :=
| Node (tag : Z) (s e : Z) (short : bool) (fields : list tree)
| Tok (i : Z) (t : token)
| Lst (l : list tree)
| PNone
| PBool (b : bool)
| PBytes (b : list Z)
| Kw (i : Z)
| Paren (i j : Z) (x : tree)
| Hid (x : tree).

Section TreeInd.
  Variable P : tree -> Prop.
  Hypothesis HNode : forall tag s e sh fs, Forall P fs -> P (Node tag s e sh fs).
  Hypothesis HTok : forall i t, P (Tok i t).
  Hypothesis HLst : forall l, Forall P l -> P (Lst l).
  Hypothesis HNone : P PNone.
  Hypothesis HBool : forall b, P (PBool b).
  Hypothesis HBytes : forall b, P (PBytes b).
  Hypothesis HKw : forall i, P (Kw i).
  Hypothesis HParen : forall i j x, P x -> P (Paren i j x).
  Hypothesis HHid : forall x, P x -> P (Hid x).

  Fixpoint tree_ind' (t : tree) : P t :=
    match t with
    | Node tag s e sh fs =>
        HNode tag s e sh fs ((fix go (l : list tree) : Forall P l :=
           match l with [] => Forall_nil P | x :: r => Forall_cons x (tree_ind' x) (go r) end) fs)
    | Tok i t => HTok i t
    | Lst l =>
        HLst l ((fix go (l : list tree) : Forall P l :=
           match l with [] => Forall_nil P | x :: r => Forall_cons x (tree_ind' x) (go r) end) l)
    | PNone => HNone
    | PBool b => HBool b
    | PBytes b => HBytes b
    | Kw i => HKw i
    | Paren i j x => HParen i j x (tree_ind' x)
    | Hid x => HHid x (tree_ind' x)
    end.
End TreeInd.

(* hidden bookkeeping entries are invisible in the Python view *)
Definition is_hidden (t : tree) : bool :=
  match t with Kw _ | Hid _ => true | _ => false end.

(* look through parentheses *)
Fixpoint strip_paren (t : tree) : tree :=
  match t with Paren _ _ x => strip_paren x | _ => t end.

(* `x is None` *)
Definition is_none (t : tree) : bool :=
  match strip_paren t with PNone => true | _ => false end.

(* the Python-visible fields of a node / items of a list *)
Definition visible (l : list tree) : list tree := filter (fun x => negb (is_hidden x)) l.

(* class index of a Node (after looking through parentheses), -1 for anything else *)
Definition tag_of (t : tree) : Z :=
  match strip_paren t with Node tag _ _ _ _ => tag | _ => -1 end.

Definition end_of (t : tree) : option Z :=
  match strip_paren t with Node _ _ e _ _ => Some e | _ => None end.

Definition start_of (t : tree) : option Z :=
  match strip_paren t with Node _ s _ _ _ => Some s | _ => None end.

(* class indices (pinned against the regenerated parser._ast_node_types in Proofs/ParserPins.v) *)
Definition tChunk := 0.               Definition tStatAssignment := 1.
Definition tStatFunctionCall := 2.    Definition tStatDo := 3.
Definition tStatWhile := 4.           Definition tStatRepeat := 5.
Definition tStatIf := 6.              Definition tStatForStep := 7.
Definition tStatForIn := 8.           Definition tStatFunction := 9.
Definition tStatLocalFunction := 10.  Definition tStatLocalAssignment := 11.
Definition tStatGoto := 12.           Definition tStatLabel := 13.
Definition tStatBreak := 14.          Definition tStatReturn := 15.
Definition tFunctionName := 16.       Definition tFunctionArgs := 17.
Definition tVarList := 18.            Definition tVarName := 19.
Definition tVarIndex := 20.           Definition tVarAttribute := 21.
Definition tNameList := 22.           Definition tExpList := 23.
Definition tExpValue := 24.           Definition tVarargDots := 25.
Definition tExpBinOp := 26.           Definition tExpUnOp := 27.
Definition tFunctionCall := 28.       Definition tFunctionCallMethod := 29.
Definition tFunction := 30.           Definition tFunctionBody := 31.
Definition tTableConstructor := 32.   Definition tFieldExpKey := 33.
Definition tFieldNamedKey := 34.      Definition tFieldExp := 35.

Definition node_class_names : list (list Z) :=
  ["Chunk"%bs : list Z; "StatAssignment"%bs : list Z; "StatFunctionCall"%bs : list Z; "StatDo"%bs : list Z;
   "StatWhile"%bs : list Z; "StatRepeat"%bs : list Z; "StatIf"%bs : list Z; "StatForStep"%bs : list Z;
   "StatForIn"%bs : list Z; "StatFunction"%bs : list Z; "StatLocalFunction"%bs : list Z;
   "StatLocalAssignment"%bs : list Z; "StatGoto"%bs : list Z; "StatLabel"%bs : list Z; "StatBreak"%bs : list Z;
   "StatReturn"%bs : list Z; "FunctionName"%bs : list Z; "FunctionArgs"%bs : list Z; "VarList"%bs : list Z;
   "VarName"%bs : list Z; "VarIndex"%bs : list Z; "VarAttribute"%bs : list Z; "NameList"%bs : list Z;
   "ExpList"%bs : list Z; "ExpValue"%bs : list Z; "VarargDots"%bs : list Z; "ExpBinOp"%bs : list Z;
   "ExpUnOp"%bs : list Z; "FunctionCall"%bs : list Z; "FunctionCallMethod"%bs : list Z; "Function"%bs : list Z;
   "FunctionBody"%bs : list Z; "TableConstructor"%bs : list Z; "FieldExpKey"%bs : list Z;
   "FieldNamedKey"%bs : list Z; "FieldExp"%bs : list Z].

(* number of (Python) fields per class *)
Definition node_class_arity : list Z :=
  [1; 3; 1; 1; 2; 2; 1; 5; 3; 2; 2; 2; 1; 1; 0; 1; 2; 1; 1; 1; 2; 2; 1; 1; 1; 0; 3; 2; 2; 3; 1; 3; 1; 2; 2; 1].
