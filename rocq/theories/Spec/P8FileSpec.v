(* What "the same cart" means for a .p8 write/read round trip (property C03), independent of the
   code: regions byte for byte (music minus the one unrepresentable bit), label present-or-absent and
   equal, version equal, Lua code equal with a missing final newline supplied; and which Lua sources
   are outside the format (a line that itself reads as a __section__ header). *)
From PV Require Import Base.Prelude Spec.P8Format.

Fixpoint ends_nl (l : list Z) : bool :=
  match l with [] => false | [c] => c =? 10 | _ :: r => ends_nl r end.
Definition supply_nl (code : list Z) : list Z := if ends_nl code then code else code ++ [10].

(* lines of a text, each with its terminating newline (the last one possibly without) *)
Fixpoint text_lines_acc (cur : list Z) (s : list Z) : list (list Z) :=
  match s with
  | [] => match cur with [] => [] | _ => [rev' cur] end
  | c :: r => if c =? 10 then rev' (c :: cur) :: text_lines_acc [] r else text_lines_acc (c :: cur) r
  end.
Definition text_lines (s : list Z) : list (list Z) := text_lines_acc [] s.

Definition word_byte (c : Z) : bool :=
  ((48 <=? c) && (c <=? 57)) || ((65 <=? c) && (c <=? 90)) || ((97 <=? c) && (c <=? 122)) || (c =? 95).

(* a line of the form  __name__\n  with name one or more letters, digits, underscores *)
Fixpoint all_word_then_nl (l : list Z) : bool :=
  match l with
  | [] => false
  | c :: r => match r with [] => c =? 10 | _ => word_byte c && all_word_then_nl r end
  end.
Fixpoint ends_uu_nl (l : list Z) : bool :=
  match l with
  | [] => false
  | a :: r => match r with
              | [b; c] => (a =? 95) && (b =? 95) && (c =? 10)
              | _ => ends_uu_nl r
              end
  end.
Definition header_like (line : list Z) : bool :=
  match line with
  | 95 :: 95 :: t => all_word_then_nl t && ends_uu_nl t && (4 <=? zlen t)    (* at least one name byte *)
  | _ => false
  end.

Definition code_in_format (code : list Z) : bool :=
  forallb (fun l => negb (header_like l)) (text_lines (supply_nl code)).

Definition olist_eqb (a b : option (list Z)) : bool :=
  match a, b with
  | None, None => true
  | Some x, Some y => zlist_eqb x y
  | _, _ => false
  end.

Record p8cart := {
  pc_version : Z; pc_code : list Z; pc_gfx : list Z; pc_label : option (list Z);
  pc_gff : list Z; pc_map : list Z; pc_sfx : list Z; pc_music : list Z }.

Definition wf_p8cart (c : p8cart) : bool :=
  (0 <=? pc_version c) &&
  (zlen (pc_gfx c) =? 8192) && (zlen (pc_gff c) =? 256) && (zlen (pc_map c) =? 4096) &&
  (zlen (pc_sfx c) =? 4352) && (zlen (pc_music c) =? 256) &&
  all_bytes (pc_gfx c) && all_bytes (pc_gff c) && all_bytes (pc_map c) && all_bytes (pc_sfx c) &&
  all_bytes (pc_music c) && all_bytes (pc_code c) &&
  match pc_label c with Some l => (zlen l =? 8192) && all_bytes l | None => true end.

Definition same_cart_p8 (a b : p8cart) : bool :=
  (pc_version a =? pc_version b) && zlist_eqb (supply_nl (pc_code a)) (pc_code b) &&
  zlist_eqb (pc_gfx a) (pc_gfx b) && olist_eqb (pc_label a) (pc_label b) &&
  zlist_eqb (pc_gff a) (pc_gff b) && zlist_eqb (pc_map a) (pc_map b) && zlist_eqb (pc_sfx a) (pc_sfx b) &&
  zlist_eqb (music_norm (pc_music a)) (pc_music b).

(* ---- files with short sections (Spec/P8Format.v, "short sections") ----
   s: what the file spells out - every data region cut after the rows that are present (whole rows: 64 bytes for
   gfx / label, 128 for gff / map, 68 for sfx, 4 for music; at most the full count).  The cart the file denotes
   has every region at full size: the rows present, then the empty default. *)
Definition whole_rows (row full : Z) (d : list Z) : bool :=
  (zlen d mod row =? 0) && (zlen d <=? full) && all_bytes d.

Definition short_p8cart (s : p8cart) : bool :=
  (0 <=? pc_version s) &&
  whole_rows 64 8192 (pc_gfx s) && whole_rows 128 256 (pc_gff s) && whole_rows 128 4096 (pc_map s) &&
  whole_rows 68 4352 (pc_sfx s) && whole_rows 4 256 (pc_music s) && all_bytes (pc_code s) &&
  match pc_label s with Some l => whole_rows 64 8192 l | None => true end.

Definition denoted_p8cart (s : p8cart) : p8cart :=
  {| pc_version := pc_version s; pc_code := pc_code s;
     pc_gfx := spec_fill (repeat 0 (Z.to_nat 8192)) (pc_gfx s);
     pc_label := match pc_label s with Some l => Some (spec_fill (repeat 0 (Z.to_nat 8192)) l) | None => None end;
     pc_gff := spec_fill (repeat 0 256) (pc_gff s);
     pc_map := spec_fill (repeat 0 (Z.to_nat 4096)) (pc_map s);
     pc_sfx := spec_fill spec_default_sfx (pc_sfx s);
     pc_music := spec_fill spec_default_music (pc_music s) |}.
