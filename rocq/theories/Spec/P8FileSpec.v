(* What "the same cart" means for a .p8 write/read round trip (property C03), independent of the
   code: regions byte for byte (music minus the one unrepresentable bit), label present-or-absent and
   equal, version equal, Lua code equal with a missing final newline supplied; and which Lua sources
   are outside the format (a line that itself reads as a __section__ header). *)
From PV Require Import Base.Prelude Spec.P8Format.

Fixpoint ends_nl (l : list Z) : bool :=
  match l with [] => false | [c] => c =? 10 | _ :: r => ends_nl r end.
Definition supply_nl (code : list Z) : list Z := if ends_nl code then code else code ++ [10].

(* lines of a text, each with its terminating newline (the last one possibly without) *)
Fixpoint text_lines_acc (cur : list Z) (s : list Z) : list (list Z) :=
  match s with
  | [] => match cur with [] => [] | _ => [rev' cur] end
  | c :: r => if c =? 10 then rev' (c :: cur) :: text_lines_acc [] r else text_lines_acc (c :: cur) r
  end.
Definition text_lines (s : list Z) : list (list Z) := text_lines_acc [] s.

Definition word_byte (c : Z) : bool :=
  ((48 <=? c) && (c <=? 57)) || ((65 <=? c) && (c <=? 90)) || ((97 <=? c) && (c <=? 122)) || (c =? 95).

(* a line of the form  __name__\n  with name one or more letters, digits, underscores *)
Fixpoint all_word_then_nl (l : list Z) : bool :=
  match l with
  | [] => false
  | c :: r => match r with [] => c =? 10 | _ => word_byte c && all_word_then_nl r end
  end.
Fixpoint ends_uu_nl (l : list Z) : bool :=
  match l with
  | [] => false
  | a :: r => match r with
              | [b; c] => (a =? 95) && (b =? 95) && (c =? 10)
              | _ => ends_uu_nl r
              end
  end.
Definition header_like (line : list Z) : bool :=
  match line with
  | 95 :: 95 :: t => all_word_then_nl t && ends_uu_nl t && (4 <=? zlen t)    (* at least one name byte *)
  | _ => false
  end.

Definition code_in_format (code : list Z) : bool :=
  forallb (fun l => negb (header_like l)) (text_lines (supply_nl code)).

Definition olist_eqb (a b : option (list Z)) : bool :=
  match a, b with
  | None, None => true
  | Some x, Some y => zlist_eqb x y
  | _, _ => false
  end.

Record p8cart := {
  pc_version : Z; pc_code : list Z; pc_gfx : list Z; pc_label : option (list Z);
  pc_gff : list Z; pc_map : list Z; pc_sfx : list Z; pc_music : list Z }.

Definition wf_p8cart (c : p8cart) : bool :=
  (0 <=? pc_version c) &&
  (zlen (pc_gfx c) =? 8192) && (zlen (pc_gff c) =? 256) && (zlen (pc_map c) =? 4096) &&
  (zlen (pc_sfx c) =? 4352) && (zlen (pc_music c) =? 256) &&
  all_bytes (pc_gfx c) && all_bytes (pc_gff c) && all_bytes (pc_map c) && all_bytes (pc_sfx c) &&
  all_bytes (pc_music c) && all_bytes (pc_code c) &&
  match pc_label c with Some l => (zlen l =? 8192) && all_bytes l | None => true end.

Definition same_cart_p8 (a b : p8cart) : bool :=
  (pc_version a =? pc_version b) && zlist_eqb (supply_nl (pc_code a)) (pc_code b) &&
  zlist_eqb (pc_gfx a) (pc_gfx b) && olist_eqb (pc_label a) (pc_label b) &&
  zlist_eqb (pc_gff a) (pc_gff b) && zlist_eqb (pc_map a) (pc_map b) && zlist_eqb (pc_sfx a) (pc_sfx b) &&
  zlist_eqb (music_norm (pc_music a)) (pc_music b).
