(* C11 - a small semantics of the file operations a cart writer can perform, and the safety
   predicate on traces of such operations.  Written from the property statement (a failed write
   never damages the file already at the destination), not from file.py.  Base/ only.

   The file system is a finite map path -> contents (None = no such file) together with the open
   handles; the OS, permissions, links are not modelled: a path is its byte string.
   Traces are polymorphic in the data written: bytes in the semantics, a length in recorded runs
   (the safety predicate never looks at the data). *)
From PV Require Import Base.Prelude.

Definition path := bytes.
Definition handle := Z.

Inductive op (D : Type) : Type :=
| OpenTemp (h : handle)               (* tempfile.TemporaryFile(): an anonymous file, handle h *)
| OpenRead (p : path)                 (* open(p) for reading only *)
| OpenWrite (p : path) (h : handle)   (* open(p) in a writing mode: creates or truncates p, handle h *)
| Write (h : handle) (d : D)          (* a completed write of d to handle h *)
| ReadAll (h : handle)
| Seek (h : handle)
| Close (h : handle)
| Remove (p : path)                   (* os.remove / unlink / truncate *)
| Rename (p q : path)                 (* os.rename / replace / shutil.move / copyfile: q is overwritten *)
| EncoderDone                         (* the cart encoder returned normally: the cart has been produced *)
| Raise.                              (* an exception propagates out of the writer *)
Arguments OpenTemp {D}. Arguments OpenRead {D}. Arguments OpenWrite {D}. Arguments Write {D}.
Arguments ReadAll {D}. Arguments Seek {D}. Arguments Close {D}. Arguments Remove {D}.
Arguments Rename {D}. Arguments EncoderDone {D}. Arguments Raise {D}.

(* ---------- semantics (data = bytes) ---------- *)
Definition filesys := path -> option bytes.

Definition upd (fs : filesys) (p : path) (v : option bytes) : filesys :=
  fun q => if zlist_eqb q p then v else fs q.

Inductive hkind : Type := HTemp (content : bytes) | HFile (p : path).

Record state : Type := mkState { st_fs : filesys; st_handles : list (handle * hkind) }.

Fixpoint hlookup (hs : list (handle * hkind)) (h : handle) : option hkind :=
  match hs with
  | [] => None
  | (k, v) :: r => if k =? h then Some v else hlookup r h
  end.

Fixpoint hremove (hs : list (handle * hkind)) (h : handle) : list (handle * hkind) :=
  match hs with
  | [] => []
  | (k, v) :: r => if k =? h then hremove r h else (k, v) :: hremove r h
  end.

Definition content_of (o : option bytes) : bytes := match o with Some b => b | None => [] end.

Definition exec_op (st : state) (o : op bytes) : state :=
  match o with
  | OpenTemp h => mkState (st_fs st) ((h, HTemp []) :: hremove (st_handles st) h)
  | OpenRead _ => st
  | OpenWrite p h => mkState (upd (st_fs st) p (Some [])) ((h, HFile p) :: hremove (st_handles st) h)
  | Write h d =>
    match hlookup (st_handles st) h with
    | Some (HTemp c) => mkState (st_fs st) ((h, HTemp (c ++ d)) :: hremove (st_handles st) h)
    | Some (HFile p) => mkState (upd (st_fs st) p (Some (content_of (st_fs st p) ++ d))) (st_handles st)
    | None => st
    end
  | ReadAll _ => st
  | Seek _ => st
  | Close h => mkState (st_fs st) (hremove (st_handles st) h)
  | Remove p => mkState (upd (st_fs st) p None) (st_handles st)
  | Rename p q =>
    if zlist_eqb p q then st
    else mkState (upd (upd (st_fs st) q (st_fs st p)) p None) (st_handles st)
  | EncoderDone => st
  | Raise => st
  end.

Definition exec_from (st : state) (tr : list (op bytes)) : state := fold_left exec_op tr st.

(* run a trace from a file system with no open handles *)
Definition exec (fs : filesys) (tr : list (op bytes)) : filesys := st_fs (exec_from (mkState fs []) tr).

(* ---------- the safety predicate (any data type) ---------- *)
Section Safe.
Context {D : Type}.

(* does this operation, by itself, change what is stored under dest? *)
Definition touches (dest : path) (o : op D) : bool :=
  match o with
  | OpenWrite p _ => zlist_eqb p dest
  | Remove p => zlist_eqb p dest
  | Rename p q => zlist_eqb p dest || zlist_eqb q dest
  | _ => false
  end.

Definition is_done (o : op D) : bool := match o with EncoderDone => true | _ => false end.

(* no operation touches dest before the encoder has finished *)
Fixpoint safe (dest : path) (tr : list (op D)) : bool :=
  match tr with
  | [] => true
  | o :: r => if is_done o then true else negb (touches dest o) && safe dest r
  end.

Definition encoder_done (tr : list (op D)) : bool := existsb is_done tr.

End Safe.

(* ---------- a stronger predicate: nothing at all is modified while a cart is being encoded ---------- *)
(* The monitor follows the open handles (is a handle a file or an anonymous temporary?) and whether an
   encoder is running: from OpenTemp until the next EncoderDone it accepts no OpenWrite / Remove /
   Rename of ANY path and no Write to a file handle.  It covers traces with several cart writes in a
   row (p8tool luafmt a.p8 b.p8 ...). *)
Fixpoint qlookup (hs : list (handle * bool)) (h : handle) : option bool :=
  match hs with
  | [] => None
  | (k, v) :: r => if k =? h then Some v else qlookup r h
  end.

Fixpoint qremove (hs : list (handle * bool)) (h : handle) : list (handle * bool) :=
  match hs with
  | [] => []
  | (k, v) :: r => if k =? h then qremove r h else (k, v) :: qremove r h
  end.

Definition qstate : Type := (list (handle * bool) * bool)%type.   (* (handle, is-a-file) ... , encoding? *)

Definition qstep {D} (q : qstate) (o : op D) : option qstate :=
  let (hs, enc) := q in
  match o with
  | OpenTemp h => Some ((h, false) :: qremove hs h, true)
  | OpenWrite _ h => if enc then None else Some ((h, true) :: qremove hs h, enc)
  | Write h _ =>
    match qlookup hs h with
    | Some true => if enc then None else Some (hs, enc)
    | Some false => Some ((h, false) :: qremove hs h, enc)
    | None => Some (hs, enc)
    end
  | Close h => Some (qremove hs h, enc)
  | Remove _ => if enc then None else Some (hs, enc)
  | Rename _ _ => if enc then None else Some (hs, enc)
  | EncoderDone => Some (hs, false)
  | _ => Some (hs, enc)
  end.

Fixpoint qrun {D} (q : qstate) (tr : list (op D)) : option qstate :=
  match tr with
  | [] => Some q
  | o :: r => match qstep q o with Some q' => qrun q' r | None => None end
  end.

Definition quiet {D} (tr : list (op D)) : bool :=
  match qrun ([], false) tr with Some _ => true | None => false end.
