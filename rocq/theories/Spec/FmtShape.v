(* Reference reading of a PICO-8 Lua text for the shape clauses of C10.

   Written from the Lua 5.2 manual (section 3.1 lexical conventions, 3.3 blocks) and the PICO-8
   manual's additions (`//` comments, `!=`, short-if), NOT from picotool: no regular expressions,
   no matcher table, no parser.  It answers, for a text:
     - where the lines are and which of them begin with a code token, a comment, or inside a
       multi-line token (long string, block comment);
     - how many blocks and brackets are open at each token (a closing token counts as closed);
     - which line-edge white space is layout (outside tokens) and which is token content.

   [lex s = None]: the text is outside the fragment this reader defines (unterminated string or
   comment, a raw line break inside a quoted string, a lone carriage return, a comment opened with a
   long bracket of level >= 1).  No claim is made for such texts.

   Blocks: `do`, `then`, `repeat`, `else` open one after the keyword; `end`, `until`, `else`,
   `elseif` close one before the keyword; a `function` body opens after the `)` that closes its
   parameter list.  Brackets: `(` `{` `[` open, `)` `}` `]` close.  A PICO-8 short `if (c) stmt`
   has neither `then` nor `end` and opens nothing (its optional `else` closes and opens: net zero). *)
From PV Require Import Base.Prelude.

Definition cSP : Z := 32.
Definition cTAB : Z := 9.
Definition cNL : Z := 10.
Definition cCR : Z := 13.
Definition cDASH : Z := 45.
Definition cSLASH : Z := 47.
Definition cBSL : Z := 92.
Definition cLBR : Z := 91.
Definition cRBR : Z := 93.
Definition cEQ : Z := 61.
Definition cDOT : Z := 46.

Definition is_blank (c : Z) : bool := (c =? cSP) || (c =? cTAB).
Definition is_digit (c : Z) : bool := (48 <=? c) && (c <=? 57).
Definition is_alpha (c : Z) : bool := ((97 <=? c) && (c <=? 122)) || ((65 <=? c) && (c <=? 90)).
Definition is_name_start (c : Z) : bool := is_alpha c || (c =? 95) || ((128 <=? c) && (c <=? 255)).
Definition is_name_char (c : Z) : bool := is_name_start c || is_digit c.
Definition is_num_char (c : Z) : bool := is_name_char c || (c =? cDOT).

Inductive tkind : Set :=
| KBlank          (* maximal run of spaces and tabs *)
| KNl             (* "\n" or "\r\n" *)
| KLineComment    (* -- ... or // ... up to, not including, the line end *)
| KBlockComment   (* --[[ ... ]] *)
| KStr            (* quoted or long-bracket string, delimiters included *)
| KNum
| KName
| KKw
| KSym.           (* one byte *)

Definition tkind_code (k : tkind) : Z :=
  match k with
  | KBlank => 0 | KNl => 1 | KLineComment => 2 | KBlockComment => 3 | KStr => 4
  | KNum => 5 | KName => 6 | KKw => 7 | KSym => 8
  end.

Definition stok : Set := (tkind * list Z)%type.

Fixpoint span (p : Z -> bool) (s : list Z) : list Z * list Z :=
  match s with
  | c :: r => if p c then let '(a, b) := span p r in (c :: a, b) else ([], s)
  | [] => ([], [])
  end.

Definition keywords : list (list Z) :=
  [ "and"%bs : list Z; "break"%bs : list Z; "do"%bs : list Z; "else"%bs : list Z; "elseif"%bs : list Z;
    "end"%bs : list Z; "false"%bs : list Z; "for"%bs : list Z; "function"%bs : list Z; "goto"%bs : list Z;
    "if"%bs : list Z; "in"%bs : list Z; "local"%bs : list Z; "nil"%bs : list Z; "not"%bs : list Z;
    "or"%bs : list Z; "repeat"%bs : list Z; "return"%bs : list Z; "then"%bs : list Z; "true"%bs : list Z;
    "until"%bs : list Z; "while"%bs : list Z ].

Definition is_keyword (w : list Z) : bool := existsb (zlist_eqb w) keywords.

(* [ =* [  at the head of s: (level, opening bracket, rest) *)
Definition long_open (s : list Z) : option (nat * list Z * list Z) :=
  match s with
  | c :: r =>
    if c =? cLBR then
      let '(eqs, t) := span (fun x => x =? cEQ) r in
      match t with
      | d :: t' => if d =? cLBR then Some (length eqs, c :: eqs ++ [d], t') else None
      | [] => None
      end
    else None
  | [] => None
  end.

Definition long_closer (level : nat) : list Z := cRBR :: repeat cEQ level ++ [cRBR].

(* text up to and including the closing long bracket of the level, and the rest *)
Fixpoint find_long_close (closer : list Z) (s : list Z) : option (list Z * list Z) :=
  match s with
  | [] => None
  | c :: r =>
    if starts_with closer s then Some (closer, skipn (length closer) s)
    else match find_long_close closer r with
         | Some (a, b) => Some (c :: a, b)
         | None => None
         end
  end.

(* body of a quoted string after the opening quote, up to and including the closing quote.
   A backslash takes the next byte with it (also a line break: the string goes on). *)
Fixpoint scan_quoted (q : Z) (s : list Z) : option (list Z * list Z) :=
  match s with
  | [] => None
  | c :: r =>
    if c =? cBSL then
      match r with
      | d :: r' => match scan_quoted q r' with Some (a, b) => Some (c :: d :: a, b) | None => None end
      | [] => None
      end
    else if c =? q then Some ([c], r)
    else if (c =? cNL) || (c =? cCR) then None
    else match scan_quoted q r with Some (a, b) => Some (c :: a, b) | None => None end
  end.

Definition not_eol (c : Z) : bool := negb ((c =? cNL) || (c =? cCR)).

(* one token from the head of a non-empty text *)
Definition lex1 (s : list Z) : option (stok * list Z) :=
  match s with
  | [] => None
  | c :: r =>
    if is_blank c then let '(a, b) := span is_blank s in Some ((KBlank, a), b)
    else if c =? cNL then Some ((KNl, [c]), r)
    else if c =? cCR then
      match r with
      | d :: r' => if d =? cNL then Some ((KNl, [c; d]), r') else None
      | [] => None
      end
    else if (c =? cDASH) && starts_with [cDASH; cDASH] s then
      let body := skipn 2 s in
      match long_open body with
      | Some (O, op, t) =>
        match find_long_close (long_closer O) t with
        | Some (a, b) => Some ((KBlockComment, c :: c :: op ++ a), b)
        | None => None
        end
      | Some (S _, _, _) => None
      | None => let '(a, b) := span not_eol s in Some ((KLineComment, a), b)
      end
    else if (c =? cSLASH) && starts_with [cSLASH; cSLASH] s then
      let '(a, b) := span not_eol s in Some ((KLineComment, a), b)
    else if (c =? 34) || (c =? 39) then
      match scan_quoted c r with
      | Some (a, b) => Some ((KStr, c :: a), b)
      | None => None
      end
    else if c =? cLBR then
      match long_open s with
      | Some (level, op, t) =>
        match find_long_close (long_closer level) t with
        | Some (a, b) => Some ((KStr, op ++ a), b)
        | None => None
        end
      | None => Some ((KSym, [c]), r)
      end
    else if is_name_start c then
      let '(a, b) := span is_name_char s in
      Some ((if is_keyword a then KKw else KName, a), b)
    else if is_digit c || ((c =? cDOT) && match r with d :: _ => is_digit d | [] => false end) then
      let '(a, b) := span is_num_char s in Some ((KNum, a), b)
    else Some ((KSym, [c]), r)
  end.

Fixpoint lex_fuel (fuel : nat) (s : list Z) : option (list stok) :=
  match s with
  | [] => Some []
  | _ =>
    match fuel with
    | O => None
    | S f =>
      match lex1 s with
      | Some (t, r) => match lex_fuel f r with Some ts => Some (t :: ts) | None => None end
      | None => None
      end
    end
  end.

(* every token takes at least one byte, so length s steps suffice *)
Definition lex (s : list Z) : option (list stok) := lex_fuel (length s) s.

(* ---------- nesting depth ---------- *)
Definition kw_is (w : bstr) (t : stok) : bool :=
  match fst t with KKw => zlist_eqb (snd t) (unBS w) | _ => false end.
Arguments kw_is w%bs t.
Definition sym_is (c : Z) (t : stok) : bool :=
  match fst t with KSym => zlist_eqb (snd t) [c] | _ => false end.

(* does the token close a block or bracket (counted closed at the token itself)? *)
Definition is_closer (t : stok) : bool :=
  kw_is "end" t || kw_is "until" t || kw_is "else" t || kw_is "elseif" t ||
  sym_is 41 t || sym_is 125 t || sym_is cRBR t.

Definition is_opener_kw (t : stok) : bool :=
  kw_is "do" t || kw_is "then" t || kw_is "repeat" t || kw_is "else" t.

Definition is_open_bracket (t : stok) : bool := sym_is 40 t || sym_is 123 t || sym_is cLBR t.

(* function-header state: 0 none, 1 after `function` (before its parameter list), 2 inside the list *)
Record dstate : Set := mk_dstate { d_depth : Z; d_fun : Z }.

(* depth at the token (what the indentation clause speaks about) *)
Definition depth_at (st : dstate) (t : stok) : Z :=
  if is_closer t then d_depth st - 1 else d_depth st.

(* state after the token *)
Definition depth_after (st : dstate) (t : stok) : dstate :=
  let d := depth_at st t in
  if kw_is "function" t then mk_dstate d 1
  else if sym_is 40 t then mk_dstate (d + 1) (if d_fun st =? 1 then 2 else d_fun st)
  else if sym_is 41 t then
    if d_fun st =? 2 then mk_dstate (d + 1) 0       (* parameter list closed: the body opens *)
    else mk_dstate d (d_fun st)
  else if is_open_bracket t || is_opener_kw t then mk_dstate (d + 1) (d_fun st)
  else mk_dstate d (d_fun st).

Definition is_code (t : stok) : bool :=
  match fst t with KStr | KNum | KName | KKw | KSym => true | _ => false end.

Definition all_sp (l : list Z) : bool := forallb (fun c => c =? cSP) l.

(* ---------- clause 1: a line that begins with a code token is indented by width * depth spaces ----------
   bol: only layout blanks seen so far on this line (and the line did not start inside a token);
   lead: those blanks. *)
Fixpoint indent_ok (w : Z) (st : dstate) (bol : bool) (lead : list Z) (ts : list stok) : bool :=
  match ts with
  | [] => true
  | t :: r =>
    match fst t with
    | KBlank => indent_ok w st bol (if bol then snd t else lead) r
    | KNl => indent_ok w st true [] r
    | KLineComment | KBlockComment => indent_ok w st false [] r
    | _ =>
      let d := depth_at st t in
      (if bol then all_sp lead && (0 <=? d) && (zlen lead =? w * d) else true)
      && indent_ok w (depth_after st t) false [] r
    end
  end.

(* ---------- clause 2: no line ends in white space (line ends inside strings are content) ---------- *)
Fixpoint rstrip_blank (l : list Z) : list Z :=
  match l with
  | [] => []
  | c :: r => match rstrip_blank r with
              | [] => if is_blank c || (c =? cCR) then [] else [c]
              | r' => c :: r'
              end
  end.

Definition ends_blank (l : list Z) : bool := negb (zlist_eqb (rstrip_blank l) l).

(* a blank or CR directly before a line feed inside a (block comment) text *)
Fixpoint blank_before_nl (l : list Z) : bool :=
  match l with
  | c :: ((d :: _) as r) => ((is_blank c || (c =? cCR)) && (d =? cNL)) || blank_before_nl r
  | _ => false
  end.

Definition tok_trailing_ws (t : stok) (at_line_end : bool) : bool :=
  match fst t with
  | KBlank => at_line_end
  | KLineComment => ends_blank (snd t)
  | KBlockComment => blank_before_nl (snd t)
  | _ => false
  end.

Fixpoint no_trailing_ws (ts : list stok) : bool :=
  match ts with
  | [] => true
  | t :: r =>
    let at_end := match r with [] => true | n :: _ => match fst n with KNl => true | _ => false end end in
    negb (tok_trailing_ws t at_end) && no_trailing_ws r
  end.

(* ---------- clause 3: at most one blank line separates lines ----------
   seen: a non-blank line has been completed or begun; blank: the current line holds only blanks so far;
   run: number of blank lines directly before the current line. *)
Fixpoint three_nl (l : list Z) : bool :=
  match l with
  | a :: ((b :: c :: _) as r) => ((a =? cNL) && (b =? cNL) && (c =? cNL)) || three_nl r
  | _ => false
  end.

Fixpoint blank_ok (seen blank : bool) (run : nat) (ts : list stok) : bool :=
  match ts with
  | [] => true
  | t :: r =>
    match fst t with
    | KBlank => blank_ok seen blank run r
    | KNl =>
      if blank then
        (if seen then Nat.ltb run 1 else true) && blank_ok seen true (S run) r
      else blank_ok true true O r
    | KBlockComment => negb (three_nl (snd t)) && blank_ok true false O r
    | _ => blank_ok true false O r
    end
  end.

(* ---------- clause 4: no blank lines at the end ----------
   after the last token that is not layout there is nothing, or exactly one line end *)
Fixpoint only_layout (ts : list stok) : bool :=
  match ts with
  | [] => true
  | t :: r => match fst t with KBlank | KNl => only_layout r | _ => false end
  end.

Fixpoint end_ok (ts : list stok) : bool :=
  match ts with
  | [] => true
  | t :: r =>
    match fst t with
    | KBlank | KNl => end_ok r
    | _ => if only_layout r
           then match r with [] => true | [n] => match fst n with KNl => true | _ => false end | _ => false end
           else end_ok r
    end
  end.

(* bit mask of the violated clauses: 1 indentation, 2 trailing white space, 4 blank-line runs, 8 blank lines at the end *)
Definition shape_code (w : Z) (ts : list stok) : Z :=
  (if indent_ok w (mk_dstate 0 0) true [] ts then 0 else 1) +
  (if no_trailing_ws ts then 0 else 2) +
  (if blank_ok false true O ts then 0 else 4) +
  (if end_ok ts then 0 else 8).

(* ---------- the layout-independent content of a text: tokens modulo line-edge white space ----------
   blanks next to a line end (or at the very beginning / end) are dropped, a line comment loses its
   trailing blanks, every line end is written "\n".  Block comments and strings are kept verbatim:
   their interior lines are token content, not layout. *)
Fixpoint edge_norm (at_bol : bool) (ts : list stok) : list stok :=
  match ts with
  | [] => []
  | t :: r =>
    match fst t with
    | KBlank =>
      let at_eol := match r with [] => true | n :: _ => match fst n with KNl => true | _ => false end end in
      if at_bol || at_eol then edge_norm at_bol r else t :: edge_norm false r
    | KNl => (KNl, [cNL]) :: edge_norm true r
    | KLineComment => (KLineComment, rstrip_blank (snd t)) :: edge_norm false r
    | _ => t :: edge_norm false r
    end
  end.

Fixpoint stoks_eqb (a b : list stok) : bool :=
  match a, b with
  | [], [] => true
  | x :: a', y :: b' => (tkind_code (fst x) =? tkind_code (fst y)) && zlist_eqb (snd x) (snd y) && stoks_eqb a' b'
  | _, _ => false
  end.

(* same program and same line breaks, differing at most in line-edge white space *)
Definition same_modulo_line_edges (s1 s2 : list Z) : option bool :=
  match lex s1, lex s2 with
  | Some t1, Some t2 => Some (stoks_eqb (edge_norm true t1) (edge_norm true t2))
  | _, _ => None
  end.
