(* Reference meaning of `#include` in a cart's code, written from the description of the
   feature (PICO-8 manual: "#include NAME" source lines; NAME a .lua text file, or a .p8 /
   .p8.png cart whose code is taken, "NAME:n" for the n-th code tab of a cart; code tabs are
   separated in the code text by lines "-->8") and from the text of property C20 - not from
   picotool's p8.py.

   Everything is about TEXT LINES: a text is cut at every "\n"; the terminator is not part of a
   line; a final "\n" does not begin another line.  The reference result of loading a cart is
   the list of the lines of its code in which every include line is replaced by the lines of
   what it names; every other line stays as it is, in place; lines taken from an included cart
   are not examined again.

   Three-valued: SpOk lines | SpMissing (a named file does not exist: the load must fail) |
   SpUndefined (the description does not say: a line that starts like an include directive but
   is not of the form `#include NAME[:n]` with NAME of one of the three kinds, a tab selector
   on a .lua file, a NAME that is absolute or has a ".." component (where it may be found is
   property C12's subject), a cart whose code has a line that begins with "-->8" but is longer). *)
From PV Require Import Base.Prelude.

(* ---- texts and lines ---- *)
Fixpoint text_lines (s : bytes) : list bytes :=
  match s with
  | [] => []
  | c :: r =>
    if c =? 10 then [] :: text_lines r
    else match text_lines r with
         | h :: t => (c :: h) :: t
         | [] => [[c]]
         end
  end.

(* ---- the directive ---- *)
Definition is_ws (c : Z) : bool := (c =? 32) || ((9 <=? c) && (c <=? 13)).
Definition is_dig (c : Z) : bool := (48 <=? c) && (c <=? 57).

Fixpoint skip_ws (s : bytes) : bytes :=
  match s with
  | c :: r => if is_ws c then skip_ws r else s
  | [] => []
  end.

(* the maximal run of non-blank bytes at the head of s, and what follows it *)
Fixpoint take_word (s : bytes) : bytes * bytes :=
  match s with
  | c :: r => if is_ws c then ([], s) else let (w, rest) := take_word r in (c :: w, rest)
  | [] => ([], [])
  end.

Fixpoint drop_prefix (p s : bytes) : option bytes :=
  match p, s with
  | [], _ => Some s
  | x :: p', y :: s' => if x =? y then drop_prefix p' s' else None
  | _ :: _, [] => None
  end.

Definition directive : bytes := [35; 105; 110; 99; 108; 117; 100; 101].   (* #include *)
Definition sfx_lua : bytes := [46; 108; 117; 97].                          (* .lua *)
Definition sfx_p8 : bytes := [46; 112; 56].                                (* .p8 *)
Definition sfx_p8png : bytes := [46; 112; 56; 46; 112; 110; 103].          (* .p8.png *)
Definition tab_sep : bytes := [45; 45; 62; 56].                            (* -->8 *)

(* s = base ++ suf  ->  Some base *)
Definition chop_suffix (suf s : bytes) : option bytes :=
  match drop_prefix (rev suf) (rev s) with
  | Some r => Some (rev r)
  | None => None
  end.

Fixpoint leading_digits (s : bytes) : bytes :=
  match s with
  | c :: r => if is_dig c then c :: leading_digits r else []
  | [] => []
  end.

Definition decimal (ds : bytes) : Z := fold_left (fun acc d => acc * 10 + (d - 48)) ds 0.

(* "NAME:n" -> (NAME, Some n);  anything that does not end in ":" followed by digits -> (it, None) *)
Definition split_selector (w : bytes) : bytes * option Z :=
  let r := rev w in
  let ds := leading_digits r in
  match ds, skipn (length ds) r with
  | _ :: _, 58 :: rest => (rev rest, Some (decimal (rev ds)))
  | _, _ => (w, None)
  end.

(* kind of target by the end of NAME: 0 text file of Lua code, 1 .p8 cart, 2 .p8.png cart; the
   part in front of the extension must not be empty *)
Definition name_kind (name : bytes) : option Z :=
  match chop_suffix sfx_p8png name with
  | Some (_ :: _) => Some 2
  | Some [] => None
  | None =>
    match chop_suffix sfx_p8 name with
    | Some (_ :: _) => Some 1
    | Some [] => None
    | None =>
      match chop_suffix sfx_lua name with
      | Some (_ :: _) => Some 0
      | _ => None
      end
    end
  end.

Fixpoint path_components (s : bytes) : list bytes :=
  match s with
  | [] => [[]]
  | c :: r =>
    if c =? 47 then [] :: path_components r
    else match path_components r with
         | h :: t => (c :: h) :: t
         | [] => [[c]]
         end
  end.

(* NAME is looked for in the cart's directory or below it *)
Definition name_local (name : bytes) : bool :=
  match name with
  | 47 :: _ => false
  | _ => negb (existsb (fun c => zlist_eqb c [46; 46]) (path_components name))
  end.

Inductive line_class :=
| Plain
| Include (name : bytes) (kind : Z) (tab : option Z)
| Undefined.

Definition classify (l : bytes) : line_class :=
  match drop_prefix directive (skip_ws l) with
  | None => Plain
  | Some r =>
    match r with
    | [] => Plain
    | c :: _ =>
      if negb (is_ws c) then Plain
      else
        let (w, rest) := take_word (skip_ws r) in
        if negb (forallb is_ws rest) then Undefined
        else
          let (name, tab) := split_selector w in
          match name_kind name with
          | None => Undefined
          | Some k =>
            if negb (name_local name) then Undefined
            else match k, tab with
                 | 0, Some _ => Undefined
                 | _, _ => Include name k tab
                 end
          end
    end
  end.

(* ---- code tabs ---- *)
Fixpoint split_tabs (ls : list bytes) : list (list bytes) :=
  match ls with
  | [] => [[]]
  | l :: r =>
    if zlist_eqb l tab_sep then [] :: split_tabs r
    else match split_tabs r with
         | h :: t => (l :: h) :: t
         | [] => [[l]]
         end
  end.

Definition tabs_defined (ls : list bytes) : bool :=
  forallb (fun l => negb (starts_with tab_sep l) || zlist_eqb l tab_sep) ls.

(* ---- the reference splice ---- *)
Inductive splice_result :=
| SpOk (ls : list bytes)
| SpMissing
| SpUndefined.

Definition sp_seq (a b : splice_result) : splice_result :=
  match a, b with
  | SpUndefined, _ => SpUndefined
  | _, SpUndefined => SpUndefined
  | SpMissing, _ => SpMissing
  | _, SpMissing => SpMissing
  | SpOk x, SpOk y => SpOk (x ++ y)
  end.

Section Ref.
(* NAME, kind -> the bytes of the text file / the code text of the cart; None: no such file *)
Variable content : bytes -> Z -> option bytes.

Definition target_lines (name : bytes) (kind : Z) (tab : option Z) : splice_result :=
  match content name kind with
  | None => SpMissing
  | Some txt =>
    let ls := text_lines txt in
    match tab with
    | None => SpOk ls
    | Some n => if tabs_defined ls then SpOk (nth (Z.to_nat n) (split_tabs ls) []) else SpUndefined
    end
  end.

Definition expand (l : bytes) : splice_result :=
  match classify l with
  | Plain => SpOk [l]
  | Undefined => SpUndefined
  | Include name k tab => target_lines name k tab
  end.

Fixpoint ref_splice (host : list bytes) : splice_result :=
  match host with
  | [] => SpOk []
  | l :: r => sp_seq (expand l) (ref_splice r)
  end.
End Ref.
