(* Reference nesting depth over a list of lexer tokens: the rules of Spec/FmtShape.v (depth_at / depth_after, written
   from the Lua manual and the PICO-8 manual, not from picotool's writer), restated for the token type of
   Spec/LuaTokens.v so that they can be applied to the token list a program was parsed from.

   Blocks: `do`, `then`, `repeat`, `else` open one after the keyword; `end`, `until`, `else`, `elseif` close one
   before the keyword; a `function` body opens after the `)` that closes its parameter list.  Brackets: `(` `{` `[`
   open, `)` `}` `]` close.  A closing token counts as already closed at the token itself.

   tok_depth_at st t / tok_depth_after st t are depth_at / depth_after of Spec/FmtShape.v with
   kw_is w (KKw, w) replaced by "keyword token with data w" and sym_is c (KSym, [c]) by "symbol token with data [c]"
   (tok_depth_at_agrees / tok_depth_after_agrees below: they coincide on the image of such tokens).
   depth_before ts i : the state after the significant tokens with index < i;
   token_depth ts i  : the depth at token i - the number the indentation clause of C10 speaks about. *)
From PV Require Import Base.Prelude Spec.LuaTokens Spec.FmtShape.

Definition t_kw (w : list Z) (t : token) : bool := kclass_eqb (tk t) CKeyword && zlist_eqb (tdata t) w.
Definition t_sym (c : Z) (t : token) : bool := kclass_eqb (tk t) CSymbol && zlist_eqb (tdata t) [c].

Definition t_is_closer (t : token) : bool :=
  t_kw "end"%bs t || t_kw "until"%bs t || t_kw "else"%bs t || t_kw "elseif"%bs t ||
  t_sym 41 t || t_sym 125 t || t_sym cRBR t.

Definition t_is_opener_kw (t : token) : bool :=
  t_kw "do"%bs t || t_kw "then"%bs t || t_kw "repeat"%bs t || t_kw "else"%bs t.

Definition t_is_open_bracket (t : token) : bool := t_sym 40 t || t_sym 123 t || t_sym cLBR t.

Definition tok_depth_at (st : dstate) (t : token) : Z :=
  if t_is_closer t then d_depth st - 1 else d_depth st.

Definition tok_depth_after (st : dstate) (t : token) : dstate :=
  let d := tok_depth_at st t in
  if t_kw "function"%bs t then mk_dstate d 1
  else if t_sym 40 t then mk_dstate (d + 1) (if d_fun st =? 1 then 2 else d_fun st)
  else if t_sym 41 t then
    if d_fun st =? 2 then mk_dstate (d + 1) 0
    else mk_dstate d (d_fun st)
  else if t_is_open_bracket t || t_is_opener_kw t then mk_dstate (d + 1) (d_fun st)
  else mk_dstate d (d_fun st).

(* the reference token of Spec/FmtShape.v that a keyword / one-byte symbol token corresponds to *)
Definition stok_of (t : token) : stok :=
  match tk t with
  | CKeyword => (KKw, tdata t)
  | CSymbol => (KSym, tdata t)
  | CName => (KName, tdata t)
  | CNumber => (KNum, tdata t)
  | _ => (KStr, tdata t)
  end.

Lemma t_kw_agrees w t : kw_is (BS w) (stok_of t) = t_kw w t.
Proof. unfold kw_is, t_kw, stok_of. destruct (tk t); reflexivity. Qed.

Lemma t_sym_agrees c t : sym_is c (stok_of t) = t_sym c t.
Proof. unfold sym_is, t_sym, stok_of. destruct (tk t); reflexivity. Qed.

Ltac kw_literals :=
  change "end"%bs with (BS (unBS "end"%bs)); change "until"%bs with (BS (unBS "until"%bs)); change "else"%bs with (BS (unBS "else"%bs));
  change "elseif"%bs with (BS (unBS "elseif"%bs)); change "do"%bs with (BS (unBS "do"%bs)); change "then"%bs with (BS (unBS "then"%bs));
  change "repeat"%bs with (BS (unBS "repeat"%bs)); change "function"%bs with (BS (unBS "function"%bs)).

Lemma tok_depth_at_agrees st t : depth_at st (stok_of t) = tok_depth_at st t.
Proof.
  unfold depth_at, tok_depth_at, is_closer, t_is_closer. kw_literals. rewrite !t_kw_agrees, !t_sym_agrees. reflexivity.
Qed.

Lemma tok_depth_after_agrees st t : depth_after st (stok_of t) = tok_depth_after st t.
Proof.
  unfold depth_after, tok_depth_after, is_open_bracket, t_is_open_bracket, is_opener_kw, t_is_opener_kw.
  rewrite tok_depth_at_agrees. kw_literals. rewrite !t_kw_agrees, !t_sym_agrees. reflexivity.
Qed.

(* ---------- along a token list ---------- *)
Fixpoint depth_fold (st : dstate) (l : list token) (n : nat) : dstate :=
  match n, l with
  | S n', t :: r => depth_fold (if is_trivia t then st else tok_depth_after st t) r n'
  | _, _ => st
  end.

(* the state after the significant tokens among the first i tokens *)
Definition depth_before (ts : list token) (i : Z) : dstate := depth_fold (mk_dstate 0 0) ts (Z.to_nat i).

Definition token_depth (ts : list token) (i : Z) : Z :=
  match nth_error ts (Z.to_nat i) with
  | Some t => tok_depth_at (depth_before ts i) t
  | None => 0
  end.
