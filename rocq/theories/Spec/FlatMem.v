(* The PICO-8 cart memory map, written from the format description (PICO-8 manual,
   "Memory": 0x0 gfx, 0x1000 gfx2/map2 (shared), 0x2000 map, 0x3000 gfx flags,
   0x3100 song, 0x3200 sfx, 0x4300 user data / code in a cart image), independent of
   picotool's code. A write of [data] at [addr] on the flat memory is the obvious one. *)
From PV Require Import Base.Prelude.

Definition region_sizes : list Z := [8192; 4096; 256; 256; 4352].   (* gfx map gff music sfx *)
Definition data_end : Z := 17152.                                  (* 0x4300 *)

Definition wf_regions (st : list (list Z)) : Prop :=
  map zlen st = region_sizes.

Definition wf_regionsb (st : list (list Z)) : bool :=
  zlist_eqb (map zlen st) region_sizes.

Definition flat (st : list (list Z)) : list Z := concat st.

Definition flat_write (mem : list Z) (addr : Z) (data : list Z) : list Z :=
  firstn (Z.to_nat addr) mem ++ data ++ skipn (Z.to_nat (addr + zlen data)) mem.

Fixpoint flat_write_many (mem : list Z) (ws : list (Z * list Z)) : list Z :=
  match ws with
  | [] => mem
  | (a, d) :: r => flat_write_many (flat_write mem a d) r
  end.

(* last writer wins: the value of byte [i] after a history of writes, given its value before *)
Fixpoint byte_after (ws : list (Z * list Z)) (old : option Z) (i : nat) : option Z :=
  match ws with
  | [] => old
  | (a, d) :: r =>
      byte_after r (if ((Z.to_nat a <=? i) && (i <? Z.to_nat a + length d))%nat
                    then nth_error d (i - Z.to_nat a) else old) i
  end.
