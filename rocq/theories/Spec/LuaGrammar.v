(* Reference grammar of the PICO-8 Lua dialect, written from the Lua 5.2 reference manual (section 9,
   "The Complete Syntax of Lua") plus the PICO-8 extensions (compound assignment, `!=`, the integer
   operators, the peek operators `@ % $`, the one-line `if (cond) ...` form, `?` print), NOT from
   picotool's parser.

   A program is described by its *derivation tree* over the significant tokens (every token that is not
   white space, a newline or a comment) of its token list.  The derivation tree uses the generic [tree]
   type of Spec/LuaTokens.v in its rich form: every token of the program occurs exactly once as a leaf,
   in source order -

     Tok i t      a token the syntax tree keeps (names, numbers, strings, operators)
     Kw i         a keyword, bracket or separator
     Paren i j x  a parenthesised expression
     Hid x        a token that the tree exposes only through a derived value (goto / label names)
     Node tag _ _ short fields   a production; the positions are not used on this side

   and an expression with operators is a flat chain [Node tChain _ _ _ [items]] of operator tokens and
   operands in source order (the property asks for "each expression's operators and operands in source
   order", not for a particular nesting).

   [derives ts g]      g is a derivation of the dialect grammar whose leaves are exactly the significant
                       tokens of ts, in order  (so g really is "the tree the program denotes"); it is a
                       well-formed derivation tree: only a one-line `if` carries the short flag, and a token
                       leaf stores (the data of) the token at its index
   [line_scoped ts g]  the layout respects the line scope of every one-line `if`
   [denotes g t]       the syntax tree t exposed by the library (generic view, Python-visible fields only)
                       is the tree denoted by g: same statement kinds, nesting, chains, lists, targets;
                       expressions compared as operator/operand sequences
   [consumed ts e]     nothing but white space and comments from token index e on *)
From PV Require Import Base.Prelude Spec.LuaTokens.

Definition tChain : Z := 100.

(* ---------- significant tokens with their indices ---------- *)
Definition stream : Set := list (Z * token).

Fixpoint sig_stream (l : list token) (i : Z) : stream :=
  match l with
  | [] => []
  | t :: r => if is_trivia t then sig_stream r (i + 1) else (i, t) :: sig_stream r (i + 1)
  end.

Fixpoint all_trivia (l : list token) : bool :=
  match l with [] => true | t :: r => is_trivia t && all_trivia r end.

Definition consumed (ts : list token) (e : Z) : bool :=
  (0 <=? e) && (e <=? zlen ts) && all_trivia (skipn (Z.to_nat e) ts).

(* ---------- terminals ---------- *)
Definition binop_syms : list (list Z) :=
  ["+"%bs : list Z; "-"%bs : list Z; "*"%bs : list Z; "/"%bs : list Z; "%"%bs : list Z; "^"%bs : list Z;
   ".."%bs : list Z; "<"%bs : list Z; ">"%bs : list Z; "<="%bs : list Z; ">="%bs : list Z; "=="%bs : list Z;
   "~="%bs : list Z; "!="%bs : list Z; "&"%bs : list Z; "|"%bs : list Z; "^^"%bs : list Z; "<<"%bs : list Z;
   ">>"%bs : list Z; ">>>"%bs : list Z; "<<>"%bs : list Z; ">><"%bs : list Z; "\"%bs : list Z].
Definition unop_syms : list (list Z) :=
  ["-"%bs : list Z; "#"%bs : list Z; "~"%bs : list Z; "@"%bs : list Z; "%"%bs : list Z; "$"%bs : list Z].
Definition assign_syms : list (list Z) :=
  ["="%bs : list Z; "+="%bs : list Z; "-="%bs : list Z; "*="%bs : list Z; "/="%bs : list Z; "%="%bs : list Z;
   "..="%bs : list Z].

Definition is_binop (t : token) : bool :=
  existsb (fun d => is_sym d t) binop_syms || is_kw "and"%bs t || is_kw "or"%bs t.
Definition is_unop (t : token) : bool :=
  existsb (fun d => is_sym d t) unop_syms || is_kw "not"%bs t.
Definition is_assignop (t : token) : bool := existsb (fun d => is_sym d t) assign_syms.
Definition is_class (k : kclass) (t : token) : bool := kclass_eqb (tk t) k.

(* consume the token with index i, which must satisfy p *)
Definition eat (p : token -> bool) (i : Z) (s : stream) : option stream :=
  match s with
  | (j, t) :: r => if (i =? j) && p t then Some r else None
  | [] => None
  end.

Definition obind {A B} (o : option A) (f : A -> option B) : option B :=
  match o with Some a => f a | None => None end.
Notation "s' <~ o ;; k" := (obind o (fun s' => k)) (at level 61, o at next level, right associativity).

Definition kw (d : list Z) (g : tree) (s : stream) : option stream :=
  match g with Kw i => eat (is_kw d) i s | _ => None end.
Definition sym (d : list Z) (g : tree) (s : stream) : option stream :=
  match g with Kw i => eat (is_sym d) i s | _ => None end.
Definition tokc (k : kclass) (g : tree) (s : stream) : option stream :=
  match g with Tok i _ => eat (is_class k) i s | _ => None end.
Definition tokp (p : token -> bool) (g : tree) (s : stream) : option stream :=
  match g with Tok i _ => eat p i s | _ => None end.

Definition is_tag (g : tree) (tag : Z) : bool :=
  match g with Node t _ _ _ _ => t =? tag | _ => false end.

(* ---------- the grammar (one function per nonterminal; n bounds the depth of the derivation) ---------- *)
Section Grammar.
(* separated lists:  item {sep item}  *)
Variable item : tree -> stream -> option stream.
Variable sep : tree -> stream -> option stream.
Fixpoint sep_tail (l : list tree) (s : stream) : option stream :=
  match l with
  | [] => Some s
  | c :: x :: r => s <~ sep c s ;; s <~ item x s ;; sep_tail r s
  | _ => None
  end.
Definition sep_list (l : list tree) (s : stream) : option stream :=
  match l with
  | x :: r => s <~ item x s ;; sep_tail r s
  | [] => None
  end.
End Grammar.

Definition namelist (g : tree) (s : stream) : option stream :=
  match g with
  | Node tag _ _ _ [Lst l] => if tag =? tNameList then sep_list (tokc CName) (sym ","%bs) l s else None
  | _ => None
  end.

Definition label_name (d : list Z) : list Z :=        (* ::name:: -> name *)
  let n := length d in firstn (n - 4) (skipn 2 d).

Fixpoint g_semis (l : list tree) (s : stream) {struct l} : option stream :=
  match l with
  | [] => Some s
  | k :: r => s <~ sym ";"%bs k s ;; g_semis r s
  end.

Fixpoint g_exp (n : nat) (g : tree) (s : stream) {struct n} : option stream :=
  match n with O => None | S n =>
  match g with
  | Node tag _ _ _ items =>
      if tag =? tChain then g_chain n true false items s else g_operand n g s
  | _ => None
  end end

(* (unop)* operand (binop (unop)* operand)* ;  want: an operand (or unary operator) is expected next;
   seen: at least one operator occurred (a chain with no operator is not a chain) *)
with g_chain (n : nat) (want seen : bool) (items : list tree) (s : stream) {struct n} : option stream :=
  match n with O => None | S n =>
  match items with
  | [] => if want || negb seen then None else Some s
  | x :: r =>
      if want then
        match x with
        | Tok _ _ => match tokp is_unop x s with
                     | Some s => g_chain n true true r s
                     | None => None
                     end
        | _ => s <~ g_operand n x s ;; g_chain n false seen r s
        end
      else s <~ tokp is_binop x s ;; g_chain n true true r s
  end end

with g_operand (n : nat) (g : tree) (s : stream) {struct n} : option stream :=
  match n with O => None | S n =>
  match g with
  | Node tag _ _ _ fs =>
      if tag =? tVarargDots then match fs with [d] => sym "..."%bs d s | _ => None end
      else if tag =? tExpValue then
        match fs with
        | [k; PNone] => kw "nil"%bs k s
        | [k; PBool true] => kw "true"%bs k s
        | [k; PBool false] => kw "false"%bs k s
        | [Tok i t] => match tokc CNumber (Tok i t) s with Some s => Some s | None => tokc CString (Tok i t) s end
        | [Node t2 a b c fs2] =>
            if t2 =? tFunction then
              match fs2 with [f; body] => s <~ kw "function"%bs f s ;; g_funcbody n body s | _ => None end
            else if t2 =? tTableConstructor then g_table n (Node t2 a b c fs2) s
            else g_prefix n (Node t2 a b c fs2) s
        | [Paren i j x] => g_prefix n (Paren i j x) s
        | _ => None
        end
      else None
  | _ => None
  end end

(* prefixexp ::= Name | '(' exp ')' | prefixexp '[' exp ']' | prefixexp '.' Name | prefixexp args | prefixexp ':' Name args *)
with g_prefix (n : nat) (g : tree) (s : stream) {struct n} : option stream :=
  match n with O => None | S n =>
  match g with
  | Paren i j x => s <~ eat (is_sym "("%bs) i s ;; s <~ g_exp n x s ;; eat (is_sym ")"%bs) j s
  | Node tag _ _ _ fs =>
      if tag =? tVarName then match fs with [nm] => tokc CName nm s | _ => None end
      else if tag =? tVarIndex then
        match fs with
        | [p; o; e; c] => s <~ g_prefix n p s ;; s <~ sym "["%bs o s ;; s <~ g_exp n e s ;; sym "]"%bs c s
        | _ => None end
      else if tag =? tVarAttribute then
        match fs with
        | [p; d; nm] => s <~ g_prefix n p s ;; s <~ sym "."%bs d s ;; tokc CName nm s
        | _ => None end
      else if tag =? tFunctionCall then
        match fs with
        | [p; a] => s <~ g_prefix n p s ;; g_args n a s
        | _ => None end
      else if tag =? tFunctionCallMethod then
        match fs with
        | [p; c; nm; a] => s <~ g_prefix n p s ;; s <~ sym ":"%bs c s ;; s <~ tokc CName nm s ;; g_args n a s
        | _ => None end
      else None
  | _ => None
  end end

(* args ::= '(' [explist] ')' | tableconstructor | String *)
with g_args (n : nat) (g : tree) (s : stream) {struct n} : option stream :=
  match n with O => None | S n =>
  match g with
  | Tok i t => tokc CString (Tok i t) s
  | Node tag _ _ _ fs =>
      if tag =? tFunctionArgs then
        match fs with
        | [o; PNone; c] => s <~ sym "("%bs o s ;; sym ")"%bs c s
        | [o; el; c] => s <~ sym "("%bs o s ;; s <~ g_explist n el s ;; sym ")"%bs c s
        | _ => None end
      else if tag =? tTableConstructor then g_table n g s
      else None
  | _ => None
  end end

with g_explist (n : nat) (g : tree) (s : stream) {struct n} : option stream :=
  match n with O => None | S n =>
  match g with
  | Node tag _ _ _ [Lst l] => if tag =? tExpList then sep_list (g_exp n) (sym ","%bs) l s else None
  | _ => None
  end end

(* tableconstructor ::= '{' [field {sep field} [sep]] '}' ;  sep ::= ',' | ';' *)
with g_table (n : nat) (g : tree) (s : stream) {struct n} : option stream :=
  match n with O => None | S n =>
  match g with
  | Node tag _ _ _ [o; Lst l; c] =>
      if tag =? tTableConstructor then
        s <~ sym "{"%bs o s ;; s <~ g_fields n l s ;; sym "}"%bs c s
      else None
  | _ => None
  end end

with g_fields (n : nat) (l : list tree) (s : stream) {struct n} : option stream :=
  match n with O => None | S n =>
  match l with
  | [] => Some s
  | f :: r =>
      s <~ g_field n f s ;;
      match r with
      | [] => Some s
      | c :: r' =>
          s <~ (match sym ","%bs c s with Some s => Some s | None => sym ";"%bs c s end) ;;
          g_fields n r' s
      end
  end end

(* field ::= '[' exp ']' '=' exp | Name '=' exp | exp *)
with g_field (n : nat) (g : tree) (s : stream) {struct n} : option stream :=
  match n with O => None | S n =>
  match g with
  | Node tag _ _ _ fs =>
      if tag =? tFieldExpKey then
        match fs with
        | [o; k; c; q; e] =>
            s <~ sym "["%bs o s ;; s <~ g_exp n k s ;; s <~ sym "]"%bs c s ;; s <~ sym "="%bs q s ;; g_exp n e s
        | _ => None end
      else if tag =? tFieldNamedKey then
        match fs with
        | [nm; q; e] => s <~ tokc CName nm s ;; s <~ sym "="%bs q s ;; g_exp n e s
        | _ => None end
      else if tag =? tFieldExp then
        match fs with [e] => g_exp n e s | _ => None end
      else None
  | _ => None
  end end

(* funcbody ::= '(' [parlist] ')' block end ;  parlist ::= namelist [',' '...'] | '...' *)
with g_funcbody (n : nat) (g : tree) (s : stream) {struct n} : option stream :=
  match n with O => None | S n =>
  match g with
  | Node tag _ _ _ (o :: r) =>
      if tag =? tFunctionBody then
        s <~ sym "("%bs o s ;;
        let dots d s := match d with
                        | Node t2 _ _ _ [k] => if t2 =? tVarargDots then sym "..."%bs k s else None
                        | _ => None end in
        let tail c b e s := s <~ sym ")"%bs c s ;; s <~ g_chunk n b s ;; kw "end"%bs e s in
        match r with
        | [PNone; PNone; c; b; e] => tail c b e s
        | [PNone; d; c; b; e] => s <~ dots d s ;; tail c b e s
        | [nl; PNone; c; b; e] => s <~ namelist nl s ;; tail c b e s
        | [nl; cm; d; c; b; e] => s <~ namelist nl s ;; s <~ sym ","%bs cm s ;; s <~ dots d s ;; tail c b e s
        | _ => None
        end
      else None
  | _ => None
  end end

(* block ::= {stat | ';'} [return [explist] {';'}]        (Lua 5.2: break is an ordinary statement) *)
with g_chunk (n : nat) (g : tree) (s : stream) {struct n} : option stream :=
  match n with O => None | S n =>
  match g with
  | Node tag _ _ _ [Lst l] => if tag =? tChunk then g_stats n l s else None
  | _ => None
  end end

with g_stats (n : nat) (l : list tree) (s : stream) {struct n} : option stream :=
  match n with O => None | S n =>
  match l with
  | [] => Some s
  | Kw i :: r => s <~ sym ";"%bs (Kw i) s ;; g_stats n r s
  | x :: r =>
      if is_tag x tStatReturn then
        match x with
        | Node _ _ _ _ [k; PNone] => s <~ kw "return"%bs k s ;; g_semis r s
        | Node _ _ _ _ [k; el] => s <~ kw "return"%bs k s ;; s <~ g_explist n el s ;; g_semis r s
        | _ => None
        end
      else s <~ g_stat n x s ;; g_stats n r s
  end end

with g_stat (n : nat) (g : tree) (s : stream) {struct n} : option stream :=
  match n with O => None | S n =>
  match g with
  | Node tag _ _ short fs =>
      if tag =? tStatAssignment then
        match fs with
        | [Node t2 _ _ _ [Lst vs]; op; el] =>
            if t2 =? tVarList then
              s <~ sep_list (g_var n) (sym ","%bs) vs s ;; s <~ tokp is_assignop op s ;; g_explist n el s
            else None
        | _ => None end
      else if tag =? tStatFunctionCall then
        match fs with
        | [c] => if is_tag c tFunctionCall || is_tag c tFunctionCallMethod then g_prefix n c s else None
        | _ => None end
      else if tag =? tStatDo then
        match fs with [d; b; e] => s <~ kw "do"%bs d s ;; s <~ g_chunk n b s ;; kw "end"%bs e s | _ => None end
      else if tag =? tStatWhile then
        match fs with
        | [w; c; d; b; e] =>
            s <~ kw "while"%bs w s ;; s <~ g_exp n c s ;; s <~ kw "do"%bs d s ;; s <~ g_chunk n b s ;; kw "end"%bs e s
        | _ => None end
      else if tag =? tStatRepeat then
        match fs with
        | [r; b; u; c] => s <~ kw "repeat"%bs r s ;; s <~ g_chunk n b s ;; s <~ kw "until"%bs u s ;; g_exp n c s
        | _ => None end
      else if tag =? tStatIf then
        if short then
          (* if '(' exp ')' stat {stat} [else {stat}]   on one line *)
          match fs with
          | [i; Lst (Lst [Paren o c e; b] :: rest)] =>
              s <~ kw "if"%bs i s ;; s <~ g_prefix n (Paren o c e) s ;; s <~ g_chunk n b s ;;
              match rest with
              | [] => Some s
              | [el; Lst [PNone; b2]] => s <~ kw "else"%bs el s ;; g_chunk n b2 s
              | _ => None
              end
          | _ => None end
        else
          match fs with
          | [i; Lst (Lst [c; t; b] :: rest); e] =>
              s <~ kw "if"%bs i s ;; s <~ g_exp n c s ;; s <~ kw "then"%bs t s ;; s <~ g_chunk n b s ;;
              s <~ g_elseifs n rest s ;; kw "end"%bs e s
          | _ => None end
      else if tag =? tStatForStep then
        match fs with
        | f :: nm :: q :: e1 :: c1 :: e2 :: r =>
            s <~ kw "for"%bs f s ;; s <~ tokc CName nm s ;; s <~ sym "="%bs q s ;; s <~ g_exp n e1 s ;;
            s <~ sym ","%bs c1 s ;; s <~ g_exp n e2 s ;;
            let tail d b e s := s <~ kw "do"%bs d s ;; s <~ g_chunk n b s ;; kw "end"%bs e s in
            match r with
            | [PNone; d; b; e] => tail d b e s
            | [c2; e3; d; b; e] => s <~ sym ","%bs c2 s ;; s <~ g_exp n e3 s ;; tail d b e s
            | _ => None
            end
        | _ => None end
      else if tag =? tStatForIn then
        match fs with
        | [f; nl; i; el; d; b; e] =>
            s <~ kw "for"%bs f s ;; s <~ namelist nl s ;; s <~ kw "in"%bs i s ;; s <~ g_explist n el s ;;
            s <~ kw "do"%bs d s ;; s <~ g_chunk n b s ;; kw "end"%bs e s
        | _ => None end
      else if tag =? tStatFunction then
        match fs with
        | [f; Node t2 _ _ _ (Lst path :: m); body] =>
            if t2 =? tFunctionName then
              s <~ kw "function"%bs f s ;; s <~ sep_list (tokc CName) (sym "."%bs) path s ;;
              s <~ (match m with
                    | [PNone] => Some s
                    | [c; nm] => s <~ sym ":"%bs c s ;; tokc CName nm s
                    | _ => None end) ;;
              g_funcbody n body s
            else None
        | _ => None end
      else if tag =? tStatLocalFunction then
        match fs with
        | [l; f; nm; body] =>
            s <~ kw "local"%bs l s ;; s <~ kw "function"%bs f s ;; s <~ tokc CName nm s ;; g_funcbody n body s
        | _ => None end
      else if tag =? tStatLocalAssignment then
        match fs with
        | [l; nl; PNone] => s <~ kw "local"%bs l s ;; namelist nl s
        | [l; nl; q; el] => s <~ kw "local"%bs l s ;; s <~ namelist nl s ;; s <~ sym "="%bs q s ;; g_explist n el s
        | _ => None end
      else if tag =? tStatGoto then
        match fs with
        | [g0; Hid (Tok i t); PBytes nm] =>
            s <~ kw "goto"%bs g0 s ;; s <~ tokc CName (Tok i t) s ;; if zlist_eqb nm (tdata t) then Some s else None
        | _ => None end
      else if tag =? tStatLabel then
        match fs with
        | [Hid (Tok i t); PBytes nm] =>
            s <~ tokc CLabel (Tok i t) s ;; if zlist_eqb nm (label_name (tdata t)) then Some s else None
        | _ => None end
      else if tag =? tStatBreak then
        match fs with [b] => kw "break"%bs b s | _ => None end
      else None
  | _ => None
  end end

(* {elseif exp then block} [else block] *)
with g_elseifs (n : nat) (l : list tree) (s : stream) {struct n} : option stream :=
  match n with O => None | S n =>
  match l with
  | [] => Some s
  | [el; Lst [PNone; b]] => s <~ kw "else"%bs el s ;; g_chunk n b s
  | ei :: Lst [c; t; b] :: r =>
      s <~ kw "elseif"%bs ei s ;; s <~ g_exp n c s ;; s <~ kw "then"%bs t s ;; s <~ g_chunk n b s ;; g_elseifs n r s
  | _ => None
  end end

(* var ::= Name | prefixexp '[' exp ']' | prefixexp '.' Name *)
with g_var (n : nat) (g : tree) (s : stream) {struct n} : option stream :=
  match n with O => None | S n =>
  if is_tag g tVarName || is_tag g tVarIndex || is_tag g tVarAttribute then g_prefix n g s else None
  end.

(* size of a tree: enough depth for any derivation of it *)
Fixpoint tsize (t : tree) : nat :=
  match t with
  | Node _ _ _ _ fs => S (fold_right (fun x a => tsize x + a)%nat O fs)
  | Lst l => S (fold_right (fun x a => tsize x + a)%nat O l)
  | Paren _ _ x => S (tsize x)
  | Hid x => S (tsize x)
  | _ => 1%nat
  end.

(* well-formed derivation trees *)
(* only a one-line if carries the short flag (the grammar reads the flag of if-nodes only) *)
Fixpoint flags_ok (g : tree) : bool :=
  match g with
  | Node tag _ _ sh fs => (negb sh || (tag =? tStatIf)) && forallb flags_ok fs
  | Lst l => forallb flags_ok l
  | Paren _ _ x => flags_ok x
  | Hid x => flags_ok x
  | _ => true
  end.

(* the token stored at a leaf [Tok i t] has the data of the token with index i (the grammar looks at the token at index
   i; [denotes] reads goto / label names from the stored copy) *)
Fixpoint leaves_ok (ts : list token) (g : tree) : bool :=
  match g with
  | Node _ _ _ _ fs => forallb (leaves_ok ts) fs
  | Lst l => forallb (leaves_ok ts) l
  | Paren _ _ x => leaves_ok ts x
  | Hid x => leaves_ok ts x
  | Tok i t => if i <? 0 then false
               else match nth_error ts (Z.to_nat i) with Some u => zlist_eqb (tdata u) (tdata t) | None => false end
  | _ => true
  end.

Definition derives (ts : list token) (g : tree) : bool :=
  flags_ok g && leaves_ok ts g &&
  match g_chunk (2 * tsize g + 8) g (sig_stream ts 0) with
  | Some [] => true
  | _ => false
  end.

(* ---------- line scope of the one-line if ---------- *)
(* token indices of the leaves, in order *)
Fixpoint leaves (t : tree) : list Z :=
  match t with
  | Node _ _ _ _ fs => flat_map leaves fs
  | Lst l => flat_map leaves l
  | Tok i _ => [i]
  | Kw i => [i]
  | Paren i j x => [i] ++ leaves x ++ [j]
  | Hid x => leaves x
  | _ => []
  end.

(* is there a newline token among the tokens with indices in [a, b) ? *)
Fixpoint newline_in (l : list token) (i a b : Z) : bool :=
  match l with
  | [] => false
  | t :: r => ((a <=? i) && (i <? b) && is_newline t) || ((i <? b) && newline_in r (i + 1) a b)
  end.

(* the first token after index a that is a newline or significant: must be a newline (or the end) *)
Fixpoint line_ends_after (l : list token) (i a : Z) : bool :=
  match l with
  | [] => true
  | t :: r => if i <=? a then line_ends_after r (i + 1) a
              else if is_newline t then true
              else if is_trivia t then line_ends_after r (i + 1) a
              else false
  end.

Definition first_last (l : list Z) : option (Z * Z) :=
  match l with [] => None | a :: _ => Some (a, last l a) end.

Fixpoint short_ifs (t : tree) : list tree :=
  match t with
  | Node tag s e sh fs => (if (tag =? tStatIf) && sh then [t] else []) ++ flat_map short_ifs fs
  | Lst l => flat_map short_ifs l
  | Paren _ _ x => short_ifs x
  | Hid x => short_ifs x
  | _ => []
  end.

(* every one-line if of the derivation lies on one line of the layout and the line ends after it *)
Definition line_scoped (ts : list token) (g : tree) : bool :=
  forallb (fun n => match first_last (leaves n) with
                    | Some (a, b) => negb (newline_in ts 0 a b) && line_ends_after ts 0 b
                    | None => false
                    end) (short_ifs g).

(* ---------- the tree the library exposes ---------- *)
(* operators and operands of an exposed expression, in source order: binary and unary operator nodes are
   opened, every other node is an operand *)
Fixpoint flat_exp (t : tree) : list tree :=
  match t with
  | Node tag _ _ _ [a; Tok i o; b] => if tag =? tExpBinOp then flat_exp a ++ Tok i o :: flat_exp b else [t]
  | Node tag _ _ _ [Tok i o; a] => if tag =? tExpUnOp then Tok i o :: flat_exp a else [t]
  | _ => [t]
  end.

Fixpoint denotes (g t : tree) {struct g} : bool :=
  let fix all2 (gs : list tree) (l : list tree) {struct gs} : bool :=
    match gs with
    | [] => match l with [] => true | _ => false end
    | x :: gr =>
        if is_hidden x then all2 gr l
        else match l with
             | y :: lr => denotes x y && all2 gr lr
             | [] => false
             end
    end in
  match g with
  | Paren _ _ x => denotes x t
  | Node tag _ _ sh fs =>
      if tag =? tChain then
        all2 fs (flat_exp t)
      else
        match t with
        | Node tag' _ _ sh' fs' => (tag =? tag') && Bool.eqb sh sh' && all2 fs fs'
        | _ => false
        end
  | Tok i _ => match t with Tok j _ => i =? j | _ => false end
  | Lst l => match t with Lst l' => all2 l l' | _ => false end
  | PNone => match t with PNone => true | _ => false end
  | PBool b => match t with PBool b' => Bool.eqb b b' | _ => false end
  | PBytes b => match t with PBytes b' => zlist_eqb b b' | _ => false end
  | Kw _ => false
  | Hid _ => false
  end.

(* ---------- conditions on the exposed tree alone (any input) ---------- *)
(* positions: every node has start <= end <= the end of the node it is part of *)
Fixpoint ranges_ok (hi : Z) (t : tree) : bool :=
  match t with
  | Node _ s e _ fs => (s <=? e) && (e <=? hi) && forallb (ranges_ok e) fs
  | Lst l => forallb (ranges_ok hi) l
  | Paren _ _ x => ranges_ok hi x
  | Hid x => ranges_ok hi x
  | _ => true
  end.

Fixpoint increasing (l : list Z) : bool :=
  match l with
  | a :: (b :: _) as r => (a <? b) && increasing r
  | _ => true
  end.

(* a one-line if never reaches past the end of its line: no newline token between the token that follows its
   condition (the closing parenthesis; the exposed condition is the expression inside the parentheses) and its end *)
Definition first_sig_from (ts : list token) (s : Z) : Z :=
  match sig_stream (skipn (Z.to_nat s) ts) s with (i, _) :: _ => i | [] => s end.

Definition shortif_on_line (ts : list token) (t : tree) : bool :=
  forallb (fun n => match n with
                    | Node _ _ e _ [Lst (Lst [Node _ _ ce _ _; _] :: _)] =>
                        negb (newline_in ts 0 (first_sig_from ts ce) e)
                    | _ => false end) (short_ifs t).

Definition root_ok (root : tree) (e : Z) : bool :=
  match root with Node tag s e' _ _ => (tag =? tChunk) && (s =? 0) && (e' =? e) | _ => false end.
