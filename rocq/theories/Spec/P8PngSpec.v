(* The .p8.png cartridge format, written from the format description (PICO-8 cart format notes),
   NOT from picotool's code.

   A .p8.png is a 160 x 205 PNG, 8 bits per channel, RGBA. Pixel number i (row-major) carries byte i of
   the 0x8000-byte cart ROM followed by one version byte: the two least significant bits of the
   channels hold, from most to least significant bit pair,  A R G B.
   The upper six bits of every channel are the visible cart label picture.
   ROM layout: 0x0000 sprite sheet (0x2000 bytes), 0x2000 map (0x1000), 0x3000 sprite flags (0x100),
   0x3100 music (0x100), 0x3200 sound effects (0x1100), 0x4300 Lua code area (0x3d00; plain text
   terminated by NUL, or the ":c:" compressed form of Spec/PxcFormat.v), 0x8000 version byte. *)
From PV Require Import Base.Prelude Spec.PxcFormat.

Definition img_width : Z := 160.
Definition img_height : Z := 205.

Definition px_byte (r g b a : Z) : Z := (a mod 4) * 64 + (r mod 4) * 16 + (g mod 4) * 4 + b mod 4.

Fixpoint row_bytes (row : list Z) : list Z :=
  match row with
  | r :: g :: b :: a :: rest => px_byte r g b a :: row_bytes rest
  | _ => []
  end.

Definition rom_of_rows (rows : list (list Z)) : list Z := flat_map row_bytes rows.

Definition sub (l : list Z) (lo hi : Z) : list Z := firstn (Z.to_nat (hi - lo)) (skipn (Z.to_nat lo) l).

Record rom_fields := { f_gfx : list Z; f_map : list Z; f_gff : list Z; f_music : list Z; f_sfx : list Z;
                       f_code_area : list Z; f_version : option Z }.

Definition fields_of_rom (rom : list Z) : rom_fields :=
  {| f_gfx := sub rom 0 8192; f_map := sub rom 8192 12288; f_gff := sub rom 12288 12544;
     f_music := sub rom 12544 12800; f_sfx := sub rom 12800 17152; f_code_area := sub rom 17152 32768;
     f_version := nth_error rom (Z.to_nat 32768) |}.

(* image shape: 205 rows of 160 RGBA pixels, every channel value a byte *)
Definition shape_ok (rows : list (list Z)) : bool :=
  (zlen rows =? img_height) && forallb (fun row => (zlen row =? 4 * img_width) && all_bytes row) rows.

Fixpoint rows_eqb (a b : list (list Z)) : bool :=
  match a, b with
  | [], [] => true
  | x :: a', y :: b' => zlist_eqb x y && rows_eqb a' b'
  | _, _ => false
  end.

Definition label_of (rows : list (list Z)) : list (list Z) := map (map (fun v => v / 4)) rows.

(* the text stored in a code area, if the area is well formed *)
Definition area_text (area : list Z) : option (list Z) :=
  match decode_area area with
  | Compressed t => Some t
  | Plain t => Some t
  | Malformed => None
  end.

(* CR -> space *)
Definition cr_to_space (l : list Z) : list Z := map (fun c => if c =? 13 then 32 else c) l.
