(* Which directory does a Lua load-path pattern designate, whatever package name is put in place of its
   placeholders?  Reference notion for property C12 (require side), written from the description of the load
   path (";"-separated patterns, every "?" replaced by the package name, relative patterns taken from the
   directory of the requiring file) and from POSIX pathname resolution (Spec/PathSpec.v) - not from build.py.

   A package name that require() accepts is non-empty, does not start with "/", has no ".." component and
   does not contain "./" (so "." can only be its last component; empty components are possible: "a//b", "a/").

   A pattern is cut into its directory part D (the text up to the last "/" in front of the first "?", see
   [pattern_dir]) and the rest, a sequence of "/"-separated components.  A component of the rest
     - without "?" moves like any pathname component: "" and "." stay, ".." goes up, a name goes down;
     - with "?" becomes one or more components once the name is put in.  What it can do at worst depends on
       its text alone ([comp_effect]):
         -1  it can turn into ".."        (exactly ".?", "?." and "??", with the name ".")
          0  it cannot go up, but it may leave the position unchanged ("?" with the name "."; "x?." with the
             name "a/." -> "xa/.."; "x?.." with the name "a/" -> "xa/..")
         +1  it always ends at least one level below where it started, and never dips below its start.
   [pattern_climb] plays the rest against the worst case: [u] counts levels known to have been gained since
   D; a step up with u = 0 leaves D by one more level.  The directory the pattern designates is D with
   [pattern_climb] levels removed ([pattern_root]).  For every usual pattern (?  ?.lua  lib/?.lua  ?/init.lua
   ../lib/?.lua  ?/?.lua ...) the climb is 0 and the root is [pattern_dir] itself. *)
From PV Require Import Base.Prelude Spec.PathSpec.

Definition has_placeholder (c : bytes) : bool := existsb (fun x => x =? 63) c.

(* the pattern text with the package name in place of every "?" *)
Definition instantiate (name pat : bytes) : bytes :=
  flat_map (fun c => if c =? 63 then name else [c]) pat.

(* the text after the last "?" (the whole text if there is none) *)
Fixpoint after_last_placeholder (c : bytes) : bytes :=
  match c with
  | [] => []
  | x :: r => if has_placeholder r then after_last_placeholder r else if x =? 63 then r else c
  end.

(* what follows the last "/" *)
Fixpoint last_part (s : bytes) : bytes :=
  match s with
  | [] => []
  | c :: r => if existsb (fun x => x =? 47) s then last_part r else s
  end.

(* the pattern text from the first "?" on *)
Fixpoint from_first_placeholder (pat : bytes) : bytes :=
  match pat with
  | [] => []
  | c :: r => if c =? 63 then pat else from_first_placeholder r
  end.

(* the pattern without its directory part D = dir_part (before_placeholder pat) *)
Definition pattern_rest (pat : bytes) : bytes :=
  last_part (before_placeholder pat) ++ from_first_placeholder pat.

(* worst-case movement of one component of a pattern: -1 up, 0 stay, 1 down *)
Definition comp_effect (c : bytes) : Z :=
  if has_placeholder c then
    let k := comp_kind (instantiate [46] c) in
    let w := after_last_placeholder c in
    if k =? 1 then -1
    else if (k =? 2) && negb (zlist_eqb w [46] || zlist_eqb w [46; 46]) then 1
    else 0
  else
    match comp_kind c with 0 => 0 | 1 => -1 | _ => 1 end.

(* u: levels certainly gained since the start; m: levels lost below the start *)
Fixpoint climb_from (u m : nat) (cs : list bytes) : nat :=
  match cs with
  | [] => m
  | c :: r =>
    let e := comp_effect c in
    if e =? 1 then climb_from (S u) m r
    else if e =? 0 then climb_from u m r
    else match u with
         | S u' => climb_from u' m r
         | O => climb_from O (S m) r
         end
  end.

Definition pattern_climb (pat : bytes) : nat := climb_from 0 0 (components (pattern_rest pat)).

Fixpoint ups (n : nat) : bytes :=
  match n with O => [] | S k => 46 :: 46 :: 47 :: ups k end.

(* the directory a pattern designates, as a pathname: [pattern_dir], then "../" pattern_climb times *)
Definition pattern_root (base pat : bytes) : bytes := pattern_dir base pat ++ ups (pattern_climb pat).

(* ---- names made of proper names only ( a  a/b  lib/util.x ; no empty component, no "." ) ----
   Such a name turns a component with q placeholders into q * (k - 1) + 1 names, k the number of components of
   the name: which levels a candidate leaves and enters is then a function of the pattern and k. *)
Definition count_placeholders (c : bytes) : nat := length (filter (fun x => x =? 63) c).

Definition plain_kinds (k : nat) (c : bytes) : list Z :=
  if has_placeholder c then repeat 2 (count_placeholders c * (k - 1) + 1) else [comp_kind c].

(* m levels of the start left, h names entered: the walk over components of the given kinds *)
Fixpoint profile (m h : nat) (ks : list Z) : nat * nat :=
  match ks with
  | [] => (m, h)
  | k :: r =>
    if k =? 0 then profile m h r
    else if k =? 1 then match h with S h' => profile m h' r | O => profile (S m) 0 r end
    else profile m (S h) r
  end.

Definition plain_profile (pat : bytes) (k : nat) : nat * nat :=
  profile 0 0 (flat_map (plain_kinds k) (components (pattern_rest pat))).

(* roots a requiring file contributes under any load path: its directory and the directory every
   pattern designates (PathSpec.require_roots is the special case of patterns with climb 0) *)
Definition require_roots_general (pats : list bytes) (file : bytes) : list bytes :=
  let base := dir_part file in
  base :: map (pattern_root base) pats.
