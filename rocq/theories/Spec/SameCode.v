(* "Only white space changed": comparison of two token lists (the input of a rewrite and the tokens of
   its output), written from the property text, not from picotool's code.

   code_view ts        the significant tokens and the comments of ts, in order: (class, spelling), where a
                       comment's spelling is taken up to white space inside it
   same_code ts out    the two views are equal: exactly the same tokens and comments, same order, same
                       spelling; so the token count is unchanged and nothing was dropped or invented
   nl_before ts        for each significant token, in order: does a newline token occur between the previous
                       significant token (or the start) and it?
   lines_kept ts root out   every short-form `if` of the syntax tree root (of ts) keeps its extent in out: no
                       line break between two of its tokens that the input did not have, and the line break
                       before the token that follows it is still there *)
From PV Require Import Base.Prelude Spec.LuaTokens.

Definition is_ws_byte (b : Z) : bool := (b =? 32) || (b =? 9) || (b =? 10) || (b =? 13).
Definition strip_ws (l : list Z) : list Z := filter (fun b => negb (is_ws_byte b)) l.

Fixpoint code_view (ts : list token) : list (kclass * list Z) :=
  match ts with
  | [] => []
  | t :: r =>
      match tk t with
      | CSpace | CNewline => code_view r
      | CComment => (CComment, strip_ws (tcode t)) :: code_view r
      | k => (k, tcode t) :: code_view r
      end
  end.

Fixpoint view_eqb (a b : list (kclass * list Z)) : bool :=
  match a, b with
  | [], [] => true
  | (k1, c1) :: a', (k2, c2) :: b' => kclass_eqb k1 k2 && zlist_eqb c1 c2 && view_eqb a' b'
  | _, _ => false
  end.

Definition same_code (ts out : list token) : bool := view_eqb (code_view ts) (code_view out).

(* newline seen since the previous significant token *)
Fixpoint nl_before_from (seen : bool) (ts : list token) : list bool :=
  match ts with
  | [] => []
  | t :: r =>
      if is_newline t then nl_before_from true r
      else if is_trivia t then nl_before_from seen r
      else seen :: nl_before_from false r
  end.
Definition nl_before (ts : list token) : list bool := nl_before_from false ts.

(* number of significant tokens among the first n tokens *)
Fixpoint count_sig (ts : list token) (n : nat) : nat :=
  match n, ts with
  | S n', t :: r => (if is_trivia t then 0 else 1) + count_sig r n'
  | _, _ => 0
  end.

Fixpoint short_if_ranges (t : tree) : list (Z * Z) :=
  match t with
  | Node tag s e sh fs => (if (tag =? tStatIf) && sh then [(s, e)] else []) ++ flat_map short_if_ranges fs
  | Lst l => flat_map short_if_ranges l
  | Paren _ _ x => short_if_ranges x
  | Hid x => short_if_ranges x
  | _ => []
  end.

(* the significant tokens with ordinals a .. b-1 (b > a), which form a short-form `if` of the input, keep their
   extent: the output has no line break between two of them where the input had none (the body stays on the
   `if` line), and where the input had a line break before the token that follows them the output has one too
   (what followed stays on a later line).  The comparison is RELATIVE to the input's own line breaks: for a
   valid program, whose short-ifs occupy one line each, this says "still one line, and the line ends after
   it"; for an input that is not a valid program (a condition spread over several lines, say) it asks for no
   more than the input itself had - a writer that reproduces its input exactly always passes.
   (nli / nlo: nl_before of the input and of the output; same_code makes the ordinals correspond.) *)
Fixpoint no_new_breaks (nli nlo : list bool) : bool :=
  match nli, nlo with
  | i :: ri, o :: ro => (negb o || i) && no_new_breaks ri ro
  | _, _ => true
  end.

Definition line_kept (nli nlo : list bool) (a b : nat) : bool :=
  no_new_breaks (firstn (b - a - 1) (skipn (S a) nli)) (firstn (b - a - 1) (skipn (S a) nlo)) &&
  match nth_error nli b, nth_error nlo b with
  | Some true, Some x => x
  | _, _ => true
  end.

Definition lines_kept (ts : list token) (root : tree) (out : list token) : bool :=
  let nli := nl_before ts in
  let nlo := nl_before out in
  forallb (fun r => let a := count_sig ts (Z.to_nat (fst r)) in
                    let b := count_sig ts (Z.to_nat (snd r)) in
                    (b <=? a)%nat || line_kept nli nlo a b) (short_if_ranges root).
