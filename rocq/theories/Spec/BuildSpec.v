(* C13 - the selection rule of `p8tool build`, written from the property statement
   (properties.jsonl C13), not from build.py:

     each section of OUT equals
       - the named source cart's section          if a source was given,
       - the empty default                        if --empty-X was given,
       - OUT's previous section                   otherwise (the empty default if OUT did not exist);
     a .p8.png OUT keeps its previous label image and a .p8 OUT its label section;
     conflicting or unusable arguments (both --X and --empty-X, missing file, wrong extension,
     OUT not .p8/.p8.png) make the command fail and leave OUT untouched.

   Section contents are an abstract type A (the rule never looks inside a section), so every
   statement about this rule is parametric - hence unbounded - in the contents.
   Base/ only. *)
From PV Require Import Base.Prelude.

(* ---------- sections ---------- *)
Inductive section : Set := SLua | SGfx | SGff | SMap | SSfx | SMusic.

Definition all_sections : list section := [SLua; SGfx; SGff; SMap; SSfx; SMusic].

Definition section_eqb (a b : section) : bool :=
  match a, b with
  | SLua, SLua | SGfx, SGfx | SGff, SGff | SMap, SMap | SSfx, SSfx | SMusic, SMusic => true
  | _, _ => false
  end.

(* the command-line name of a section: --lua --gfx --gff --map --sfx --music *)
Definition section_name (s : section) : bytes :=
  match s with
  | SLua => "lua"%bs | SGfx => "gfx"%bs | SGff => "gff"%bs
  | SMap => "map"%bs | SSfx => "sfx"%bs | SMusic => "music"%bs
  end.

(* ---------- six section contents ---------- *)
Record secs (A : Type) : Type := mkSecs {
  x_lua : A; x_gfx : A; x_gff : A; x_map : A; x_sfx : A; x_music : A }.
Arguments mkSecs {A}. Arguments x_lua {A}. Arguments x_gfx {A}. Arguments x_gff {A}.
Arguments x_map {A}. Arguments x_sfx {A}. Arguments x_music {A}.

Definition sec_get {A} (s : section) (x : secs A) : A :=
  match s with
  | SLua => x_lua x | SGfx => x_gfx x | SGff => x_gff x
  | SMap => x_map x | SSfx => x_sfx x | SMusic => x_music x
  end.

Definition sec_set {A} (s : section) (a : A) (x : secs A) : secs A :=
  match s with
  | SLua => mkSecs a (x_gfx x) (x_gff x) (x_map x) (x_sfx x) (x_music x)
  | SGfx => mkSecs (x_lua x) a (x_gff x) (x_map x) (x_sfx x) (x_music x)
  | SGff => mkSecs (x_lua x) (x_gfx x) a (x_map x) (x_sfx x) (x_music x)
  | SMap => mkSecs (x_lua x) (x_gfx x) (x_gff x) a (x_sfx x) (x_music x)
  | SSfx => mkSecs (x_lua x) (x_gfx x) (x_gff x) (x_map x) a (x_music x)
  | SMusic => mkSecs (x_lua x) (x_gfx x) (x_gff x) (x_map x) (x_sfx x) a
  end.

Definition sec_tabulate {A} (f : section -> A) : secs A :=
  mkSecs (f SLua) (f SGfx) (f SGff) (f SMap) (f SSfx) (f SMusic).

(* a cart as far as `build` is concerned: six sections, an optional __label__ section
   (only .p8 files carry one), the version number *)
Record cart (A : Type) : Type := mkCart {
  c_secs : secs A; c_label : option A; c_version : Z }.
Arguments mkCart {A}. Arguments c_secs {A}. Arguments c_label {A}. Arguments c_version {A}.

(* ---------- file names ---------- *)
Definition ends_with (s suffix : bytes) : bool := starts_with (rev suffix) (rev s).

Definition is_p8 (fn : bytes) : bool := ends_with fn ".p8"%bs.
Definition is_p8png (fn : bytes) : bool := ends_with fn ".p8.png"%bs.
Definition is_luafile (fn : bytes) : bool := ends_with fn ".lua"%bs.

(* OUT must be a .p8 or a .p8.png *)
Definition out_name_ok (fn : bytes) : bool := is_p8 fn || is_p8png fn.

(* a source must be a .p8 or .p8.png cart; the lua section may also come from a .lua file *)
Definition source_name_ok (s : section) (fn : bytes) : bool :=
  is_p8 fn || is_p8png fn || (section_eqb s SLua && is_luafile fn).

(* ---------- what the command line says ---------- *)
Record build_args : Type := mkArgs {
  b_out : bytes;                       (* OUT *)
  b_src : section -> option bytes;     (* --X FILE *)
  b_empty : section -> bool;           (* --empty-X *)
  b_lua_path : option bytes            (* --lua-path (only consulted for a .lua source) *)
}.

(* ---------- the files as the command finds them ---------- *)
Record world (A : Type) : Type := mkWorld {
  w_exists : bytes -> bool;                           (* is there a file of that name *)
  w_cart : bytes -> result (cart A);                  (* the cart in that file, or why it cannot be read *)
  w_luafile : bytes -> option bytes -> result A;      (* the Lua program built from a .lua file (C14) *)
  w_empty : cart A;                                   (* the empty defaults *)
  w_png_label : bytes -> option A                     (* the label picture of a .p8.png file *)
}.
Arguments mkWorld {A}. Arguments w_exists {A}. Arguments w_cart {A}. Arguments w_luafile {A}.
Arguments w_empty {A}. Arguments w_png_label {A}.

(* the label that has to survive: None = no demand (OUT did not exist) *)
Inductive label_req (A : Type) : Type :=
| KeepLabel (l : option A)    (* OUT existed: its label picture / label section, possibly none *)
| AnyLabel.
Arguments KeepLabel {A}. Arguments AnyLabel {A}.

Section Rule.
Context {A : Type}.
Variable w : world A.
Variable args : build_args.

(* OUT's previous contents: the cart in it, or the empty defaults when there is no such file *)
Definition previous : result (cart A) :=
  if w_exists w (b_out args) then w_cart w (b_out args) else Ok (w_empty w).

(* the content the arguments name for section s; Err = the arguments are conflicting or unusable *)
Definition chosen (prev : cart A) (s : section) : result A :=
  match b_src args s with
  | Some fn =>
    if b_empty args s then Err ValueError                         (* --X together with --empty-X *)
    else if negb (w_exists w fn) then Err ValueError              (* missing file *)
    else if negb (source_name_ok s fn) then Err ValueError        (* wrong extension *)
    else if section_eqb s SLua && is_luafile fn then w_luafile w fn (b_lua_path args)
    else match w_cart w fn with
         | Ok src => Ok (sec_get s (c_secs src))
         | Err e => Err e                                         (* unreadable source *)
         end
  | None =>
    if b_empty args s then Ok (sec_get s (c_secs (w_empty w)))
    else Ok (sec_get s (c_secs prev))
  end.

Definition previous_label (prev : cart A) : label_req A :=
  if w_exists w (b_out args) then
    KeepLabel (if is_p8png (b_out args) then w_png_label w (b_out args) else c_label prev)
  else AnyLabel.

(* None: the command must fail and leave OUT untouched.
   Some (x, l): the command must succeed and OUT must then hold sections x and satisfy l. *)
Definition build_spec : option (secs A * label_req A) :=
  if negb (out_name_ok (b_out args)) then None
  else match previous with
       | Err _ => None
       | Ok prev =>
         match chosen prev SLua, chosen prev SGfx, chosen prev SGff,
               chosen prev SMap, chosen prev SSfx, chosen prev SMusic with
         | Ok a, Ok b, Ok c, Ok d, Ok e, Ok f => Some (mkSecs a b c d e f, previous_label prev)
         | _, _, _, _, _, _ => None
         end
       end.

End Rule.

(* ---------- one observed run ---------- *)
Record observation (A : Type) : Type := mkObs {
  o_failed : bool;                               (* non-zero exit status or an exception *)
  o_untouched : bool;                            (* OUT afterwards: same bytes as before / still absent *)
  o_after : option (secs A * option A)           (* OUT read back afterwards: sections, label *)
}.
Arguments mkObs {A}. Arguments o_failed {A}. Arguments o_untouched {A}. Arguments o_after {A}.

Definition opt_eqb {A} (eqb : A -> A -> bool) (a b : option A) : bool :=
  match a, b with
  | Some x, Some y => eqb x y
  | None, None => true
  | _, _ => false
  end.

Definition secs_eqb {A} (eqb : A -> A -> bool) (x y : secs A) : bool :=
  forallb (fun s => eqb (sec_get s x) (sec_get s y)) all_sections.

Definition label_ok {A} (eqb : A -> A -> bool) (req : label_req A) (l : option A) : bool :=
  match req with
  | KeepLabel k => opt_eqb eqb k l
  | AnyLabel => true
  end.

(* does the observed run obey the rule? *)
Definition obeys {A} (eqb : A -> A -> bool) (spec : option (secs A * label_req A)) (o : observation A) : bool :=
  match spec with
  | None => o_failed o && o_untouched o
  | Some (x, req) =>
    negb (o_failed o) &&
    match o_after o with
    | Some (y, l) => secs_eqb eqb x y && label_ok eqb req l
    | None => false
    end
  end.
