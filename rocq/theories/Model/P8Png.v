(* Model of the cart-level part of pico8/game/formatter/p8png.py (after the three `fix:` commits):
   get_bytes_from_code, get_code_from_bytes, the memory layout join (to_file) and split
   (get_raw_data_from_p8png_file), and the pixel rows handed to / received from pypng
   (Model/PngStego.v has the per-pixel loops).
   Regenerated: Generated/K_p8png.v (coordinator: stego kernels, header bytes, slice bounds, join order)
   and Generated/K_p8png_codec.v (magic test, raw suffix, replace arguments, oversize test). *)
From PV Require Import Base.Prelude Base.PySlice Generated.K_compress Generated.K_p8png Generated.K_p8png_codec
  Model.Compress Model.PngStego.

(* ---------- get_bytes_from_code ---------- *)
Definition bytes_of_ints (l : list Z) : result (list Z) :=      (* bytes([...]) *)
  if all_bytes l then Ok l else Err ValueError.

Definition get_bytes_from_code (code : list Z) : result (list Z) :=
  compressed_bytes <- compress_code code ;;
  code_bytes <- (if gbc_use_compressed (zlen compressed_bytes) (zlen code) then
                   lb <- bytes_of_ints [gbc_len_hi (zlen code); gbc_len_lo (zlen code)] ;;
                   Ok (gbc_magic ++ lb ++ gbc_pad ++ compressed_bytes)
                 else Ok code) ;;
  if gbc_too_big (zlen code_bytes) then Err ValueError
  else Ok (py_setslice (repeat 0 (Z.to_nat gbc_area_size)) 0 (zlen code_bytes) code_bytes).

(* ---------- get_code_from_bytes ---------- *)
Fixpoint index_of (x : Z) (l : list Z) (k : Z) : option Z :=
  match l with
  | [] => None
  | y :: r => if y =? x then Some k else index_of x r (k + 1)
  end.

(* bytes.replace for one-byte patterns (what the source uses; anything else is not modelled) *)
Definition replace1 (from to code : list Z) : result (list Z) :=
  match from with
  | [f] => Ok (flat_map (fun c => if c =? f then to else [c]) code)
  | _ => Err OtherError
  end.

Definition get_code_from_bytes (codedata : list Z) (version : Z) : result (Z * list Z * option Z) :=
  if negb (zlist_eqb (py_slice codedata 0 gcb_magic_len) gcb_magic) then
    let code_length := match index_of gcb_index_arg codedata 0 with Some k => k | None => gcb_full_len end in
    code <- replace1 gcb_replace_from gcb_replace_to (py_slice codedata 0 code_length ++ gcb_raw_suffix) ;;
    Ok (code_length, code, None)
  else
    '(code_length, code, cs) <- decompress_code codedata ;;
    code <- replace1 gcb_replace_from gcb_replace_to code ;;
    Ok (code_length, code, Some cs).

(* ---------- memory layout ---------- *)
Record cart := { c_gfx : list Z; c_map : list Z; c_gff : list Z; c_music : list Z; c_sfx : list Z;
                 c_code : list Z; c_version : Z }.

(* b''.join((gfx, map, gff, music, sfx, code_bytes, bytes((version,)))), sections in regenerated order *)
Definition section_by_id (c : cart) (id : Z) : list Z :=
  if id =? 0 then c_gfx c else if id =? 1 then c_map c else if id =? 2 then c_gff c
  else if id =? 3 then c_music c else c_sfx c.

Definition join_mem (c : cart) (code_bytes : list Z) : result (list Z) :=
  v <- bytes_of_ints [c_version c] ;;
  Ok (concat (map (section_by_id c) png_join_order) ++ code_bytes ++ v).

Record raw_data := { r_gfx : list Z; r_map : list Z; r_gff : list Z; r_music : list Z; r_sfx : list Z;
                     r_codedata : list Z; r_version : Z }.

Definition split_mem (picodata : list Z) : result raw_data :=
  v <- py_get picodata raw_version_idx ;;
  Ok {| r_gfx := py_slice picodata raw_gfx_lo raw_gfx_hi;
        r_map := py_slice picodata raw_p8map_lo raw_p8map_hi;
        r_gff := py_slice picodata raw_gfx_props_lo raw_gfx_props_hi;
        r_music := py_slice picodata raw_song_lo raw_song_hi;
        r_sfx := py_slice picodata raw_sfx_lo raw_sfx_hi;
        r_codedata := py_slice picodata raw_codedata_lo raw_codedata_hi;
        r_version := v |}.

(* ---------- pixel rows ---------- *)
(* The per-pixel loops of get_pngdata_from_picodata / get_picodata_from_pngdata are modelled statement by
   statement in Model/PngStego.v (index arithmetic and four stores per pixel on Python lists).  Executed
   literally that model is quadratic in the image size, so the runner uses the closed forms below on
   well-shaped input (RGBA rows of bytes) and the loop model otherwise; Proofs/P8PngProofs.v proves
   the two equal on every input (rows_fast_eq, picodata_fast_eq). *)
(* the four channel values written for one pixel, in row order (channel 0..3), and the byte read back *)
Definition pack4 (r g b a pb : Z) : list Z :=
  let row := fun i => if i =? 0 then r else if i =? 1 then g else if i =? 2 then b else a in
  [pn_val_2 row 0 4 pb; pn_val_1 row 0 4 pb; pn_val_0 row 0 4 pb; pn_val_3 row 0 4 pb].

Definition unpack4 (r g b a : Z) : Z :=
  let row := fun i => if i =? 0 then r else if i =? 1 then g else if i =? 2 then b else a in
  Z.lor (Z.lor (Z.lor (Z.lor 0 (pd_val_0 row 0 4)) (pd_val_1 row 0 4)) (pd_val_2 row 0 4)) (pd_val_3 row 0 4).

Fixpoint pack_row (row bs : list Z) : list Z :=
  match row with
  | r :: g :: b :: a :: rest =>
    match bs with
    | pb :: bs' => pack4 r g b a pb ++ pack_row rest bs'
    | [] => r :: g :: b :: a :: pack_row rest []
    end
  | _ => []
  end.

Fixpoint pack_rows (w : nat) (rows : list (list Z)) (bs : list Z) : list (list Z) :=
  match rows with
  | [] => []
  | row :: rs => pack_row row (firstn w bs) :: pack_rows w rs (skipn w bs)
  end.

Fixpoint unpack_row (row : list Z) : list Z :=
  match row with
  | r :: g :: b :: a :: rest => unpack4 r g b a :: unpack_row rest
  | _ => []
  end.


Definition wf_rowsb (w : nat) (rows : list (list Z)) : bool :=
  forallb (fun row => (zlen row =? 4 * Z.of_nat w) && all_bytes row) rows.

Definition rows_of_picodata_fast (picodata : list Z) (planes : Z) (rows : list (list Z)) : result (list (list Z)) :=
  let w := match rows with [] => O | row :: _ => Z.to_nat (zlen row / 4) end in
  if (planes =? 4) && all_bytes picodata && wf_rowsb w rows then Ok (pack_rows w rows picodata)
  else rows_of_picodata picodata planes rows.

Definition picodata_of_rows_fast (width height planes : Z) (rows : list (list Z)) : result (list Z) :=
  if (planes =? 4) && (0 <=? width) && (zlen rows =? height) && wf_rowsb (Z.to_nat width) rows
  then Ok (concat (map unpack_row rows))
  else picodata_of_rows width height planes rows.

(* to_file after the label image was read: rows handed to png.Writer.write *)
Definition write_png_pixels (c : cart) (planes : Z) (img : list (list Z)) : result (list (list Z)) :=
  code_bytes <- get_bytes_from_code (c_code c) ;;
  picodata <- join_mem c code_bytes ;;
  rows_of_picodata_fast picodata planes img.

(* get_raw_data_from_p8png_file after png.Reader.read *)
Definition read_png_pixels (width height planes : Z) (rows : list (list Z)) : result cart :=
  picodata <- picodata_of_rows_fast width height planes rows ;;
  d <- split_mem picodata ;;
  '(_, code, _) <- get_code_from_bytes (r_codedata d) (r_version d) ;;
  Ok {| c_gfx := r_gfx d; c_map := r_map d; c_gff := r_gff d; c_music := r_music d; c_sfx := r_sfx d;
        c_code := code; c_version := r_version d |}.
