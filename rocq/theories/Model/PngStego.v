(* get_picodata_from_pngdata / get_pngdata_from_picodata (pico8/game/formatter/p8png.py).
   A PNG image as pypng delivers it: rows of width*planes channel values.
   Regenerated: the four channel index/value expressions of each direction, the in-range
   test and the copy expressions (Generated/K_p8png.v). Hand-modelled: the loops. *)
From PV Require Import Base.Prelude Base.PySlice Model.HexSection Model.Gfx Model.Gff Generated.K_p8png.

(* ---- reading: one byte per pixel ---- *)
Definition pd_pixel (row : list Z) (planes col_i : Z) : result Z :=
  (* the four reads, in source order *)
  _ <- py_get row (col_i * planes + 2) ;; _ <- py_get row (col_i * planes + 1) ;;
  _ <- py_get row (col_i * planes + 0) ;; _ <- py_get row (col_i * planes + 3) ;;
  let a := arr row in
  Ok (Z.lor (Z.lor (Z.lor (Z.lor 0 (pd_val_0 a col_i planes)) (pd_val_1 a col_i planes))
                   (pd_val_2 a col_i planes)) (pd_val_3 a col_i planes)).

(* picodata[row_i*width+col_i] |= ...: rows are laid out one after the other (pin_pd_idx) *)
Definition picodata_of_rows (width height planes : Z) (rows : list (list Z)) : result (list Z) :=
  if zlen rows >? height then (if 0 <? width then Err IndexError else Ok (repeat 0 (Z.to_nat (width * height))))
  else
    parts <- mapM (fun row => mapM (pd_pixel row planes) (upto width)) rows ;;
    Ok (concat parts ++ repeat 0 (Z.to_nat (width * (height - zlen rows)))).

(* ---- writing ---- *)
Definition pn_pixel (picodata : list Z) (row : list Z) (planes row_i width : Z) (new_row : list Z) (col_i : Z)
  : result (list Z) :=
  let a := arr row in
  if pn_inrange row_i width col_i (zlen picodata) then
    picobyte <- py_get picodata (pn_byte_idx row_i width col_i) ;;
    _ <- py_get row (pn_idx_0 col_i planes) ;;
    r1 <- py_set_byte new_row (pn_idx_0 col_i planes) (pn_val_0 a col_i planes picobyte) ;;
    _ <- py_get row (pn_idx_1 col_i planes) ;;
    r2 <- py_set_byte r1 (pn_idx_1 col_i planes) (pn_val_1 a col_i planes picobyte) ;;
    _ <- py_get row (pn_idx_2 col_i planes) ;;
    r3 <- py_set_byte r2 (pn_idx_2 col_i planes) (pn_val_2 a col_i planes picobyte) ;;
    _ <- py_get row (pn_idx_3 col_i planes) ;;
    py_set_byte r3 (pn_idx_3 col_i planes) (pn_val_3 a col_i planes picobyte)
  else
    foldM (fun nr n => _ <- py_get row (pn_copy_idx col_i planes n) ;;
                       py_set_byte nr (pn_copy_idx col_i planes n) (pn_copy_val a col_i planes n))
          (upto 4) new_row.

Definition pn_row (picodata : list Z) (planes : Z) (row_i : Z) (row : list Z) : result (list Z) :=
  let width := zlen row / planes in          (* int(len(row) / planes) *)
  foldM (pn_pixel picodata row planes row_i width) (upto width) (repeat 0 (Z.to_nat (width * planes))).

Definition rows_of_picodata (picodata : list Z) (planes : Z) (rows : list (list Z)) : result (list (list Z)) :=
  mapM (fun ir => pn_row picodata planes (fst ir) (snd ir)) (enumerate_from 0 rows).
