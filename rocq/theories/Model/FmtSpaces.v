(* Model of the white-space pipelines of the AST writers (pico8/lua/lua.py):

     LuaFormatterWriter._get_code_for_spaces   (luafmt)        -> [fmt_run]
     LuaMinifyWriter._get_code_for_spaces      (AST minifier)  -> [min_run]

   Both functions first join the codes of the TokSpace / TokNewline / TokComment tokens under the
   cursor (the "run"; the minifier leaves the comments out) and then push the run through a fixed
   sequence of [re.sub] calls.  The token-collecting loop belongs to the writer walk
   (Model/AstWriter.v); this file models what happens to the joined run.

   Regular expressions are not interpreted: each pattern the code uses is modelled by a hand-written
   *matcher* ([list Z -> option (replacement, match length)], tried at every position from left to
   right by the generic [resub], which reproduces Python's leftmost, non-overlapping substitution)
   or, for patterns anchored with [^], by a one-shot function on the whole string.  Greedy [ *] / [ +]
   / [\n+] / [[ \n]+] are maximal spans; in every pattern used here the character after the span
   cannot belong to the span's class, so Python's backtracking never finds a shorter match and
   "maximal span, then test the rest" is exact.  [$] matches at the end and before a final newline;
   [\Z] only at the end.  None of the substituted patterns can match the empty string except
   [^ *$], which is anchored (one match attempt at position 0); the replacement of [ +\Z] is empty.

   The regex sources, guards and replacement expressions are carried next to each scanner
   ([fmt_steps], [min_steps]) and pinned to the constants regenerated from lua.py in
   Proofs/FmtSpacesProofs.v; the scanners themselves are compared with Python's [re] on all short
   strings over the relevant alphabet by harness/props/c10.py. *)
From PV Require Import Base.Prelude.

Definition SP : Z := 32.
Definition NL : Z := 10.
Definition TAB : Z := 9.
Definition CR : Z := 13.
Definition DASH : Z := 45.
Definition SLASH : Z := 47.

(* ---------- generic leftmost non-overlapping substitution ----------
   [m s] looks at the text starting at the current position and answers [Some (rep, k)]: the
   pattern matches the first [k >= 1] bytes of [s], to be replaced by [rep].  [skip] counts the
   bytes of the current match still to be passed over. *)
Definition matcher := list Z -> option (list Z * nat).

Fixpoint resub (m : matcher) (skip : nat) (s : list Z) : list Z :=
  match s with
  | [] => []
  | c :: r =>
    match skip with
    | S k => resub m k r
    | O =>
      match m s with
      | Some (rep, S k) => rep ++ resub m k r
      | _ => c :: resub m 0 r
      end
    end
  end.

(* maximal span of bytes satisfying p: (length, rest) *)
Fixpoint span_p (p : Z -> bool) (s : list Z) : nat * list Z :=
  match s with
  | c :: r => if p c then let '(n, t) := span_p p r in (S n, t) else (O, s)
  | [] => (O, [])
  end.

Definition is_sp (c : Z) : bool := c =? SP.
Definition is_nl (c : Z) : bool := c =? NL.
Definition is_sp_nl (c : Z) : bool := (c =? SP) || (c =? NL).

(* ---------- matchers ---------- *)
(* a single byte [a] -> [b]            (br'\t' -> b' ',  br'\r' -> b'\n') *)
Definition m_byte (a b : Z) : matcher := fun s =>
  match s with
  | c :: _ => if c =? a then Some ([b], 1%nat) else None
  | [] => None
  end.

(* the two bytes [a b] -> [r]          (br'\r\n' -> b'\n',  br'\n\r' -> b'\n') *)
Definition m_pair (a b r : Z) : matcher := fun s =>
  match s with
  | c :: d :: _ => if (c =? a) && (d =? b) then Some ([r], 2%nat) else None
  | _ => None
  end.

(* br' +\n' -> b'\n' *)
Definition m_sp1_nl : matcher := fun s =>
  match s with
  | c :: r =>
    if c =? SP then
      let '(n, t) := span_p is_sp r in
      match t with
      | d :: _ => if d =? NL then Some ([NL], S (S n)) else None
      | [] => None
      end
    else None
  | [] => None
  end.

(* br'\n *xx' -> b'\n' + ind + b'xx'     (x = '-' or '/') *)
Definition m_nl_sp_xx (x : Z) (ind : list Z) : matcher := fun s =>
  match s with
  | c :: r =>
    if c =? NL then
      let '(n, t) := span_p is_sp r in
      match t with
      | a :: b :: _ => if (a =? x) && (b =? x) then Some (NL :: ind ++ [x; x], S (S (S n))) else None
      | _ => None
      end
    else None
  | [] => None
  end.

(* br'\n *\Z' -> b'\n' + ind *)
Definition m_nl_sp_end (ind : list Z) : matcher := fun s =>
  match s with
  | c :: r =>
    if c =? NL then
      let '(n, t) := span_p is_sp r in
      match t with
      | [] => Some (NL :: ind, S n)
      | _ => None
      end
    else None
  | [] => None
  end.

(* br'\n\n+' -> rep *)
Definition m_nl_nl1 (rep : list Z) : matcher := fun s =>
  match s with
  | c :: r =>
    if c =? NL then
      let '(n, _) := span_p is_nl r in
      match n with
      | S _ => Some (rep, S n)
      | O => None
      end
    else None
  | [] => None
  end.

(* br'[ \n]*\n[ \n]*\Z' -> b'\n' : the span of blanks and line feeds must reach the end of the string and
   hold a line feed (the greedy [ \n]* backtracks to the last line feed of the span) *)
Definition m_spnl_nl_end : matcher := fun s =>
  match s with
  | c :: _ =>
    if is_sp_nl c then
      let '(n, t) := span_p is_sp_nl s in
      match t with
      | [] => if existsb is_nl s then Some ([NL], n) else None
      | _ => None
      end
    else None
  | [] => None
  end.

(* br' +\Z' -> b'' *)
Definition m_sp1_end : matcher := fun s =>
  match s with
  | c :: _ =>
    if c =? SP then
      let '(n, t) := span_p is_sp s in
      match t with
      | [] => Some ([], n)
      | _ => None
      end
    else None
  | [] => None
  end.

(* br'\n +' -> b'\n'   (minifier) *)
Definition m_nl_sp1 : matcher := fun s =>
  match s with
  | c :: r =>
    if c =? NL then
      let '(n, _) := span_p is_sp r in
      match n with
      | S _ => Some ([NL], S n)
      | O => None
      end
    else None
  | [] => None
  end.

(* br'  +' -> b' '     (minifier) *)
Definition m_sp2 : matcher := fun s =>
  let '(n, _) := span_p is_sp s in
  match n with
  | S (S _) => Some ([SP], n)
  | _ => None
  end.

(* ---------- anchored patterns: one attempt at position 0 ---------- *)
(* br'^ *xx' -> rep   (rep is the complete replacement, e.g. b'  --') *)
Definition sub_head_sp_xx (x : Z) (rep : list Z) (s : list Z) : list Z :=
  let '(_, t) := span_p is_sp s in
  match t with
  | a :: b :: t' => if (a =? x) && (b =? x) then rep ++ t' else s
  | _ => s
  end.

(* br'^ *$' -> b'' : the spaces must be followed by the end of the string or by its final newline *)
Definition sub_head_sp_dollar (s : list Z) : list Z :=
  let '(_, t) := span_p is_sp s in
  match t with
  | [] => []
  | [c] => if c =? NL then [NL] else s
  | _ => s
  end.

(* ---------- the formatter pipeline ---------- *)
Record fcfg : Set := mk_fcfg {
  f_at_start : bool;     (* start_pos == 0: the run begins at the first token of the file *)
  f_at_end : bool;       (* self._pos == len(self._tokens) after the run: nothing follows it *)
  f_width : Z;           (* self._indent_mult  (writer argument indentwidth) *)
  f_depth : Z            (* self._indent *)
}.

(* b' ' * self._indent_mult * self._indent  =  (b' ' * mult) * indent; a negative factor gives b'' *)
Definition indent_bytes (cfg : fcfg) : list Z :=
  repeat SP (Z.to_nat (f_width cfg) * Z.to_nat (f_depth cfg)).

Inductive guard : Set := GAlways | GNotStart | GStart | GEnd.

Definition guard_on (g : guard) (cfg : fcfg) : bool :=
  match g with
  | GAlways => true
  | GNotStart => negb (f_at_start cfg)
  | GStart => f_at_start cfg
  | GEnd => f_at_end cfg
  end.

(* the Python text of the guard, as regenerated by gen/kernels_fmt.py *)
Definition guard_src (g : guard) : list Z :=
  match g with
  | GAlways => ""%bs
  | GNotStart => "start_pos != 0"%bs
  | GStart => "start_pos == 0"%bs
  | GEnd => "self._pos == len(self._tokens)"%bs
  end.

Record step : Type := mk_step {
  s_guard : guard;
  s_regex : list Z;                       (* regex source as written in lua.py *)
  s_repl : list Z;                        (* replacement expression as written in lua.py (ast.unparse) *)
  s_fn : fcfg -> list Z -> list Z         (* the scanner that models re.sub(regex, repl, .) *)
}.

Definition fmt_steps : list step := [
  mk_step GAlways "\t"%bs "b' '"%bs (fun _ => resub (m_byte TAB SP) 0);
  mk_step GAlways "\r\n"%bs "b'\n'"%bs (fun _ => resub (m_pair CR NL NL) 0);
  mk_step GAlways "\n\r"%bs "b'\n'"%bs (fun _ => resub (m_pair NL CR NL) 0);
  mk_step GAlways "\r"%bs "b'\n'"%bs (fun _ => resub (m_byte CR NL) 0);
  mk_step GAlways " +\n"%bs "b'\n'"%bs (fun _ => resub m_sp1_nl 0);
  mk_step GNotStart "^ *--"%bs "b'  --'"%bs (fun _ => sub_head_sp_xx DASH [SP; SP; DASH; DASH]);
  mk_step GAlways "\n *--"%bs "b'\n' + b' ' * self._indent_mult * self._indent + b'--'"%bs
          (fun cfg => resub (m_nl_sp_xx DASH (indent_bytes cfg)) 0);
  mk_step GAlways "\n *//"%bs "b'\n' + b' ' * self._indent_mult * self._indent + b'//'"%bs
          (fun cfg => resub (m_nl_sp_xx SLASH (indent_bytes cfg)) 0);
  mk_step GStart "^ *--"%bs "b'--'"%bs (fun _ => sub_head_sp_xx DASH [DASH; DASH]);
  mk_step GStart "^ *//"%bs "b'//'"%bs (fun _ => sub_head_sp_xx SLASH [SLASH; SLASH]);
  mk_step GAlways "\n *\Z"%bs "b'\n' + b' ' * self._indent_mult * self._indent"%bs
          (fun cfg => resub (m_nl_sp_end (indent_bytes cfg)) 0);
  mk_step GStart "^ *$"%bs "b''"%bs (fun _ => sub_head_sp_dollar);
  mk_step GAlways "\n\n+"%bs "b'\n\n'"%bs (fun _ => resub (m_nl_nl1 [NL; NL]) 0);
  mk_step GEnd "[ \n]*\n[ \n]*\Z"%bs "b'\n'"%bs (fun _ => resub m_spnl_nl_end 0);
  mk_step GEnd " +\Z"%bs "b''"%bs (fun _ => resub m_sp1_end 0)
].

Definition run_steps (steps : list step) (cfg : fcfg) (r : list Z) : list Z :=
  fold_left (fun s st => if guard_on (s_guard st) cfg then s_fn st cfg s else s) steps r.

(* LuaFormatterWriter._get_code_for_spaces applied to the joined run [r] *)
Definition fmt_run (cfg : fcfg) (r : list Z) : list Z := run_steps fmt_steps cfg r.

(* ---------- the minifier pipeline ----------
   [r] is the join of the codes of the space and newline tokens of the run (comments left out);
   [edge] = (start_pos == 0) or (self._pos == len(self._tokens)): all white space at the
   beginning and at the end of the code is dropped. *)
Definition min_steps : list step := [
  mk_step GAlways "\t"%bs "b' '"%bs (fun _ => resub (m_byte TAB SP) 0);
  mk_step GAlways "\n +"%bs "b'\n'"%bs (fun _ => resub m_nl_sp1 0);
  mk_step GAlways " +\n"%bs "b'\n'"%bs (fun _ => resub m_sp1_nl 0);
  mk_step GAlways "  +"%bs "b' '"%bs (fun _ => resub m_sp2 0);
  mk_step GAlways "\n\n+"%bs "b'\n'"%bs (fun _ => resub (m_nl_nl1 [NL]) 0)
].

Definition min_cfg : fcfg := mk_fcfg false false 0 0.

Definition min_run (edge : bool) (r : list Z) : list Z :=
  if edge then [] else run_steps min_steps min_cfg r.

(* (guard text, regex source, replacement text) of each step, to be compared with the regenerated rows *)
Definition step_sources (steps : list step) : list (list Z * list Z * list Z) :=
  map (fun st => (guard_src (s_guard st), s_regex st, s_repl st)) steps.
