(* Music (pico8/music/music.py): channels, flags, from_lines / to_lines.
   Regenerated kernels: Generated/K_music.v. *)
From PV Require Import Base.Prelude Base.PySlice Base.Hex Model.HexSection Model.Gfx Model.Gff Generated.K_music.

(* ---- to_lines: for start_i in range(0, len(data), 4) ---- *)
Definition music_line (d : list Z) (start_i : Z) : result (list Z) :=
  (* reads self._data[start_i .. start_i+3]; IndexError when the length is not a multiple of 4 *)
  _ <- py_get d (start_i + 2) ;; _ <- py_get d (start_i + 1) ;; _ <- py_get d start_i ;;
  _ <- py_get d (start_i + 3) ;;
  let a := arr d in
  let flags := mus_tl_flags (mus_tl_fstop a start_i) (mus_tl_frepeat a start_i) (mus_tl_fnext a start_i) in
  f <- mk_bytes [flags] ;;
  c <- mk_bytes [mus_tl_chan1 a start_i; mus_tl_chan2 a start_i; mus_tl_chan3 a start_i; mus_tl_chan4 a start_i] ;;
  Ok (to_hex f ++ [32] ++ to_hex c ++ [10]).

Definition music_to_lines (d : list Z) : result (list (list Z)) :=
  mapM (fun k => music_line d (4 * k)) (upto ((zlen d + 3) / 4)).

(* ---- from_lines ---- *)
Fixpoint split_on (sep : Z) (cur : list Z) (l : list Z) : list (list Z) :=
  match l with
  | [] => [rev cur]
  | c :: r => if c =? sep then rev cur :: split_on sep [] r else split_on sep (c :: cur) r
  end.

(* bytes.fromhex(str(x, encoding='ascii')) *)
Definition hexfield (x : list Z) : result (list Z) := s <- to_ascii x ;; fromhex s.
Definition first_of (l : list Z) : result Z := match l with v :: _ => Ok v | [] => Err IndexError end.
Definition arr1 (v : Z) : Z -> Z := fun _ => v.

Definition music_read_line (line : list Z) : result (list Z) :=
  match split_on 32 [] line with
  | [flagstr; chanstr] =>
    fb <- hexfield flagstr ;; flags <- first_of fb ;;
    let fstop := mus_fl_fstop flags in
    let frepeat := mus_fl_frepeat flags in
    let fnext := mus_fl_fnext flags in
    c1 <- hexfield (py_slice chanstr 0 2) ;; c2 <- hexfield (py_slice chanstr 2 4) ;;
    c3 <- hexfield (py_slice chanstr 4 6) ;; c4 <- hexfield (py_slice chanstr 6 8) ;;
    v1 <- first_of c1 ;; b1 <- mk_bytes [mus_fl_b1 (arr1 v1) fnext] ;;
    v2 <- first_of c2 ;; b2 <- mk_bytes [mus_fl_b2 (arr1 v2) frepeat] ;;
    v3 <- first_of c3 ;; b3 <- mk_bytes [mus_fl_b3 (arr1 v3) fstop] ;;
    v4 <- first_of c4 ;; b4 <- mk_bytes [mus_fl_b4 (arr1 v4)] ;;
    Ok (b1 ++ b2 ++ b3 ++ b4)
  | _ => Err ValueError       (* flagstr, chanstr = line.split(b' '): wrong number of values *)
  end.

Definition has_space (l : list Z) : bool := existsb (fun c => c =? 32) l.

Fixpoint music_from_lines (lines : list (list Z)) : result (list Z) :=
  match lines with
  | [] => Ok []
  | l :: r =>
    if has_space l
    then a <- music_read_line l ;; b <- music_from_lines r ;; Ok (a ++ b)
    else music_from_lines r
  end.

(* ---- accessors ---- *)
Definition music_get_channel (d : list Z) (id channel : Z) : result (option Z) :=
  _ <- assert_ (mus_gc_assert_id id) ;;
  _ <- assert_ (mus_gc_assert_ch channel) ;;
  _ <- py_get d (id * 4 + channel) ;;
  let pattern := mus_gc_pattern (arr d) id channel in
  Ok (if mus_gc_silent pattern then None else Some pattern).

Definition music_set_channel (d : list Z) (id channel : Z) (pattern : option Z) : result (list Z) :=
  _ <- assert_ (mus_sc_assert_id id) ;;
  _ <- assert_ (mus_sc_assert_ch channel) ;;
  _ <- assert_ (mus_sc_assert_pat (match pattern with None => true | Some _ => false end)
                                  (match pattern with Some p => p | None => 0 end)) ;;
  let p := match pattern with Some p => p | None => mus_sc_silent channel end in
  _ <- py_get d (mus_sc_idx id channel) ;;
  py_set_byte d (mus_sc_idx id channel) (mus_sc_val (arr d) id channel p).

Definition music_get_properties (d : list Z) (id : Z) : result (bool * bool * bool) :=
  _ <- assert_ (mus_gp_assert id) ;;
  _ <- py_get d (id * 4) ;; _ <- py_get d (id * 4 + 1) ;; _ <- py_get d (id * 4 + 2) ;;
  Ok (mus_gp_begin (arr d) id, mus_gp_end (arr d) id, mus_gp_stop (arr d) id).

Definition set_flag (d : list Z) (i : Z) (v : option bool) (f : (Z -> Z) -> Z -> bool -> Z) (id : Z)
  : result (list Z) :=
  match v with
  | None => Ok d
  | Some b => _ <- py_get d i ;; py_set_byte d i (f (arr d) id b)
  end.

Definition music_set_properties (d : list Z) (id : Z) (begin_ end_ stop : option bool) : result (list Z) :=
  d1 <- set_flag d (mus_sp_idx_0 id) begin_ mus_sp_val_0 id ;;
  d2 <- set_flag d1 (mus_sp_idx_1 id) end_ mus_sp_val_1 id ;;
  set_flag d2 (mus_sp_idx_2 id) stop mus_sp_val_2 id.
