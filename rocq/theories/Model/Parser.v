(* Executable model of pico8/lua/parser.py (class Parser): recursive descent with
   backtracking on an explicit cursor, white-space skipping _accept with the _max_pos fence
   of the PICO-8 short-if, every parse function with the alternative order of the Python
   code, the same node classes / fields / (start, end) token positions.

   State: (_pos, _max_pos).  Backtracking (`self._pos = pos`) restores the cursor only, as in
   Python; `_max_pos` is restored to its previous value by the `finally:` of the short-if branch
   (so an inner short-if does not remove the fence of an outer one).  Exceptions are values; they are never
   caught inside the parser, so the state after an error is irrelevant.

   Recursion: the functions are defined once, non-recursively, over a record [funs] of the
   functions "one level down"; [level n] iterates that definition n times starting from
   functions that return Err OutOfFuel.  Every loop of the Python code is one record entry
   (one level per iteration).  Proofs/ParserProofs.v shows that [fuel_for ts] levels suffice.

   Besides the Python-visible fields the trees carry hidden entries (Kw / Paren / Hid, see
   Spec/LuaTokens.v) for every accepted token that the Python objects do not store; the
   dump compared with the implementation ignores them.

   Truthiness note: `if self._accept(p):` (used in _stat for the step comma and the
   assignment operators, in _args, _function, _field) tests the token's truth value, which
   is len(token.code) > 0 because Token defines __len__.  All these patterns are instances
   with non-empty data and a non-string token's code is its data, so truthiness coincides
   with `is not None`; the model uses the latter. *)
From PV Require Import Base.Prelude Base.PySlice Model.Tokens.

Definition pst : Set := (Z * option Z)%type.          (* (_pos, _max_pos) *)
Definition M (A : Type) : Type := pst -> result (A * pst).

Definition ret {A} (a : A) : M A := fun st => Ok (a, st).
Definition bindM {A B} (m : M A) (f : A -> M B) : M B :=
  fun st => match m st with Ok (a, st') => f a st' | Err e => Err e end.
Definition raise {A} (e : err) : M A := fun _ => Err e.
Definition get_pos : M Z := fun st => Ok (fst st, st).
Definition set_pos (p : Z) : M unit := fun st => Ok (tt, (p, snd st)).
Definition set_max (m : option Z) : M unit := fun st => Ok (tt, (fst st, m)).
Definition get_max : M (option Z) := fun st => Ok (snd st, st).

Declare Scope pm_scope.
Delimit Scope pm_scope with pm.
Notation "x <- r ;; k" := (bindM r (fun x => k))
  (at level 61, r at next level, right associativity) : pm_scope.
Notation "' p <- r ;; k" := (bindM r (fun p => k))
  (at level 61, p pattern, r at next level, right associativity) : pm_scope.
Open Scope pm_scope.

(* the functions one level down *)
Record funs : Type := mkFuns {
  r_exp : M tree;                       (* _exp *)
  r_chunk : M tree;                     (* _chunk *)
  r_semis : M (list tree);              (* while self._accept(';') is not None *)
  r_stats_loop : M (list tree);         (* the statement loop of _chunk *)
  r_namelist_loop : M (list tree);
  r_funcname_loop : M (list tree);
  r_explist_loop : M (list tree);
  r_varlist_loop : M (list tree);
  r_fields_loop : M (list tree);
  r_elseif_loop : M (list tree);
  r_precur : tree -> M tree;            (* _prefixexp_recur *)
  r_binop : tree -> M tree              (* _exp_binop *)
}.

Section Parser.
Variable ts : list token.
Variable binops unops : list pat.       (* BINOP_PATS, UNOP_PATS (regenerated) *)

(* ---------- _accept / _expect / _assert ---------- *)
Fixpoint skip_ws (p : pat) (l : list token) (i : Z) : Z * option token :=
  match l with
  | [] => (i, None)
  | t :: r => if matches t p || negb (is_trivia t) then (i, Some t) else skip_ws p r (i + 1)
  end.

Definition fence_ok (m : option Z) (i : Z) : bool :=
  match m with None => true | Some x => i <? x end.

Definition accept (p : pat) : M (option (Z * token)) := fun st =>
  let '(i, cur) := skip_ws p (skipn (Z.to_nat (fst st)) ts) (fst st) in
  match cur with
  | Some t => if matches t p && fence_ok (snd st) i
              then Ok (Some (i, t), (i + 1, snd st)) else Ok (None, st)
  | None => Ok (None, st)
  end.

Definition expect (p : pat) : M (Z * token) :=
  a <- accept p ;; match a with Some x => ret x | None => raise ParserError end.

Definition assert_node (v : tree) : M tree :=
  if is_none v then raise ParserError else ret v.

(* for pat in PATS: tok = self._accept(pat); if tok is not None: break *)
Fixpoint accept_first (ps : list pat) : M (option (Z * token)) :=
  match ps with
  | [] => ret None
  | p :: r => a <- accept p ;; match a with Some x => ret (Some x) | None => accept_first r end
  end.

(* Cls(fields..., start=s, end=self._pos) *)
Definition mk (tag s : Z) (fields : list tree) : M tree :=
  e <- get_pos ;; ret (Node tag s e false fields).

Fixpoint find_newline (l : list token) (i : Z) : Z :=
  match l with
  | [] => i
  | t :: r => if is_newline t then i else find_newline r (i + 1)
  end.

(* index of the first newline token at or after ee (len(tokens) if there is none) *)
Definition newline_after (ee : Z) : Z := find_newline (skipn (Z.to_nat ee) ts) ee.

Definition hidden_of (t : tree) : list tree :=
  match strip_paren t with Node _ _ _ _ fs => filter is_hidden fs | _ => [] end.

(* node.value of an ExpValue / node.stats of a Chunk: the first Python field *)
Definition first_field (t : tree) : tree :=
  match strip_paren t with
  | Node _ _ _ _ fs => match visible fs with v :: _ => v | [] => PNone end
  | _ => PNone
  end.

Definition chunk_has_stats (t : tree) : bool :=
  match first_field t with Lst l => match visible l with [] => false | _ => true end | _ => false end.

Definition is_var (t : tree) : bool :=
  let g := tag_of t in (g =? tVarName) || (g =? tVarAttribute) || (g =? tVarIndex).

Definition is_call (t : tree) : bool :=
  let g := tag_of t in (g =? tFunctionCall) || (g =? tFunctionCallMethod).

(* a result that counts as None for Python but consumed tokens (`()`) is kept as a hidden entry *)
Definition hid_list (p : tree) : list tree :=
  match p with PNone => [] | _ => [Hid p] end.

Definition opt_tok (a : option (Z * token)) : tree :=
  match a with Some (i, t) => Tok i t | None => PNone end.

Section Level.
Variable R : funs.

(* ---------- loops of accepts ---------- *)
Definition semis_def : M (list tree) :=
  a <- accept (psym ";"%bs) ;;
  match a with
  | Some (i, _) => r <- r_semis R ;; ret (Kw i :: r)
  | None => ret []
  end.

Definition namelist_loop_def : M (list tree) :=
  last <- get_pos ;;
  c <- accept (psym ","%bs) ;;
  match c with
  | None => ret []
  | Some (ci, _) =>
    n <- accept (PClass CName) ;;
    match n with
    | None => _ <- set_pos last ;; ret []        (* don't eat the trailing separator *)
    | Some (ni, nt) => r <- r_namelist_loop R ;; ret (Kw ci :: Tok ni nt :: r)
    end
  end.

Definition namelist_def : M tree :=
  pos <- get_pos ;;
  n <- accept (PClass CName) ;;
  match n with
  | None => ret PNone
  | Some (ni, nt) => r <- namelist_loop_def ;; mk tNameList pos [Lst (Tok ni nt :: r)]
  end.

Definition funcname_loop_def : M (list tree) :=
  d <- accept (psym "."%bs) ;;
  match d with
  | None => ret []
  | Some (di, _) =>
    '(ni, nt) <- expect (PClass CName) ;;
    r <- r_funcname_loop R ;; ret (Kw di :: Tok ni nt :: r)
  end.

Definition funcname_def : M tree :=
  pos <- get_pos ;;
  n <- accept (PClass CName) ;;
  match n with
  | None => ret PNone
  | Some (ni, nt) =>
    r <- funcname_loop_def ;;
    c <- accept (psym ":"%bs) ;;
    match c with
    | Some (ci, _) =>
      '(mi, mt) <- expect (PClass CName) ;;
      mk tFunctionName pos [Lst (Tok ni nt :: r); Kw ci; Tok mi mt]
    | None => mk tFunctionName pos [Lst (Tok ni nt :: r); PNone]
    end
  end.

(* ---------- expressions ---------- *)
Definition explist_loop_def : M (list tree) :=
  c <- accept (psym ","%bs) ;;
  match c with
  | None => ret []
  | Some (ci, _) =>
    e <- r_exp R ;; e <- assert_node e ;;
    r <- r_explist_loop R ;; ret (Kw ci :: e :: r)
  end.

Definition explist_def : M tree :=
  pos <- get_pos ;;
  e <- r_exp R ;;
  if is_none e then _ <- set_pos pos ;; ret PNone
  else r <- explist_loop_def ;; mk tExpList pos [Lst (e :: r)].

Definition field_def : M tree :=
  pos <- get_pos ;;
  b <- accept (psym "["%bs) ;;
  match b with
  | Some (bi, _) =>
    k <- r_exp R ;; k <- assert_node k ;;
    '(ci, _) <- expect (psym "]"%bs) ;;
    '(qi, _) <- expect (psym "="%bs) ;;
    e <- r_exp R ;; e <- assert_node e ;;
    mk tFieldExpKey pos [Kw bi; k; Kw ci; Kw qi; e]
  | None =>
    n <- accept (PClass CName) ;;
    q <- match n with Some _ => accept (psym "="%bs) | None => ret None end ;;
    match n, q with
    | Some (ni, nt), Some (qi, _) =>
      e <- r_exp R ;; e <- assert_node e ;;
      mk tFieldNamedKey pos [Tok ni nt; Kw qi; e]
    | _, _ =>
      _ <- set_pos pos ;;
      e <- r_exp R ;;
      if is_none e then ret e      (* None (no reset of the cursor) *)
      else mk tFieldExp pos [e]
    end
  end.

Definition fields_loop_def : M (list tree) :=
  c <- accept (psym ","%bs) ;;
  c <- match c with Some x => ret (Some x) | None => accept (psym ";"%bs) end ;;
  match c with
  | None => ret []
  | Some (ci, _) =>
    f <- field_def ;;
    if is_none f then ret [Kw ci; Hid f]
    else r <- r_fields_loop R ;; ret (Kw ci :: f :: r)
  end.

Definition tableconstructor_def : M tree :=
  pos <- get_pos ;;
  o <- accept (psym "{"%bs) ;;
  match o with
  | None => ret PNone
  | Some (oi, _) =>
    f <- field_def ;;
    r <- fields_loop_def ;;
    '(ci, _) <- expect (psym "}"%bs) ;;
    mk tTableConstructor pos [Kw oi; Lst ((if is_none f then [Hid f] else [f]) ++ r); Kw ci]
  end.

Definition args_def : M tree :=
  pos <- get_pos ;;
  o <- accept (psym "("%bs) ;;
  match o with
  | Some (oi, _) =>
    el <- explist_def ;;
    '(ci, _) <- expect (psym ")"%bs) ;;
    mk tFunctionArgs pos [Kw oi; el; Kw ci]
  | None =>
    t <- tableconstructor_def ;;
    if negb (is_none t) then ret t else
    s <- accept (PClass CString) ;;
    ret (opt_tok s)
  end.

Definition funcbody_def : M tree :=
  pos <- get_pos ;;
  o <- accept (psym "("%bs) ;;
  match o with
  | None => ret PNone
  | Some (oi, _) =>
    nl <- namelist_def ;;
    dots <- (if negb (is_none nl) then
               c <- accept (psym ","%bs) ;;
               match c with
               | Some (ci, _) =>
                 dp <- get_pos ;;
                 '(di, _) <- expect (psym "..."%bs) ;;
                 d <- mk tVarargDots dp [Kw di] ;; ret [Kw ci; d]
               | None => ret [PNone]
               end
             else
               dp <- get_pos ;;
               d <- accept (psym "..."%bs) ;;
               match d with
               | Some (di, _) => d <- mk tVarargDots dp [Kw di] ;; ret [d]
               | None => ret [PNone]
               end) ;;
    '(ci, _) <- expect (psym ")"%bs) ;;
    b <- r_chunk R ;; b <- assert_node b ;;
    '(ei, _) <- expect (pkw "end"%bs) ;;
    mk tFunctionBody pos ([Kw oi; nl] ++ dots ++ [Kw ci; b; Kw ei])
  end.

Definition function_def : M tree :=
  pos <- get_pos ;;
  f <- accept (pkw "function"%bs) ;;
  match f with
  | Some (fi, _) => b <- funcbody_def ;; b <- assert_node b ;; mk tFunction pos [Kw fi; b]
  | None => ret PNone
  end.

Definition precur_def (first : tree) : M tree :=
  pos <- get_pos ;;
  b <- accept (psym "["%bs) ;;
  match b with
  | Some (bi, _) =>
    e <- r_exp R ;; e <- assert_node e ;;
    '(ci, _) <- expect (psym "]"%bs) ;;
    n <- mk tVarIndex pos [first; Kw bi; e; Kw ci] ;; r_precur R n
  | None =>
    d <- accept (psym "."%bs) ;;
    match d with
    | Some (di, _) =>
      '(ni, nt) <- expect (PClass CName) ;;
      n <- mk tVarAttribute pos [first; Kw di; Tok ni nt] ;; r_precur R n
    | None =>
      a <- args_def ;;
      if negb (is_none a) then n <- mk tFunctionCall pos [first; a] ;; r_precur R n else
      c <- accept (psym ":"%bs) ;;
      match c with
      | Some (ci, _) =>
        '(ni, nt) <- expect (PClass CName) ;;
        a <- args_def ;; a <- assert_node a ;;
        n <- mk tFunctionCallMethod pos [first; Kw ci; Tok ni nt; a] ;; r_precur R n
      | None => ret first
      end
    end
  end.

Definition prefixexp_def : M tree :=
  pos <- get_pos ;;
  n <- accept (PClass CName) ;;
  match n with
  | Some (ni, nt) => v <- mk tVarName pos [Tok ni nt] ;; precur_def v
  | None =>
    o <- accept (psym "("%bs) ;;
    match o with
    | Some (oi, _) =>
      e <- r_exp R ;;                       (* (exp can be None.) *)
      '(ci, _) <- expect (psym ")"%bs) ;;
      precur_def (Paren oi ci e)
    | None => ret PNone
    end
  end.

Definition exp_term_def : M tree :=
  pos <- get_pos ;;
  a <- accept (pkw "nil"%bs) ;;
  match a with Some (i, _) => mk tExpValue pos [Kw i; PNone] | None =>
  a <- accept (pkw "false"%bs) ;;
  match a with Some (i, _) => mk tExpValue pos [Kw i; PBool false] | None =>
  a <- accept (pkw "true"%bs) ;;
  match a with Some (i, _) => mk tExpValue pos [Kw i; PBool true] | None =>
  a <- accept (PClass CNumber) ;;
  match a with Some (i, t) => mk tExpValue pos [Tok i t] | None =>
  a <- accept (PClass CString) ;;
  match a with Some (i, t) => mk tExpValue pos [Tok i t] | None =>
  a <- accept (psym "..."%bs) ;;
  match a with Some (i, _) => mk tVarargDots pos [Kw i] | None =>
  f <- function_def ;;
  if negb (is_none f) then mk tExpValue pos [f] else
  p <- prefixexp_def ;;
  if negb (is_none p) then mk tExpValue pos [p] else
  (* p is None; if it is `()` the cursor stays behind the parentheses *)
  let hid := hid_list p in
  t <- tableconstructor_def ;;
  if negb (is_none t) then mk tExpValue pos (hid ++ [t]) else
  u <- accept_first unops ;;
  match u with
  | None => ret p
  | Some (ui, ut) =>
    e <- r_exp R ;; e <- assert_node e ;;
    mk tExpUnOp pos (hid ++ [Tok ui ut; e])
  end
  end end end end end end.

Definition binop_def (first : tree) : M tree :=
  pos <- get_pos ;;
  b <- accept_first binops ;;
  match b with
  | Some (bi, bt) =>
    s <- exp_term_def ;; s <- assert_node s ;;
    n <- mk tExpBinOp pos [first; Tok bi bt; s] ;; r_binop R n
  | None => _ <- set_pos pos ;; ret first
  end.

Definition exp_def : M tree :=
  t <- exp_term_def ;;
  if is_none t then ret t else binop_def t.

(* ---------- variables, calls ---------- *)
Definition var_def : M tree :=
  p <- prefixexp_def ;;
  if is_var p then ret p else ret PNone.

Definition varlist_loop_def : M (list tree) :=
  c <- accept (psym ","%bs) ;;
  match c with
  | None => ret []
  | Some (ci, _) =>
    v <- var_def ;; v <- assert_node v ;;
    r <- r_varlist_loop R ;; ret (Kw ci :: v :: r)
  end.

Definition varlist_def : M tree :=
  pos <- get_pos ;;
  v <- var_def ;;
  if is_none v then ret PNone
  else r <- varlist_loop_def ;; mk tVarList pos [Lst (v :: r)].

Definition functioncall_def : M tree :=
  pos <- get_pos ;;
  f <- prefixexp_def ;;
  if is_call f then ret f else _ <- set_pos pos ;; ret PNone.

(* ---------- statements ---------- *)
Definition assign_ops : list pat :=
  [psym "="%bs; psym "+="%bs; psym "-="%bs; psym "*="%bs; psym "/="%bs; psym "%="%bs; psym "..="%bs].

Definition elseif_loop_def : M (list tree) :=
  a <- accept (pkw "elseif"%bs) ;;
  match a with
  | None => ret []
  | Some (ai, _) =>
    e <- r_exp R ;;
    '(ti, _) <- expect (pkw "then"%bs) ;;
    b <- r_chunk R ;; b <- assert_node b ;;
    r <- r_elseif_loop R ;; ret (Kw ai :: Lst [e; Kw ti; b] :: r)
  end.

(* after `if` (token ii) was accepted at a statement starting at pos *)
Definition if_def (pos ii : Z) : M tree :=
  e <- r_exp R ;;
  then_pos <- get_pos ;;
  t1 <- accept (pkw "then"%bs) ;;
  t2 <- match t1 with None => accept (pkw "do"%bs) | Some _ => ret None end ;;
  short <- match t1, t2 with
           | None, None =>
             match end_of e with
             | None => raise AttributeError            (* exp is None *)
             | Some ee =>
               if ee - 1 <? 0 then raise IndexError else
               match nth_error ts (Z.to_nat (ee - 1)) with
               | Some t => ret (if tok_eqb t (mkTok CSymbol 0 ")"%bs ")"%bs) then Some ee else None)
               | None => raise IndexError
               end
             end
           | _, _ => ret None
           end ;;
  match short with
  | Some ee =>
    (* PICO-8 short form: the body may not pass the next newline token *)
    prev <- get_max ;;
    _ <- set_max (Some (newline_after ee)) ;;
    b <- r_chunk R ;; b <- assert_node b ;;
    el <- accept (pkw "else"%bs) ;;
    ep <- match el with
          | Some (ei, _) =>
            eb <- r_chunk R ;;
            ret (if chunk_has_stats eb then [Kw ei; Lst [PNone; eb]] else [Kw ei; Hid eb])
          | None => ret []
          end ;;
    _ <- set_max prev ;;                               (* finally: self._max_pos = prev_max_pos *)
    if tag_of e =? tExpValue then
      en <- get_pos ;;
      ret (Node tStatIf pos en true [Kw ii; Lst (Lst (hidden_of e ++ [first_field e; b]) :: ep)])
    else raise AttributeError                          (* exp.value *)
  | None =>
    _ <- set_pos then_pos ;;
    d <- accept (pkw "do"%bs) ;;
    ti <- match d with
          | Some (di, _) => ret di
          | None => '(ti, _) <- expect (pkw "then"%bs) ;; ret ti
          end ;;
    b <- r_chunk R ;; b <- assert_node b ;;
    r <- elseif_loop_def ;;
    el <- accept (pkw "else"%bs) ;;
    ep <- match el with
          | Some (ei, _) => eb <- r_chunk R ;; eb <- assert_node eb ;; ret [Kw ei; Lst [PNone; eb]]
          | None => ret []
          end ;;
    '(ni, _) <- expect (pkw "end"%bs) ;;
    mk tStatIf pos [Kw ii; Lst (Lst [e; Kw ti; b] :: r ++ ep); Kw ni]
  end.

Definition for_def (pos fi : Z) : M tree :=
  for_pos <- get_pos ;;
  n <- accept (PClass CName) ;;
  q <- accept (psym "="%bs) ;;
  match q with
  | Some (qi, _) =>
    i <- r_exp R ;; i <- assert_node i ;;
    '(c1, _) <- expect (psym ","%bs) ;;
    e <- r_exp R ;; e <- assert_node e ;;
    c2 <- accept (psym ","%bs) ;;
    stp <- match c2 with
           | Some (c2i, _) => s <- r_exp R ;; s <- assert_node s ;; ret [Kw c2i; s]
           | None => ret [PNone]
           end ;;
    '(di, _) <- expect (pkw "do"%bs) ;;
    b <- r_chunk R ;; b <- assert_node b ;;
    '(ei, _) <- expect (pkw "end"%bs) ;;
    mk tStatForStep pos ([Kw fi; opt_tok n; Kw qi; i; Kw c1; e] ++ stp ++ [Kw di; b; Kw ei])
  | None =>
    _ <- set_pos for_pos ;;
    nl <- namelist_def ;; nl <- assert_node nl ;;
    '(ini, _) <- expect (pkw "in"%bs) ;;
    el <- explist_def ;; el <- assert_node el ;;
    '(di, _) <- expect (pkw "do"%bs) ;;
    b <- r_chunk R ;; b <- assert_node b ;;
    '(ei, _) <- expect (pkw "end"%bs) ;;
    mk tStatForIn pos [Kw fi; nl; Kw ini; el; Kw di; b; Kw ei]
  end.

Definition local_def (pos li : Z) : M tree :=
  f <- accept (pkw "function"%bs) ;;
  match f with
  | Some (fi, _) =>
    '(ni, nt) <- expect (PClass CName) ;;
    b <- funcbody_def ;; b <- assert_node b ;;
    mk tStatLocalFunction pos [Kw li; Kw fi; Tok ni nt; b]
  | None =>
    nl <- namelist_def ;; nl <- assert_node nl ;;
    q <- accept (psym "="%bs) ;;
    match q with
    | Some (qi, _) =>
      el <- explist_def ;; el <- assert_node el ;;
      mk tStatLocalAssignment pos [Kw li; nl; Kw qi; el]
    | None => mk tStatLocalAssignment pos [Kw li; nl; PNone]
    end
  end.

Definition stat_def : M tree :=
  pos <- get_pos ;;
  vl <- varlist_def ;;
  asg <- (if is_none vl then ret None else
          op <- accept_first assign_ops ;;
          match op with
          | Some (oi, ot) =>
            el <- explist_def ;; el <- assert_node el ;;
            n <- mk tStatAssignment pos [vl; Tok oi ot; el] ;; ret (Some n)
          | None => ret None
          end) ;;
  match asg with Some n => ret n | None =>
  _ <- set_pos pos ;;
  fc <- functioncall_def ;;
  if negb (is_none fc) then mk tStatFunctionCall pos [fc] else
  _ <- set_pos pos ;;
  a <- accept (pkw "do"%bs) ;;
  match a with
  | Some (di, _) =>
    b <- r_chunk R ;; b <- assert_node b ;;
    '(ei, _) <- expect (pkw "end"%bs) ;;
    mk tStatDo pos [Kw di; b; Kw ei]
  | None =>
  a <- accept (pkw "while"%bs) ;;
  match a with
  | Some (wi, _) =>
    e <- r_exp R ;; e <- assert_node e ;;
    '(di, _) <- expect (pkw "do"%bs) ;;
    b <- r_chunk R ;; b <- assert_node b ;;
    '(ei, _) <- expect (pkw "end"%bs) ;;
    mk tStatWhile pos [Kw wi; e; Kw di; b; Kw ei]
  | None =>
  a <- accept (pkw "repeat"%bs) ;;
  match a with
  | Some (ri, _) =>
    b <- r_chunk R ;; b <- assert_node b ;;
    '(ui, _) <- expect (pkw "until"%bs) ;;
    e <- r_exp R ;; e <- assert_node e ;;
    mk tStatRepeat pos [Kw ri; b; Kw ui; e]
  | None =>
  a <- accept (pkw "if"%bs) ;;
  match a with
  | Some (ii, _) => if_def pos ii
  | None =>
  a <- accept (pkw "for"%bs) ;;
  match a with
  | Some (fi, _) => for_def pos fi
  | None =>
  a <- accept (pkw "function"%bs) ;;
  match a with
  | Some (fi, _) =>
    fnm <- funcname_def ;; fnm <- assert_node fnm ;;
    b <- funcbody_def ;; b <- assert_node b ;;
    mk tStatFunction pos [Kw fi; fnm; b]
  | None =>
  a <- accept (pkw "local"%bs) ;;
  match a with
  | Some (li, _) => local_def pos li
  | None =>
  a <- accept (pkw "goto"%bs) ;;
  match a with
  | Some (gi, _) =>
    '(li, lt) <- expect (PClass CName) ;;
    mk tStatGoto pos [Kw gi; Hid (Tok li lt); PBytes (tdata lt)]
  | None =>
  a <- accept (PClass CLabel) ;;
  match a with
  | Some (li, lt) =>
    mk tStatLabel pos [Hid (Tok li lt); PBytes (py_slice (tdata lt) 2 (-2))]   (* label.value[2:-2] *)
  | None =>
    _ <- set_pos pos ;; ret PNone
  end end end end end end end end end end.

Definition laststat_def : M tree :=
  pos <- get_pos ;;
  a <- accept (pkw "break"%bs) ;;
  match a with
  | Some (bi, _) => mk tStatBreak pos [Kw bi]
  | None =>
    a <- accept (pkw "return"%bs) ;;
    match a with
    | Some (ri, _) => el <- explist_def ;; mk tStatReturn pos [Kw ri; el]
    | None => _ <- set_pos pos ;; ret PNone
    end
  end.

Definition stats_loop_def : M (list tree) :=
  sm <- semis_def ;;
  s <- stat_def ;;
  if is_none s then
    (* break is an ordinary statement (Lua 5.2): it may be followed by others *)
    bp <- get_pos ;;
    b <- accept (pkw "break"%bs) ;;
    match b with
    | None => ret sm
    | Some (bi, _) => n <- mk tStatBreak bp [Kw bi] ;; r <- r_stats_loop R ;; ret (sm ++ n :: r)
    end
  else r <- r_stats_loop R ;; ret (sm ++ s :: r).

Definition chunk_def : M tree :=
  pos <- get_pos ;;
  l <- stats_loop_def ;;
  sm1 <- semis_def ;;
  ls <- laststat_def ;;
  sm2 <- semis_def ;;
  mk tChunk pos [Lst (l ++ sm1 ++ (if is_none ls then [] else [ls]) ++ sm2)].

Definition step : funs :=
  {| r_exp := exp_def; r_chunk := chunk_def; r_semis := semis_def; r_stats_loop := stats_loop_def;
     r_namelist_loop := namelist_loop_def; r_funcname_loop := funcname_loop_def;
     r_explist_loop := explist_loop_def; r_varlist_loop := varlist_loop_def;
     r_fields_loop := fields_loop_def; r_elseif_loop := elseif_loop_def;
     r_precur := precur_def; r_binop := binop_def |}.

End Level.

Definition oof {A} : M A := fun _ => Err OutOfFuel.

Definition bottom : funs :=
  {| r_exp := oof; r_chunk := oof; r_semis := oof; r_stats_loop := oof;
     r_namelist_loop := oof; r_funcname_loop := oof; r_explist_loop := oof; r_varlist_loop := oof;
     r_fields_loop := oof; r_elseif_loop := oof; r_precur := fun _ => oof; r_binop := fun _ => oof |}.

Fixpoint level (n : nat) : funs :=
  match n with O => bottom | S k => step (level k) end.

(* process_tokens: self._pos = 0; self._ast = self._assert(self._chunk(), ...); no end-of-input check.
   Returns the root and the final cursor. *)
Definition parse_with_fuel (n : nat) : result (tree * Z) :=
  match r_chunk (level n) (0, None) with
  | Ok (t, st) => if is_none t then Err ParserError else Ok (t, fst st)
  | Err e => Err e
  end.

Definition fuel_for : nat := S (S (length ts)).

Definition parse : result (tree * Z) := parse_with_fuel fuel_for.

End Parser.
