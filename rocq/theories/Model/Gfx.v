(* Gfx (pico8/gfx/gfx.py): from_lines / to_lines / get_sprite / set_sprite.
   Regenerated kernels: Generated/K_gfx.v. *)
From PV Require Import Base.Prelude Base.PySlice Base.Hex Model.HexSection Generated.K_gfx.

Definition gfx_line (c : list Z) : list Z := to_hex (map gfx_to_lines_swap c) ++ [10].

Definition gfx_to_lines (d : list Z) : list (list Z) :=
  map gfx_line (chunks (Z.to_nat gfx_hex_line_bytes) d).

(* for i in range(0, 128, 2): swap larray[i], larray[i+1] *)
Fixpoint swap_pairs (n : nat) (l : list Z) : result (list Z) :=
  match n with
  | O => Ok l
  | S k => match l with
           | a :: b :: r => x <- swap_pairs k r ;; Ok (b :: a :: x)
           | _ => Err IndexError
           end
  end.

Definition gfx_line_to_bytes (line : list Z) : result (list Z) :=
  larray <- swap_pairs 64 (rstrip line) ;; s <- to_ascii larray ;; fromhex s.

Fixpoint gfx_from_lines (lines : list (list Z)) : result (list Z) :=
  match lines with
  | [] => Ok []
  | l :: r =>
    if zlen l =? 129
    then a <- gfx_line_to_bytes l ;; b <- gfx_from_lines r ;; Ok (a ++ b)
    else gfx_from_lines r
  end.

(* ---- get_sprite ---- *)
Definition gs_pixel (d : list Z) (ty y_offset tx x_offset : Z) : result Z :=
  b <- py_get d (gs_data_loc ty y_offset tx x_offset) ;;
  Ok (if gs_even x_offset then gs_lo b else gs_hi b).

Fixpoint mapM {A B} (f : A -> result B) (l : list A) : result (list B) :=
  match l with
  | [] => Ok []
  | x :: r => y <- f x ;; ys <- mapM f r ;; Ok (y :: ys)
  end.

Definition range (lo n : Z) : list Z := map (fun k => lo + k) (upto n).

Definition gs_tile_row (d : list Z) (ty y_offset tx : Z) : result (list Z) :=
  if gs_offedge tx ty then Ok (repeat 0 8)
  else mapM (gs_pixel d ty y_offset tx) (upto 8).

Definition gs_row (d : list Z) (ty y_offset first_col tile_width : Z) : result (list Z) :=
  parts <- mapM (gs_tile_row d ty y_offset) (range first_col tile_width) ;; Ok (concat parts).

Definition get_sprite (d : list Z) (id tile_width tile_height : Z) : result (list (list Z)) :=
  _ <- assert_ (gs_assert_id id) ;;
  _ <- assert_ (gs_assert_w tile_width) ;;
  _ <- assert_ (gs_assert_h tile_height) ;;
  let r0 := gs_first_row id in
  let c0 := gs_first_col id in
  rows <- mapM (fun ty => mapM (fun yo => gs_row d ty yo c0 tile_width) (upto 8)) (range r0 tile_height) ;;
  Ok (concat rows).

(* ---- set_sprite ---- *)
Definition ss_pixel (fx fy : Z) (y : Z) (d : list Z) (xv : Z * Z) : result (list Z) :=
  let '(x, val) := xv in
  if ss_skip val fy y fx x then Ok d
  else
    let loc := ss_data_loc fy y fx x in
    b <- py_get d loc ;;
    let b' := if ss_even fx x then ss_b_even b val else ss_b_odd b val in
    py_set_byte d loc b'.

Fixpoint foldM {A S} (f : S -> A -> result S) (l : list A) (s : S) : result S :=
  match l with
  | [] => Ok s
  | x :: r => s' <- f s x ;; foldM f r s'
  end.

Fixpoint enumerate_from {A} (i : Z) (l : list A) : list (Z * A) :=
  match l with [] => [] | x :: r => (i, x) :: enumerate_from (i + 1) r end.

Definition set_sprite (d : list Z) (id : Z) (sprite : list (list Z)) (tile_x_offset tile_y_offset : Z)
  : result (list Z) :=
  let fx := ss_first_x (ss_first_col id) tile_x_offset in
  let fy := ss_first_y (ss_first_row id) tile_y_offset in
  foldM (fun d yrow => let '(y, row) := yrow in
                       foldM (fun d xv => ss_pixel fx fy y d xv) (enumerate_from 0 row) d)
        (enumerate_from 0 sprite) d.
