(* The .p8 text cart: P8Formatter.to_file / _get_raw_data_from_p8_file / P8Formatter.from_file
   (pico8/game/formatter/p8.py).

   Regenerated (Generated/K_p8file.v): the header string, the statement sequence of to_file as an
   event list (interpreted below), the section-name dispatch of from_file, the table of the loop that
   fills short data sections up with the default contents (p8_pad_sections), the regex sources.
   Hand-modelled: readline splitting, the two regex matches (HEADER_VERSION_RE, SECTION_DELIM_RE -
   sources pinned in Proofs/P8FileProofs.v), the section-collecting loop with dict semantics.
   The Lua object is abstract here (Section variables): lexing/parsing/echo are the lexer stack's. *)
From PV Require Import Base.Prelude Base.PySlice Base.Hex Base.Utf8 Base.Dec Model.HexSection Model.Gfx Model.Gff
  Model.MapSec Model.Sfx Model.Music Model.P8sciiInst Generated.K_p8file Generated.K_gfx Generated.K_gff
  Generated.K_map Generated.K_sfx Generated.K_music Generated.K_game.

(* ---------- lines of a byte stream: instr.readline() until it returns b'' ---------- *)
Fixpoint split_lines_acc (cur : list Z) (s : list Z) : list (list Z) :=     (* cur: current line, reversed *)
  match s with
  | [] => match cur with [] => [] | _ => [rev' cur] end
  | c :: r => if c =? 10 then rev' (c :: cur) :: split_lines_acc [] r else split_lines_acc (c :: cur) r
  end.
Definition split_lines (s : list Z) : list (list Z) := split_lines_acc [] s.

Fixpoint ends_with_nl (l : list Z) : bool :=
  match l with [] => false | [c] => c =? 10 | _ :: r => ends_with_nl r end.

(* ---------- the two header regexes, on bytes ---------- *)
Definition is_word (c : Z) : bool :=
  is_digit c || ((65 <=? c) && (c <=? 90)) || ((97 <=? c) && (c <=? 122)) || (c =? 95).

Fixpoint span (p : Z -> bool) (l : list Z) : list Z * list Z :=
  match l with
  | [] => ([], [])
  | c :: r => if p c then let '(a, b) := span p r in (c :: a, b) else ([], l)
  end.

(* HEADER_VERSION_RE.match(line):  version (\d+)\n  anchored at the start; -> int(group 1) *)
Definition match_version (line : list Z) : option Z :=
  match line with
  | 118 :: 101 :: 114 :: 115 :: 105 :: 111 :: 110 :: 32 :: t =>     (* "version " *)
    let '(ds, rest) := span is_digit t in
    match rest with
    | 10 :: _ => Z_of_dec ds
    | _ => None
    end
  | _ => None
  end.

(* SECTION_DELIM_RE.match(line):  __(\w+)__\n  anchored at the start; -> group 1.
   \w+ is greedy over the maximal run R of word bytes after the leading "__"; "_" is a word byte,
   so the match succeeds iff R = P ++ "__" with P non-empty and the byte after R is \n. *)
Fixpoint drop_last2 (l : list Z) : option (list Z) :=          (* l = p ++ "__"  ->  Some p *)
  match l with
  | [] => None
  | c :: r =>
    match r with
    | [d] => if (c =? 95) && (d =? 95) then Some [] else None
    | _ => match drop_last2 r with Some p => Some (c :: p) | None => None end
    end
  end.
Definition match_section (line : list Z) : option (list Z) :=
  match line with
  | 95 :: 95 :: t =>
    let '(r, rest) := span is_word t in
    match rest with
    | 10 :: _ => match drop_last2 r with
                 | Some (c :: p) => Some (c :: p)
                 | _ => None
                 end
    | _ => None
    end
  | _ => None
  end.

(* ---------- the section-collecting loop (dict with insertion order; lines kept reversed) ---------- *)
Definition secs := list (list Z * list (list Z)).
Fixpoint sec_reset (name : list Z) (s : secs) : secs :=
  match s with
  | [] => [(name, [])]
  | (n, l) :: r => if zlist_eqb n name then (n, []) :: r else (n, l) :: sec_reset name r
  end.
Fixpoint sec_push (name line : list Z) (s : secs) : secs :=
  match s with
  | [] => []
  | (n, l) :: r => if zlist_eqb n name then (n, line :: l) :: r else (n, l) :: sec_push name line r
  end.

(* lua.unicode_to_p8scii(str(line, encoding='utf-8')) *)
Definition line_to_p8scii (line : list Z) : result (list Z) :=
  match utf8_decode line with
  | None => Err UnicodeError
  | Some u => p8_u2p u
  end.

Fixpoint collect (cur : option (list Z)) (s : secs) (lines : list (list Z)) : result secs :=
  match lines with
  | [] => Ok s
  | line :: r =>
    match match_section line with
    | Some name => collect (Some name) (sec_reset name s) r
    | None =>
      match cur with
      | Some name => p <- line_to_p8scii line ;; collect cur (sec_push name p s) r
      | None => collect cur s r
      end
    end
  end.

Record raw_p8 := { raw_version : Z; raw_sections : list (list Z * list (list Z)) }.

Definition get_raw_data (file : list Z) : result raw_p8 :=
  match split_lines file with
  | title :: rest =>
    if negb (zlist_eqb title p8_header_title) then Err InvalidP8Header
    else match rest with
         | vline :: body =>
           match match_version vline with
           | None => Err InvalidP8Header
           | Some v =>
             s <- collect None [] body ;;
             Ok {| raw_version := v; raw_sections := map (fun nl => (fst nl, rev' (snd nl))) s |}
           end
         | [] => Err InvalidP8Header          (* readline() gave b'': no match *)
         end
  | [] => Err InvalidP8Header
  end.

Section WithLua.
Variable lua : Type.
Variable lua_from_lines : list (list Z) -> result lua.   (* Lua.from_lines: lex + parse *)
Variable lua_to_lines : lua -> list (list Z).            (* Lua.to_lines(): the chunks the echo writer yields *)
Variable lua_empty : lua.                                (* Lua(version).update_from_lines([]) *)

Record cart := {
  c_version : Z; c_lua : lua; c_gfx : list Z; c_label : option (list Z);
  c_gff : list Z; c_map : list Z; c_sfx : list Z; c_music : list Z }.

(* ---------- reader ---------- *)
Fixpoint lookup_sec (m : list (list Z * Z)) (k : list Z) : option Z :=
  match m with
  | [] => None
  | (k', v) :: r => if zlist_eqb k' k then Some v else lookup_sec r k
  end.

Definition empty_cart (version : Z) : cart :=
  {| c_version := version; c_lua := lua_empty;
     c_gfx := repeat 0 (Z.to_nat gfx_empty_len); c_label := None;
     c_gff := repeat 0 (Z.to_nat gff_empty_len); c_map := repeat 0 (Z.to_nat map_empty_len);
     c_sfx := sfx_empty; c_music := music_empty |}.

Definition apply_section (c : cart) (nl : list Z * list (list Z)) : result cart :=
  let '(name, lines) := nl in
  match lookup_sec p8_read_sections name with
  | None => Err InvalidP8Section
  | Some k =>
    if k =? 5 then l <- lua_from_lines lines ;;
      Ok {| c_version := c_version c; c_lua := l; c_gfx := c_gfx c; c_label := c_label c; c_gff := c_gff c;
            c_map := c_map c; c_sfx := c_sfx c; c_music := c_music c |}
    else if k =? 0 then d <- gfx_from_lines lines ;;
      Ok {| c_version := c_version c; c_lua := c_lua c; c_gfx := d; c_label := c_label c; c_gff := c_gff c;
            c_map := c_map c; c_sfx := c_sfx c; c_music := c_music c |}
    else if k =? 6 then d <- gfx_from_lines lines ;;
      Ok {| c_version := c_version c; c_lua := c_lua c; c_gfx := c_gfx c; c_label := Some d; c_gff := c_gff c;
            c_map := c_map c; c_sfx := c_sfx c; c_music := c_music c |}
    else if k =? 2 then d <- base_from_lines lines ;;
      Ok {| c_version := c_version c; c_lua := c_lua c; c_gfx := c_gfx c; c_label := c_label c; c_gff := d;
            c_map := c_map c; c_sfx := c_sfx c; c_music := c_music c |}
    else if k =? 1 then d <- base_from_lines lines ;;
      Ok {| c_version := c_version c; c_lua := c_lua c; c_gfx := c_gfx c; c_label := c_label c; c_gff := c_gff c;
            c_map := d; c_sfx := c_sfx c; c_music := c_music c |}
    else if k =? 4 then d <- sfx_from_lines lines ;;
      Ok {| c_version := c_version c; c_lua := c_lua c; c_gfx := c_gfx c; c_label := c_label c; c_gff := c_gff c;
            c_map := c_map c; c_sfx := d; c_music := c_music c |}
    else if k =? 3 then d <- music_from_lines lines ;;
      Ok {| c_version := c_version c; c_lua := c_lua c; c_gfx := c_gfx c; c_label := c_label c; c_gff := c_gff c;
            c_map := c_map c; c_sfx := c_sfx c; c_music := d |}
    else Err InvalidP8Section
  end.

(* the loop after the dispatch (regenerated as p8_pad_sections: section key, default contents):
     section = getattr(new_game, name)
     if section is not None:
         default = full.empty(version=data.version)._data
         if len(section._data) < len(default): section._data.extend(default[len(section._data):]) *)
Definition pad_to (d dflt : list Z) : list Z :=
  if zlen d <? zlen dflt then d ++ skipn (length d) dflt else d.

Definition pad_section (c : cart) (kd : Z * list Z) : result cart :=
  let '(k, dflt) := kd in
  if k =? 0 then
      Ok {| c_version := c_version c; c_lua := c_lua c; c_gfx := pad_to (c_gfx c) dflt; c_label := c_label c;
            c_gff := c_gff c; c_map := c_map c; c_sfx := c_sfx c; c_music := c_music c |}
  else if k =? 6 then
      Ok {| c_version := c_version c; c_lua := c_lua c; c_gfx := c_gfx c;
            c_label := match c_label c with Some d => Some (pad_to d dflt) | None => None end;
            c_gff := c_gff c; c_map := c_map c; c_sfx := c_sfx c; c_music := c_music c |}
  else if k =? 2 then
      Ok {| c_version := c_version c; c_lua := c_lua c; c_gfx := c_gfx c; c_label := c_label c;
            c_gff := pad_to (c_gff c) dflt; c_map := c_map c; c_sfx := c_sfx c; c_music := c_music c |}
  else if k =? 1 then
      Ok {| c_version := c_version c; c_lua := c_lua c; c_gfx := c_gfx c; c_label := c_label c;
            c_gff := c_gff c; c_map := pad_to (c_map c) dflt; c_sfx := c_sfx c; c_music := c_music c |}
  else if k =? 4 then
      Ok {| c_version := c_version c; c_lua := c_lua c; c_gfx := c_gfx c; c_label := c_label c;
            c_gff := c_gff c; c_map := c_map c; c_sfx := pad_to (c_sfx c) dflt; c_music := c_music c |}
  else if k =? 3 then
      Ok {| c_version := c_version c; c_lua := c_lua c; c_gfx := c_gfx c; c_label := c_label c;
            c_gff := c_gff c; c_map := c_map c; c_sfx := c_sfx c; c_music := pad_to (c_music c) dflt |}
  else Err OtherError.

Definition pad_sections (c : cart) : result cart := foldM pad_section p8_pad_sections c.

Definition read_p8 (file : list Z) : result cart :=
  raw <- get_raw_data file ;;
  c <- foldM apply_section (raw_sections raw) (empty_cart (raw_version raw)) ;;
  pad_sections c.

(* ---------- writer: interpreting the regenerated statement sequence of to_file ---------- *)
Definition section_lines (c : cart) (k : Z) : result (list (list Z)) :=
  if k =? 0 then Ok (gfx_to_lines (c_gfx c))
  else if k =? 1 then Ok (map_to_lines (c_map c))
  else if k =? 2 then Ok (gff_to_lines (c_gff c))
  else if k =? 3 then music_to_lines (c_music c)
  else if k =? 4 then sfx_to_lines (c_sfx c)
  else Err OtherError.

(* 'version %s\n' % v : the text before and after the %s of the regenerated format string *)
Fixpoint fmt_split (f : list Z) : option (list Z * list Z) :=
  match f with
  | 37 :: 115 :: r => Some ([], r)                      (* "%s" *)
  | c :: r => match fmt_split r with Some (a, b) => Some (c :: a, b) | None => None end
  | [] => None
  end.

(* state: (chunks written so far; ended_in_newline : None | Some bool) *)
Definition wstate := (list (list Z) * option bool)%type.

Definition lua_chunk_text (chunk : list Z) : list Z := utf8_encode (p8_p2u chunk).

Fixpoint last_ends_nl (chunks : list (list Z)) (dflt : option bool) : option bool :=
  match chunks with
  | [] => dflt
  | ch :: r => last_ends_nl r (Some (ends_with_nl ch))
  end.

Definition write_event (c : cart) (st : wstate) (ev : Z * list Z) : result wstate :=
  let '(out, ended) := st in
  let '(tag, payload) := ev in
  if tag =? 0 then Ok (out ++ [payload], ended)
  else if tag =? 1 then
    match payload with
    | [k] => ls <- section_lines c k ;; Ok (out ++ ls, ended)
    | _ => Err OtherError
    end
  else if tag =? 2 then
    let chunks := lua_to_lines (c_lua c) in
    Ok (out ++ map lua_chunk_text chunks, last_ends_nl chunks ended)
  else if tag =? 3 then
    match ended with Some true => Ok (out, ended) | _ => Ok (out ++ [payload], ended) end
  else if tag =? 4 then
    match c_label c with Some _ => Ok (out ++ [payload], ended) | None => Ok (out, ended) end
  else if tag =? 5 then
    match c_label c with Some d => Ok (out ++ gfx_to_lines d, ended) | None => Ok (out, ended) end
  else if tag =? 6 then
    match fmt_split payload with
    | Some (a, b) => Ok (out ++ [a ++ dec_of_Z (c_version c) ++ b], ended)
    | None => Err OtherError
    end
  else if tag =? 7 then
    _ <- lua_from_lines (lua_to_lines (c_lua c)) ;; Ok st
  else Err OtherError.

(* the chunks handed to outstr.write, in order (about twenty events: the appends are cheap) *)
Definition write_p8_chunks (c : cart) : result (list (list Z)) :=
  st <- foldM (write_event c) p8_write_events ([], None) ;; Ok (fst st).
Definition write_p8 (c : cart) : result (list Z) :=
  ch <- write_p8_chunks c ;; Ok (concat ch).

End WithLua.
Arguments c_version {lua} _. Arguments c_lua {lua} _. Arguments c_gfx {lua} _. Arguments c_label {lua} _.
Arguments c_gff {lua} _. Arguments c_map {lua} _. Arguments c_sfx {lua} _. Arguments c_music {lua} _.

(* ---------- the instance used by the correspondence runner: the Lua object is the list of chunks
   it echoes; lexing is the identity (the lexer itself is checked by C06/C07) ---------- *)
Definition chunk_cart := cart (list (list Z)).
Definition read_p8_chunks (file : list Z) : result chunk_cart :=
  read_p8 (list (list Z)) (fun ls => Ok ls) [] file.
Definition write_p8_of_chunks (c : chunk_cart) : result (list Z) :=
  write_p8 (list (list Z)) (fun ls => Ok ls) (fun l => l) c.
