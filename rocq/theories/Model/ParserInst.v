(* The parser model instantiated with the regenerated operator tables of parser.py. *)
From PV Require Import Base.Prelude Generated.T_parser Model.Tokens Model.Parser.

Definition lua_binops : list pat := map pat_of_row binop_pats.
Definition lua_unops : list pat := map pat_of_row unop_pats.

Definition lua_parse (ts : list token) : result (tree * Z) := Parser.parse ts lua_binops lua_unops.
Definition lua_parse_with_fuel (ts : list token) (n : nat) : result (tree * Z) :=
  Parser.parse_with_fuel ts lua_binops lua_unops n.
