(* Model of LuaMinifyTokenWriter (pico8/lua/lua.py): to_lines, _minified_chunks, _fuses.

   Regenerated (Generated/T_minifier.v): [fusing_chars] (runtime value of _FUSING_CHARS),
   [closers_src] (the literal of `token.code in b'])}'`).  Pinned source text
   (Proofs/TokWritersProofs.v): the bodies of _fuses, to_lines, _minified_chunks and the flag
   initialisations of __init__.  Hand-modelled: the control flow.  The renaming goes through
   Model/NameFactory.v (one factory per writer).  Definitions only.

   The writer looks at a token only through its class and its .code, so the model is written over
   pairs (class, code) [mtok]; [minify] instantiates it on the tokens of Model/Lexer.v. *)
From PV Require Import Base.Prelude Base.PySlice Generated.T_lexer Generated.T_minifier
  Generated.T_luanames Model.NameFactory Model.Lexer.

Definition mtok : Set := (tok_kind * list Z)%type.       (* type(token), token.code *)

(* ---------- _fuses(prev, code) *)
Definition ascii_digit (c : Z) : bool := (48 <=? c) && (c <=? 57).          (* bytes.isdigit() on one byte *)

(* prev[:1].isdigit() or (prev[:1] == b'.' and prev[1:2].isdigit()) *)
Definition starts_number (p : list Z) : bool :=
  match p with
  | c :: r => ascii_digit c || ((c =? 46) && match r with d :: _ => ascii_digit d | [] => false end)
  | [] => false
  end.

(* cls._FUSING_CHARS.get(key, b'') *)
Fixpoint fusing_get (k : Z) (m : list (Z * list Z)) : list Z :=
  match m with
  | [] => []
  | (k', v) :: r => if k' =? k then v else fusing_get k r
  end.

Definition fuses (prev code : list Z) : bool :=
  match prev, code with
  | [], _ => false
  | _, [] => false
  | _ :: _, c :: _ =>
    if (c =? 46) && starts_number prev then true
    else existsb (Z.eqb c) (fusing_get (last prev 0) fusing_chars)      (* code[:1] in table.get(prev[-1:], b'') *)
  end.

(* to_lines: a space before every chunk that would fuse with the previous one *)
Fixpoint space_chunks (prev : list Z) (chunks : list (list Z)) : list (list Z) :=
  match chunks with
  | [] => []
  | c :: r => if fuses prev c then [32] :: c :: space_chunks c r else c :: space_chunks c r
  end.

(* ---------- _minified_chunks *)
Record wstate : Set := mk_wstate {
  w_hdr : Z;            (* seen_header_comments *)
  w_seen : bool;        (* seen_non_comment_token *)
  w_lnk : bool;         (* self._last_was_name_keyword_number *)
  w_lnl : bool;         (* self._last_was_newline *)
  w_fac : state         (* self._name_factory *)
}.

Definition init_wstate : wstate := mk_wstate 0 false false true init_state.

Definition is_trivia_kind (k : tok_kind) : bool :=
  match k with KComment | KSpace | KNewline => true | _ => false end.
Definition is_comment_kind (k : tok_kind) : bool := match k with KComment => true | _ => false end.

(* needle in hay, for bytes objects: contiguous sub-sequence *)
Fixpoint is_infix (needle hay : list Z) : bool :=
  starts_with needle hay || match hay with [] => false | _ :: r => is_infix needle r end.

Definition label_name (code : list Z) : list Z := py_slice code 2 (-2).      (* token.code[2:-2] *)

Definition sp_if (b : bool) : list (list Z) := if b then [[32]] else [].

(* one iteration of the loop: new state, chunks yielded *)
Definition chunk_step (cfg : config) (st : wstate) (t : mtok) : result (wstate * list (list Z)) :=
  let '(k, code) := t in
  let seen := w_seen st || negb (is_trivia_kind k) in
  if negb seen && (w_hdr st <? 2) && is_comment_kind k then
    Ok (mk_wstate (w_hdr st + 1) seen (w_lnk st) (w_lnl st) (w_fac st), [code; [10]])
  else
    match k with
    | KComment | KSpace => Ok (mk_wstate (w_hdr st) seen (w_lnk st) (w_lnl st) (w_fac st), [])
    | KNewline =>
      Ok (mk_wstate (w_hdr st) seen false true (w_fac st), if w_lnl st then [] else [[10]])
    | KName =>
      '(fac, o) <- get_short_name cfg (w_fac st) code ;;
      Ok (mk_wstate (w_hdr st) seen true false fac, sp_if (w_lnk st) ++ [o])
    | KLabel =>
      '(fac, o) <- get_short_name cfg (w_fac st) (label_name code) ;;
      Ok (mk_wstate (w_hdr st) seen false false fac, [58 :: 58 :: o ++ [58; 58]])
    | KKeyword | KNumber =>
      Ok (mk_wstate (w_hdr st) seen true false (w_fac st), sp_if (w_lnk st) ++ [code])
    | KString | KSymbol =>
      Ok (mk_wstate (w_hdr st) seen (is_infix code closers_src) false (w_fac st), [code])
    end.

Fixpoint chunks_from (cfg : config) (st : wstate) (ts : list mtok) : result (list (list Z)) :=
  match ts with
  | [] => Ok []
  | t :: r =>
    '(st', cs) <- chunk_step cfg st t ;;
    rest <- chunks_from cfg st' r ;;
    Ok (cs ++ rest)
  end.

Definition minified_chunks (cfg : config) (ts : list mtok) : result (list (list Z)) :=
  chunks_from cfg init_wstate ts.

(* Lua.to_lines(writer_cls=LuaMinifyTokenWriter, writer_args=...) as the list of yielded chunks *)
Definition minify_gen (cfg : config) (ts : list mtok) : result (list (list Z)) :=
  cs <- minified_chunks cfg ts ;; Ok (space_chunks [] cs).

Definition mtok_of_tok (t : tok) : mtok := (t_kind t, tok_code t).

Definition minify (cfg : config) (ts : list tok) : result (list (list Z)) :=
  minify_gen cfg (map mtok_of_tok ts).

(* source chunks -> minified text: lexer, then writer (the parser does not influence this writer) *)
Definition luamin_text (cfg : config) (chunks : list (list Z)) : result (list Z) :=
  ts <- model_lex chunks ;; cs <- minify cfg ts ;; Ok (concat cs).

(* ---------- the __lua__ section P8Formatter.to_file writes (pico8/game/formatter/p8.py, source pinned
   as p8_lua_section_src): the chunks of to_lines, then a line break unless the last chunk ends with
   one.  (The P8SCII -> Unicode -> UTF-8 conversion of every chunk is C15's bijection; the harness
   converts the file text back.) *)
Definition ends_with_lf (c : list Z) : bool := match c with [] => false | _ :: _ => last c 0 =? 10 end.

Definition p8_lua_text (chunks : list (list Z)) : list Z :=
  concat chunks ++
  (if match chunks with [] => false | _ :: _ => ends_with_lf (last chunks []) end then [] else [10]).

(* `p8tool luamin` / `p8tool build --lua-minify` on a source given as lines: the __lua__ text of the written cart *)
Definition luamin_cart_text (cfg : config) (chunks : list (list Z)) : result (list Z) :=
  ts <- model_lex chunks ;; cs <- minify cfg ts ;; Ok (p8_lua_text cs).
