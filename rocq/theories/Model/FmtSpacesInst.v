(* The two white-space pipelines in the shape the writer walk (Model/AstWriter.v) takes its
   `_get_code_for_spaces` parameter:
     start_pos (self._pos before the run) -> self._indent -> at_end (self._pos == len(self._tokens)
     after the run) -> the run of TokSpace / TokNewline / TokComment tokens consumed -> output bytes. *)
From PV Require Import Base.Prelude Spec.LuaTokens Model.FmtSpaces.

Definition run_code (run : list token) : list Z := concat (map tcode run).

(* LuaFormatterWriter._get_code_for_spaces, writer argument indentwidth = indent_mult *)
Definition fmt_spaces (indent_mult : Z) (start_pos indent : Z) (at_end : bool) (run : list token) : list Z :=
  fmt_run (mk_fcfg (start_pos =? 0) at_end indent_mult indent) (run_code run).

Definition not_comment (t : token) : bool := match tk t with CComment => false | _ => true end.

(* LuaMinifyWriter._get_code_for_spaces: comments are left out of the run *)
Definition min_spaces (start_pos indent : Z) (at_end : bool) (run : list token) : list Z :=
  min_run ((start_pos =? 0) || at_end) (run_code (filter not_comment run)).
