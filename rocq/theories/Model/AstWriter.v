(* Executable model of pico8/lua/lua.py LuaASTEchoWriter (and, through the spaces function, of its
   subclass LuaFormatterWriter = `p8tool luafmt`): the walk over the syntax tree that re-emits every
   keyword / symbol / name / literal while pulling the white space and comments in between from the
   token list, with the token cursor _pos and the nesting counter _indent.

   The writer's `_get_code_for_spaces` is the parameter W (Model/WriterChunks.v spaces_fn):
       W start_pos indent at_end run
   For LuaASTEchoWriter W = echo_spaces; for LuaFormatterWriter W = fmt_spaces indentwidth
   (Model/FmtSpacesInst.v).  The walk itself does not depend on W: it returns the list of chunks
   (one per cursor advance / spaces call), the text is chunks_text W chunks.

   The tree is the Python-visible tree (class index, start/end, short_if, fields in order; Tok / Lst /
   PNone / PBool / PBytes), i.e. [view] of the parser model's tree or the dump of the real parser's tree.
   Mode: args without 'ignore_tokens' (the mode luafmt and the plain AST echo use).

   Exceptions are values: AssertionError (the assert of _get_text / _get_name / FunctionCallMethod),
   IndexError (self._tokens[self._pos] at the end of the list), AttributeError (a field that is not a
   node where a node is required), ParserError (to_lines: the parser stopped before the end of the code).

   Label statements: Python yields spaces, b'::', the spaces of _get_name (always an empty run, the cursor
   being at the label token), the name, b'::'.  The model emits the two Trivia chunks and then one Code
   chunk `::name::`; the texts agree for every W that maps the empty run to the empty string (true of the
   echo and formatter writers: fmt_spaces_nil). *)
From PV Require Import Base.Prelude Spec.LuaTokens Model.Tokens Model.WriterChunks.

(* the Python-visible projection of a tree of the parser model *)
Fixpoint view (t : tree) : tree :=
  let fix views (l : list tree) : list tree :=
    match l with
    | [] => []
    | x :: r => if is_hidden x then views r else view x :: views r
    end in
  match t with
  | Node tag s e sh fs => Node tag s e sh (views fs)
  | Lst l => Lst (views l)
  | Paren _ _ x => view x
  | _ => t
  end.

Record wst : Type := mkW { w_pos : Z; w_ind : Z; w_out : list chunk (* reversed *) }.
Definition WM : Type := wst -> result wst.

Definition seq (a b : WM) : WM := fun st => match a st with Ok st' => b st' | Err e => Err e end.
Infix ">>" := seq (at level 62, right associativity).
Definition skip : WM := fun st => Ok st.
Definition fail_with (e : err) : WM := fun _ => Err e.
Definition emit (c : chunk) : WM := fun st => Ok (mkW (w_pos st) (w_ind st) (c :: w_out st)).
Definition indent_by (d : Z) : WM := fun st => Ok (mkW (w_pos st) (w_ind st + d) (w_out st)).

Section Writer.
Variable ts : list token.

Definition ntok : Z := zlen ts.
Definition tok_at (i : Z) : option token := if i <? 0 then None else nth_error ts (Z.to_nat i).

(* the maximal run of white space / newline / comment tokens from the head of l, at most n tokens *)
Fixpoint trivia_run (l : list token) (n : nat) : list token :=
  match n, l with
  | S n', t :: r => if is_trivia t then t :: trivia_run r n' else []
  | _, _ => []
  end.

(* _get_code_for_spaces(node): bound = node.end_pos, or len(tokens) for node = None *)
Definition spaces_to (bound : Z) : WM := fun st =>
  let p := w_pos st in
  let run := trivia_run (skipn (Z.to_nat p) ts) (Z.to_nat (bound - p)) in
  let p' := p + zlen run in
  Ok (mkW p' (w_ind st) (Trivia p (w_ind st) (p' =? ntok) run :: w_out st)).

Definition bound_of (node : tree) : result Z :=
  match node with
  | Node _ _ e _ _ => Ok e
  | PNone => Ok ntok
  | _ => Err AttributeError                 (* node.end_pos of a token / list / bool *)
  end.

Definition spaces (node : tree) : WM :=
  match bound_of node with Ok b => spaces_to b | Err e => fail_with e end.

(* the token under the cursor: self._tokens[self._pos] *)
Definition cur (st : wst) : result token :=
  match tok_at (w_pos st) with Some t => Ok t | None => Err IndexError end.

(* continue with the token under the cursor (IndexError at the end of the list) *)
Definition with_cur (k : token -> WM) : WM := fun st =>
  match cur st with Ok t => k t st | Err e => Err e end.
(* continue with the token under the cursor, if any *)
Definition with_peek (k : option token -> WM) : WM := fun st => k (tok_at (w_pos st)) st.
(* continue with a computation chosen from the current state *)
Definition with_st (k : wst -> WM) : WM := fun st => k st st.

Definition advance_emit (text : list Z) : WM := fun st =>
  Ok (mkW (w_pos st + 1) (w_ind st) (Code (w_pos st) text :: w_out st)).

(* token.matches(TokKeyword(kw)) or token.matches(TokSymbol(kw)) *)
Definition is_kw_or_sym (kw : list Z) (t : token) : bool :=
  tok_eqb t (mkTok CKeyword 0 kw kw) || tok_eqb t (mkTok CSymbol 0 kw kw).

(* _get_text(node, keyword) *)
Definition get_text (node : tree) (kw : list Z) : WM :=
  spaces node >> with_cur (fun t => if is_kw_or_sym kw t then advance_emit kw else fail_with AssertionError).

(* _get_name(node, tok): the token object comes from the tree; the cursor is not inspected *)
Definition get_name (node : tree) (t : token) : WM :=
  spaces node >> (if kclass_eqb (tk t) CName then advance_emit (tcode t) else fail_with AssertionError).

(* _get_semis(node), after the bounds fix; n bounds the number of iterations *)
Fixpoint get_semis (n : nat) (node : tree) : WM :=
  match n with
  | O => fail_with OutOfFuel
  | S n' =>
      spaces node >> with_peek (fun o =>
        match o with
        | Some t => if tok_eqb t (mkTok CSymbol 0 ";"%bs ";"%bs)
                    then advance_emit ";"%bs >> get_semis n' node
                    else skip
        | None => skip
        end)
  end.

Definition semis (node : tree) : WM :=
  with_st (fun st => get_semis (S (Z.to_nat (ntok - w_pos st))) node).

Definition field (fs : list tree) (k : nat) : tree := nth k fs PNone.

(* _walk_StatIf, after the pairs of a one-line if (the "fix:" commit for an else without statements): the parser
   drops an `else` that has no statements after it, but its tokens stay inside the node's range.  The writer looks,
   from the cursor, past white space / newlines / comments that lie before node.end_pos; if the token there (still
   before node.end_pos) is the keyword `else`, it is written with _get_text and followed by _get_semis.
   node.exp_block_pairs[-1] of an empty list is an IndexError (the parser never builds one). *)
Fixpoint skip_trivia_idx (l : list token) (p hi : Z) : Z :=       (* l = the tokens from index p on *)
  match l with
  | t :: r => if (p <? hi) && is_trivia t then skip_trivia_idx r (p + 1) hi else p
  | [] => p
  end.

Definition node_end (node : tree) : Z := match node with Node _ _ e _ _ => e | _ => 0 end.

Definition dropped_else (node : tree) (pairs : list tree) : WM :=
  match last pairs (Lst []) with
  | Lst [PNone; _] => skip                       (* the last pair is an else part: nothing was dropped *)
  | Lst [_; _] =>
      with_st (fun st =>
        let hi := node_end node in
        let p := skip_trivia_idx (skipn (Z.to_nat (w_pos st)) ts) (w_pos st) hi in
        match tok_at p with
        | Some t => if (p <? hi) && tok_eqb t (mkTok CKeyword 0 "else"%bs "else"%bs)
                    then get_text node "else"%bs >> semis node
                    else skip
        | None => skip
        end)
  | _ => match pairs with [] => fail_with IndexError | _ => fail_with OtherError end
  end.


(* continue with the code of a token field (node.assignop.code, node.binop.code, ...) *)
Definition with_code (t : tree) (k : list Z -> WM) : WM :=
  match t with Tok _ tk => k (tcode tk) | _ => fail_with AttributeError end.

(* walk every element of a list after a separator: `for i in range(1, len(l)): get_text(sep); walk(l[i])` *)
Section Lists.
Variable walk : tree -> WM.
Variable node : tree.

Fixpoint sep_rest (sep : list Z) (l : list tree) : WM :=
  match l with
  | [] => skip
  | x :: r => get_text node sep >> walk x >> sep_rest sep r
  end.

Fixpoint name_rest (sep : list Z) (l : list tree) : WM :=
  match l with
  | [] => skip
  | Tok _ t :: r => get_text node sep >> get_name node t >> name_rest sep r
  | _ :: _ => fail_with AttributeError
  end.

(* table fields after the first: the separator is whatever token is under the cursor *)
Fixpoint field_rest (l : list tree) : WM :=
  match l with
  | [] => skip
  | x :: r =>
      spaces node >> with_cur (fun t => get_text node (tcode t) >> walk x >> field_rest r)
  end.

Fixpoint stats (l : list tree) : WM :=
  match l with
  | [] => skip
  | x :: r => semis node >> walk x >> stats r
  end.
End Lists.

(* StatIf: the (exp, block) pairs *)
Section IfPairs.
Variable walk : tree -> WM.
Variable node : tree.
Variable short : bool.

Fixpoint if_pairs (first : bool) (l : list tree) : WM :=
  match l with
  | [] => skip
  | Lst [PNone; block] :: r =>
      get_text node "else"%bs >> indent_by 1 >> walk block >> indent_by (-1) >> if_pairs first r
  | Lst [e; block] :: r =>
      get_text node (if first then "if"%bs : list Z else "elseif"%bs : list Z) >>
      (if short
       then get_text node "("%bs >> indent_by 1 >> walk e >> indent_by (-1) >> get_text node ")"%bs
       else walk e >> get_text node "then"%bs >> indent_by 1) >>
      walk block >>
      (if short then skip else indent_by (-1)) >>
      if_pairs false r
  | _ :: _ => fail_with OtherError          (* not a pair: cannot be built by the parser *)
  end.
End IfPairs.

Definition name_tok (t : tree) (k : token -> WM) : WM :=
  match t with Tok _ tk => k tk | _ => fail_with AttributeError end.

(* a TokName made from a bytes value (goto / label) *)
Definition mk_name (b : list Z) : token := mkTok CName 0 b b.

Fixpoint walk (n : nat) (node : tree) {struct n} : WM :=
  match n with
  | O => fail_with OutOfFuel
  | S n' =>
    let w := walk n' in
    (* LuaASTEchoWriter._walk: the spaces before the node, then the handler *)
    spaces node >>
    match node with
    | PNone => skip                                    (* _walk_value *)
    | Node tag _ _ sh fs =>
      let f := field fs in
      let txt := get_text node in
      if tag =? tChunk then
        match f 0%nat with
        | Lst l => stats w node l >> semis node
        | _ => fail_with TypeError
        end
      else if tag =? tStatAssignment then
        w (f 0%nat) >> with_code (f 1%nat) txt >> w (f 2%nat)
      else if tag =? tStatFunctionCall then w (f 0%nat)
      else if tag =? tStatDo then
        txt "do"%bs >> indent_by 1 >> w (f 0%nat) >> indent_by (-1) >> txt "end"%bs
      else if tag =? tStatWhile then
        txt "while"%bs >> w (f 0%nat) >> txt "do"%bs >> indent_by 1 >> w (f 1%nat) >> indent_by (-1) >> txt "end"%bs
      else if tag =? tStatRepeat then
        txt "repeat"%bs >> indent_by 1 >> w (f 0%nat) >> indent_by (-1) >> txt "until"%bs >> w (f 1%nat)
      else if tag =? tStatIf then
        match f 0%nat with
        | Lst pairs => if_pairs w node sh true pairs >> (if sh then dropped_else node pairs else txt "end"%bs)
        | _ => fail_with TypeError
        end
      else if tag =? tStatForStep then
        txt "for"%bs >> name_tok (f 0%nat) (get_name node) >> txt "="%bs >> w (f 1%nat) >> txt ","%bs >> w (f 2%nat) >>
        (match f 3%nat with PNone => skip | s => txt ","%bs >> w s end) >>
        txt "do"%bs >> indent_by 1 >> w (f 4%nat) >> indent_by (-1) >> txt "end"%bs
      else if tag =? tStatForIn then
        txt "for"%bs >> w (f 0%nat) >> txt "in"%bs >> w (f 1%nat) >>
        txt "do"%bs >> indent_by 1 >> w (f 2%nat) >> indent_by (-1) >> txt "end"%bs
      else if tag =? tStatFunction then
        txt "function"%bs >> w (f 0%nat) >> w (f 1%nat)
      else if tag =? tStatLocalFunction then
        txt "local"%bs >> txt "function"%bs >> name_tok (f 0%nat) (get_name node) >> w (f 1%nat)
      else if tag =? tStatLocalAssignment then
        txt "local"%bs >> w (f 0%nat) >>
        (match f 1%nat with PNone => skip | el => txt "="%bs >> w el end)
      else if tag =? tStatGoto then
        txt "goto"%bs >>
        (match f 0%nat with PBytes b => get_name node (mk_name b) | _ => fail_with TypeError end)
      else if tag =? tStatLabel then
        match f 0%nat with
        | PBytes b =>
            spaces node >> spaces node >>              (* the second call: inside _get_name, empty run *)
            advance_emit ("::"%bs ++ b ++ "::"%bs)
        | _ => fail_with TypeError
        end
      else if tag =? tStatBreak then txt "break"%bs
      else if tag =? tStatReturn then
        txt "return"%bs >> (match f 0%nat with PNone => skip | el => w el end)
      else if tag =? tFunctionName then
        match f 0%nat with
        | Lst (Tok _ t0 :: r) =>
            get_name node t0 >> name_rest node "."%bs r >>
            (match f 1%nat with
             | PNone => skip
             | m => txt ":"%bs >> name_tok m (get_name node)
             end)
        | _ => fail_with AttributeError
        end
      else if tag =? tFunctionArgs then
        txt "("%bs >> indent_by 1 >> (match f 0%nat with PNone => skip | el => w el end) >>
        indent_by (-1) >> txt ")"%bs
      else if tag =? tVarList then
        match f 0%nat with
        | Lst (v0 :: r) => w v0 >> sep_rest w node ","%bs r
        | _ => fail_with IndexError                      (* node.vars[0] *)
        end
      else if tag =? tVarName then name_tok (f 0%nat) (get_name node)
      else if tag =? tVarIndex then
        w (f 0%nat) >> txt "["%bs >> indent_by 1 >> w (f 1%nat) >> indent_by (-1) >> txt "]"%bs
      else if tag =? tVarAttribute then
        w (f 0%nat) >> txt "."%bs >> name_tok (f 1%nat) (get_name node)
      else if tag =? tNameList then
        match f 0%nat with
        | PNone => skip
        | Lst (Tok _ t0 :: r) => get_name node t0 >> name_rest node ","%bs r
        | _ => fail_with AttributeError
        end
      else if tag =? tExpList then
        match f 0%nat with
        | PNone => skip
        | Lst (e0 :: r) => w e0 >> sep_rest w node ","%bs r
        | _ => fail_with IndexError
        end
      else if tag =? tExpValue then
        spaces node >>
        with_cur (fun t =>
             let paren := tok_eqb t (mkTok CSymbol 0 "("%bs "("%bs) in
             ((if paren then advance_emit "("%bs >> indent_by 1 else skip) >>
              (match f 0%nat with
               | PNone => txt "nil"%bs
               | PBool false => txt "false"%bs
               | PBool true => txt "true"%bs
               | Tok _ tv =>
                   match tk tv with
                   | CName => get_name node tv
                   | CNumber | CString => spaces node >> advance_emit (tcode tv)
                   | _ => fail_with AttributeError      (* _walk(token): token.end_pos *)
                   end
               | v => w v
               end) >>
              (if paren then indent_by (-1) >> txt ")"%bs else skip)))
      else if tag =? tVarargDots then txt "..."%bs
      else if tag =? tExpBinOp then
        w (f 0%nat) >> with_code (f 1%nat) txt >> w (f 2%nat)
      else if tag =? tExpUnOp then
        with_code (f 0%nat) txt >> w (f 1%nat)
      else if tag =? tFunctionCall then
        w (f 0%nat) >>
        (match f 1%nat with
         | PNone => txt "("%bs >> txt ")"%bs
         | Tok _ ta => if kclass_eqb (tk ta) CString then spaces node >> advance_emit (tcode ta) else w (f 1%nat)
         | a => w a
         end)
      else if tag =? tFunctionCallMethod then
        w (f 0%nat) >> txt ":"%bs >> name_tok (f 1%nat) (get_name node) >>
        (match f 2%nat with
         | PNone => txt "("%bs >> txt ")"%bs
         | Tok _ ta =>
             if kclass_eqb (tk ta) CString then
               spaces node >>
               with_cur (fun t => if tok_eqb ta t then advance_emit (tcode ta) else fail_with AssertionError)
             else w (f 2%nat)
         | a => w a
         end)
      else if tag =? tFunction then txt "function"%bs >> w (f 0%nat)
      else if tag =? tFunctionBody then
        txt "("%bs >> indent_by 1 >>
        (match f 0%nat with
         | PNone => (match f 1%nat with PNone => skip | d => w d end)
         | pl => w pl >> (match f 1%nat with PNone => skip | d => txt ","%bs >> w d end)
         end) >>
        indent_by (-1) >> txt ")"%bs >> indent_by 1 >> w (f 2%nat) >> indent_by (-1) >> txt "end"%bs
      else if tag =? tTableConstructor then
        txt "{"%bs >> indent_by 1 >>
        (match f 0%nat with
         | Lst [] => skip
         | Lst (x :: r) => w x >> field_rest w node r
         | PNone => skip                               (* `if node.fields:` *)
         | _ => fail_with TypeError
         end) >>
        indent_by (-1) >> spaces node >>
        with_cur (fun t =>
             if tok_eqb t (mkTok CSymbol 0 ","%bs ","%bs) || tok_eqb t (mkTok CSymbol 0 ";"%bs ";"%bs)
             then txt (tcode t) else skip) >>
        txt "}"%bs
      else if tag =? tFieldExpKey then
        txt "["%bs >> indent_by 1 >> w (f 0%nat) >> indent_by (-1) >> txt "]"%bs >> txt "="%bs >> w (f 1%nat)
      else if tag =? tFieldNamedKey then
        name_tok (f 0%nat) (get_name node) >> txt "="%bs >> w (f 1%nat)
      else if tag =? tFieldExp then w (f 0%nat)
      else fail_with AttributeError                    (* no handler *)
    | _ => skip                                          (* unreachable: spaces already failed *)
    end
  end.

Fixpoint tdepth (t : tree) : nat :=
  match t with
  | Node _ _ _ _ fs => S (fold_right (fun x a => Nat.max (tdepth x) a) O fs)
  | Lst l => S (fold_right (fun x a => Nat.max (tdepth x) a) O l)
  | Paren _ _ x => S (tdepth x)
  | Hid x => S (tdepth x)
  | _ => 1%nat
  end.

Fixpoint all_trivia (l : list token) : bool :=
  match l with [] => true | t :: r => is_trivia t && all_trivia r end.

(* LuaASTEchoWriter.to_lines: the end-of-input check (no significant token at or after root.end_pos), the
   walk, the trailing spaces.  Result: the chunks in order and the final cursor.  The code has no check that
   the cursor reached the end of the token list (only the check before the walk): a walk that passes fewer
   tokens than the tree spans would drop the rest without an error - as it did for a one-line `if (c) ... else`
   with an empty else branch at the end of the program before the fix of _walk_StatIf.  Proofs/AstWriterTop.v
   shows that inside the domain of C09_aligned the final cursor is the end of the list. *)
Definition writer_chunks (root : tree) : result (list chunk * Z) :=
  match root with
  | Node _ _ e _ _ =>
      if negb (all_trivia (skipn (Z.to_nat e) ts)) then Err ParserError else
      match (walk (2 * tdepth root + 2) root >> spaces_to ntok) (mkW 0 0 []) with
      | Ok st => Ok (rev' (w_out st), w_pos st)
      | Err e => Err e
      end
  | _ => Err AttributeError
  end.

End Writer.

(* the text written: b''.join(to_lines()) *)
Definition writer_text (W : spaces_fn) (ts : list token) (root : tree) : result (list Z) :=
  match writer_chunks ts root with
  | Ok (cs, _) => Ok (chunks_text W cs)
  | Err e => Err e
  end.
