(* Model of MinifyNameFactory (pico8/lua/lua.py): the renaming map of luamin.
   Regenerated from /repo on every run (Generated/T_luanames.v): preserved_names (runtime value of
   PRESERVED_NAMES, sorted), name_chars (NAME_CHARS), the integer kernels of _name_for_id
   (nfi_recurse: `id >= len(NAME_CHARS)`, nfi_digit_idx: `id % len(NAME_CHARS)`) and the pinned
   source texts of its quotient and return expressions (Proofs/NameFactoryProofs.v).
   Hand-modelled: the recursion of _name_for_id, read_names_file, get_short_name (incl. its
   `while True` loop) and the sequence of calls a writer makes.  Definitions only. *)
From PV Require Import Base.Prelude Generated.T_luanames Generated.T_lexer.

(* ---------- _name_for_id ---------- *)

(* NAME_CHARS[k] for the k = id % len(NAME_CHARS) of the code; k is never negative there
   (Python's % has the sign of the divisor), so Python's negative indexing is not reachable *)
Definition name_char_at (k : Z) : result Z :=
  if k <? 0 then Err IndexError
  else match nth_error name_chars (Z.to_nat k) with Some c => Ok c | None => Err IndexError end.

(* the pinned quotient `int(id / len(MinifyNameFactory.NAME_CHARS))`: float division then
   truncation; equal to floor division for 0 <= id < 2^53 (harness ASSUMPTIONS) *)
Definition nfi_quotient (id : Z) : Z := id / zlen name_chars.

Fixpoint name_for_id_fuel (fuel : nat) (id : Z) : result (list Z) :=
  match fuel with
  | O => Err OutOfFuel
  | S f =>
    first <- (if nfi_recurse id then name_for_id_fuel f (nfi_quotient id) else Ok []) ;;
    c <- name_char_at (nfi_digit_idx id) ;;
    Ok (first ++ [c])
  end.

(* logarithmic fuel: the recursion depth is at most log2 id + 1 when len(NAME_CHARS) >= 2
   (name_for_id_total in the proofs: never OutOfFuel for id >= 0) *)
Definition nfi_fuel (id : Z) : nat := S (S (Z.to_nat (Z.log2 id))).
Definition name_for_id (id : Z) : result (list Z) := name_for_id_fuel (nfi_fuel id) id.

(* decoding of a generated name (used by the proofs and by the harness as a cross check) *)
Fixpoint index_of (c : Z) (l : list Z) : Z :=
  match l with
  | [] => 0
  | x :: r => if x =? c then 0 else 1 + index_of c r
  end.
Definition id_of_name (n : list Z) : Z :=
  fold_left (fun acc c => acc * zlen name_chars + index_of c name_chars) n 0.

(* ---------- read_names_file ---------- *)

(* iterating a binary file: lines end after each b'\n' (kept), the rest is the last line *)
Fixpoint split_lines_acc (cur_rev s : list Z) : list (list Z) :=
  match s with
  | [] => match cur_rev with [] => [] | _ :: _ => [rev_append cur_rev []] end
  | c :: r =>
    if c =? 10 then rev_append (c :: cur_rev) [] :: split_lines_acc [] r
    else split_lines_acc (c :: cur_rev) r
  end.
Definition split_lines (s : list Z) : list (list Z) := split_lines_acc [] s.

(* bytes.strip(): ASCII white space is \t \n \v \f \r and space *)
Definition is_py_space (c : Z) : bool := ((9 <=? c) && (c <=? 13)) || (c =? 32).
Fixpoint lstrip (s : list Z) : list Z :=
  match s with
  | c :: r => if is_py_space c then lstrip r else s
  | [] => []
  end.
Definition rstrip (s : list Z) : list Z :=
  fold_right (fun c acc => match acc with
                           | [] => if is_py_space c then [] else [c]
                           | _ :: _ => c :: acc
                           end) [] s.
Definition strip (s : list Z) : list Z := rstrip (lstrip s).

Definition keep_line (l : list Z) : bool :=
  match l with [] => false | c :: _ => negb (c =? 35) end.   (* `not line or line.startswith(b'#')` *)

(* the names added to the set, in file order (duplicates possible: it is a set in Python,
   and only membership is ever asked) *)
Definition read_names_file (content : list Z) : list (list Z) :=
  filter keep_line (map strip (split_lines content)).

(* ---------- get_short_name ---------- *)

Record config := { keep_all : bool; names_to_keep : option (list (list Z)) }.
Record state := { name_map : list (list Z * list Z); next_id : Z }.

Definition init_state : state := {| name_map := []; next_id := 0 |}.

(* __init__: `if keep_names_from_file:` reads the file; None -> no keep set *)
Definition mk_config (keep_all_names : bool) (keep_file : option (list Z)) : config :=
  {| keep_all := keep_all_names; names_to_keep := option_map read_names_file keep_file |}.

Definition in_names (n : list Z) (l : list (list Z)) : bool := existsb (zlist_eqb n) l.

Definition in_keep_file (cfg : config) (n : list Z) : bool :=
  match names_to_keep cfg with Some ks => in_names n ks | None => false end.

(* the three early returns of get_short_name *)
Definition kept (cfg : config) (n : list Z) : bool :=
  keep_all cfg || in_names n preserved_names || in_keep_file cfg n.

Fixpoint lookup (k : list Z) (m : list (list Z * list Z)) : option (list Z) :=
  match m with
  | [] => None
  | (k', v) :: r => if zlist_eqb k' k then Some v else lookup k r
  end.

(* the `while True` loop: -> (new_name, next id).  A candidate is taken when it is neither a
   preserved name nor (when a keep file was read) one of the keep-file names *)
Fixpoint fresh_name (cfg : config) (fuel : nat) (id : Z) : result (list Z * Z) :=
  match fuel with
  | O => Err OutOfFuel
  | S f =>
    new_name <- name_for_id id ;;
    if negb (in_names new_name preserved_names) && negb (in_keep_file cfg new_name)
    then Ok (new_name, id + 1)
    else fresh_name cfg f (id + 1)
  end.

(* enough for every state with next_id >= 0 (fresh_name_total): at most
   len(PRESERVED_NAMES) + len(names_to_keep) candidates can be skipped *)
Definition keep_list (cfg : config) : list (list Z) :=
  match names_to_keep cfg with Some ks => ks | None => [] end.
Definition fresh_fuel (cfg : config) : nat := S (length preserved_names + length (keep_list cfg)).

Definition get_short_name (cfg : config) (st : state) (name : list Z) : result (state * list Z) :=
  if keep_all cfg then Ok (st, name)
  else if in_names name preserved_names then Ok (st, name)
  else if in_keep_file cfg name then Ok (st, name)
  else match lookup name (name_map st) with
       | Some v => Ok (st, v)
       | None =>
         '(new_name, id') <- fresh_name cfg (fresh_fuel cfg) (next_id st) ;;
         Ok ({| name_map := (name, new_name) :: name_map st; next_id := id' |}, new_name)
       end.

(* the calls a writer makes, in order, on one factory *)
Fixpoint run_from (cfg : config) (st : state) (names : list (list Z)) : result (state * list (list Z)) :=
  match names with
  | [] => Ok (st, [])
  | n :: r =>
    '(st1, o) <- get_short_name cfg st n ;;
    '(st2, os) <- run_from cfg st1 r ;;
    Ok (st2, o :: os)
  end.

Definition run_factory_st (cfg : config) (names : list (list Z)) : result (state * list (list Z)) :=
  run_from cfg init_state names.

Definition run_factory (cfg : config) (names : list (list Z)) : result (list (list Z)) :=
  '(_, outs) <- run_factory_st cfg names ;; Ok outs.

(* "identifier n was written as o": position-wise pairing of requests and results *)
Definition observed (names outs : list (list Z)) (n o : list Z) : Prop := In (n, o) (combine names outs).

(* ---------- which configuration reaches the factory from the command line ----------
   LuaMinifyTokenWriter.__init__ builds the factory from its writer args with defaults
   (mtw_factory_src).  tool.luamin passes both options (luamin_writer_src); so does
   build.do_build in its --lua-minify branch (build_writer_selection_src). *)
Definition luamin_config (keep_all_names : bool) (keep_file : option (list Z)) : config :=
  mk_config keep_all_names keep_file.
Definition build_minify_config (keep_all_names : bool) (keep_file : option (list Z)) : config :=
  mk_config keep_all_names keep_file.

(* the names get_short_name must leave as written, spelled out over the regenerated tables *)
Definition is_kept (cfg : config) (n : list Z) : Prop :=
  keep_all cfg = true \/ In n lua_keywords \/ In n pico8_builtins \/
  (exists ks, names_to_keep cfg = Some ks /\ In n ks).

(* ---------- decidable side conditions, recomputed on the regenerated tables on every run ---------- *)

(* NAME_CHARS has no repeated character: position k decodes back to k *)
Definition chars_ok : bool :=
  forallb (fun k => match nth_error name_chars (Z.to_nat k) with
                    | Some c => index_of c name_chars =? k
                    | None => false
                    end) (upto (zlen name_chars)).

(* every character of NAME_CHARS may start a Lua name: [A-Za-z_] (lexer name pattern) *)
Definition ident_start (c : Z) : bool :=
  ((65 <=? c) && (c <=? 90)) || ((97 <=? c) && (c <=? 122)) || (c =? 95) || ((128 <=? c) && (c <=? 255)).
Definition chars_ident_ok : bool := forallb ident_start name_chars.

(* PRESERVED_NAMES = LUA_KEYWORDS | PICO8_BUILTINS as sets *)
Definition preserved_ok : bool :=
  forallb (fun n => in_names n (lua_keywords ++ pico8_builtins)) preserved_names &&
  forallb (fun n => in_names n preserved_names) (lua_keywords ++ pico8_builtins).
