(* The converters instantiated with the regenerated tables of lua.py. *)
From PV Require Import Base.Prelude Generated.T_p8scii Model.P8scii.
Definition p8_p2u : list Z -> list Z := P8scii.p2u p8scii_charset.
Definition p8_u2p : list Z -> result (list Z) := P8scii.u2p u2p_items width_items.
Definition p8_spelling : Z -> list Z := P8scii.spelling p8scii_charset.
