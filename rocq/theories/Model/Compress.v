(* Model of pico8/game/compress.py (after the two `fix:` commits on decompress_code).

   Regenerated (Generated/K_compress.v): the character table, the two compatibility suffixes,
   the `_update60` needle, every constant (17, (255-60)*16, -100000, 0x10001, 8, 0x3b, 0x3c, 16),
   the window/length arithmetic of _find_repeatable_block (max_len, hist, i0, offset), the
   encoder's two packed bytes, the decoder's length/offset unpacking, the loop and branch tests
   of compress_code and decompress_code.
   Hand-modelled: the loops.  They are written as recursion on *suffixes* of the data (no indexing),
   so the extracted code runs at the speed of the Python original:
     w   = dat[i:]   where i is the window start          cur = dat[pos:]
   The three comparisons inside the window scan are modelled on structural counters; their source
   shape is pinned (Proofs/CompressProofs.v, lemmas pin_frb_inner etc.). *)
From PV Require Import Base.Prelude Base.PySlice Generated.K_compress.

(* ---------- literal_index ---------- *)
(* literal_index = [0] * 256;  for i in range(first, stop): literal_index[TABLE[i]] = i *)
Definition zrange (lo hi : Z) : list Z := map (fun k => lo + k) (upto (hi - lo)).

Definition literal_index_table : list Z :=
  fold_left (fun li i => match nth_error compress_table (Z.to_nat i) with
                         | Some c => set_nth li (Z.to_nat c) i
                         | None => li
                         end)
            (zrange cc_lit_first cc_lit_stop) (repeat 0 (Z.to_nat 256)).

Definition literal_index (c : Z) : Z := nth (Z.to_nat c) literal_index_table 0.

(* ---------- _find_repeatable_block ---------- *)
(* length of the common prefix of a and b, at most n and at most m:
     while (j - i) < max_len and j < pos and dat[j] == dat[pos + j - i]: j += 1
   with n = max_len, m = pos - i, a = dat[i:], b = dat[pos:] *)
Fixpoint cpl (n m : nat) (a b : list Z) : nat :=
  match n, m, a, b with
  | S n', S m', x :: a', y :: b' => if x =? y then S (cpl n' m' a' b') else O
  | _, _, _, _ => O
  end.

(* the outer loop: w = dat[i:], d = pos - i (counts down to 0 as i reaches pos).
   best = (best_len, d of best_i), d = 0 standing for the initial best_i *)
Fixpoint scan (w : list Z) (d : nat) (cur : list Z) (max_len : nat) (best_len best_d : nat) : nat * nat :=
  match d, w with
  | S d', _ :: w' =>
    let l := cpl max_len d w cur in
    if Nat.ltb best_len l then scan w' d' cur max_len l d
    else scan w' d' cur max_len best_len best_d
  | _, _ => (best_len, best_d)
  end.

(* (best_len, block_offset) given w = dat[i0:] for the i0 the function computes *)
Definition find_block (w cur : list Z) (pos len_dat : Z) : Z * Z :=
  let max_len := frb_max_len frb_max_block_len len_dat pos in
  let hist := frb_hist frb_window pos in
  let '(bl, bd) := scan w (Z.to_nat hist) cur (Z.to_nat max_len) (Z.to_nat frb_best_len0) O in
  let best_i := match bd with O => frb_best_i0 | _ => pos - Z.of_nat bd end in
  (Z.of_nat bl, frb_offset pos best_i).

(* entry point with plain arguments, as the Python function has them *)
Definition find_repeatable_block (dat : list Z) (pos : Z) : Z * Z :=
  let len_dat := zlen dat in
  let i0 := frb_i0 pos (frb_hist frb_window pos) in
  find_block (skipn (Z.to_nat i0) dat) (skipn (Z.to_nat pos) dat) pos len_dat.

(* The same function in index form, every test and update being the regenerated kernel applied to the
   variables the Python code applies it to (dat as an indexing function). Not extracted (indexing a list is
   linear); Proofs/CompressProofs.v proves find_repeatable_block equal to it for every dat and 0 <= pos <= len. *)
Definition datf (dat : list Z) : Z -> Z := fun i => nth (Z.to_nat i) dat 0.

(* while (j - i) < max_len and j < pos and dat[j] == dat[pos + j - i]: j += 1 *)
Fixpoint frb_inner_loop (fuel : nat) (dat : list Z) (i j max_len pos : Z) : Z :=
  match fuel with
  | O => j
  | S f => if frb_inner j i max_len pos (datf dat) then frb_inner_loop f dat i (j + 1) max_len pos else j
  end.

(* while i < pos: j = i; <inner loop>; if (j - i) > best_len: best_len = j - i; best_i = i; i += 1 *)
Fixpoint frb_outer_loop (fuel : nat) (dat : list Z) (i pos max_len best_len best_i : Z) : Z * Z :=
  match fuel with
  | O => (best_len, best_i)
  | S f =>
    if frb_outer i pos then
      let j := frb_inner_loop (S (Z.to_nat max_len)) dat i i max_len pos in
      if frb_better j i best_len then frb_outer_loop f dat (i + 1) pos max_len (frb_new_len j i) i
      else frb_outer_loop f dat (i + 1) pos max_len best_len best_i
    else (best_len, best_i)
  end.

Definition find_repeatable_block_ref (dat : list Z) (pos : Z) : Z * Z :=
  let max_len := frb_max_len frb_max_block_len (zlen dat) pos in
  let max_hist_len := frb_hist frb_window pos in
  let '(best_len, best_i) :=
    frb_outer_loop (S (Z.to_nat max_hist_len)) dat (frb_i0 pos max_hist_len) pos max_len frb_best_len0 frb_best_i0 in
  (best_len, frb_offset pos best_i).

(* ---------- compress_code ---------- *)
Fixpoint contains (needle hay : list Z) : bool :=       (* needle in hay *)
  match hay with
  | [] => starts_with needle []
  | _ :: t => starts_with needle hay || contains needle t
  end.

Definition append_byte (b : Z) : result Z := if byteb b then Ok b else Err ValueError.   (* bytearray.append *)

(* the text actually compressed *)
Definition with_suffix (in_p : list Z) : result (list Z) :=
  if contains cc_needle in_p && cc_suffix_len_ok (zlen in_p) cc_alloc_size then
    last_c <- py_get in_p (-1) ;;
    Ok ((if cc_needs_newline last_c then in_p ++ cc_newline else in_p) ++ future_code2)
  else Ok in_p.

(* w = dat[i:], cur = dat[pos:] *)
Fixpoint enc (fuel : nat) (w : list Z) (i : Z) (cur : list Z) (pos len_dat : Z) : result (list Z) :=
  match fuel with
  | O => Err OutOfFuel
  | S f =>
    if cc_loop pos len_dat then
      match cur with
      | [] => Err IndexError
      | c :: _ =>
        let i' := frb_i0 pos (frb_hist frb_window pos) in
        let w' := skipn (Z.to_nat (i' - i)) w in
        let '(block_len, block_offset) := find_block w' cur pos len_dat in
        if cc_is_block block_len then
          b1 <- append_byte (cc_b1 block_offset) ;;
          b2 <- append_byte (cc_b2 block_offset block_len) ;;
          rest <- enc f w' i' (skipn (Z.to_nat block_len) cur) (cc_adv_block pos block_len) len_dat ;;
          Ok (b1 :: b2 :: rest)
        else
          let li := literal_index c in
          rest <- enc f w' i' (skipn 1 cur) (cc_adv_lit pos) len_dat ;;
          if li =? 0 then Ok (li :: c :: rest) else Ok (li :: rest)
      end
    else Ok []
  end.

Definition compress_text (dat : list Z) : result (list Z) :=
  enc (S (length dat)) dat 0 dat 0 (zlen dat).

Definition compress_code (in_p : list Z) : result (list Z) :=
  dat <- with_suffix in_p ;; compress_text dat.

(* ---------- decompress_code ---------- *)
(* out is a list of code_length zeros of which the first out_i have been written; hist = the written
   part, most recent first.  out[idx] with Python's index rules: *)
Definition out_get (hist : list Z) (out_i code_length idx : Z) : result Z :=
  let j := if idx <? 0 then idx + code_length else idx in
  if (j <? 0) || (code_length <=? j) then Err IndexError
  else if j <? out_i then
    match nth_error hist (Z.to_nat (out_i - 1 - j)) with Some v => Ok v | None => Err IndexError end
  else Ok 0.

(* for _ in range(length): if out_i == code_length: break; out[out_i] = out[out_i - offset]; out_i += 1 *)
Fixpoint copy_loop (n : nat) (hist : list Z) (out_i offset code_length : Z) : result (list Z * Z) :=
  match n with
  | O => Ok (hist, out_i)
  | S n' =>
    if dc_copy_stop out_i code_length then Ok (hist, out_i)
    else v <- out_get hist out_i code_length (dc_copy_src out_i offset) ;;
         copy_loop n' (v :: hist) (out_i + 1) offset code_length
  end.

(* s = codedata[in_i:] *)
Fixpoint dec_loop (fuel : nat) (s : list Z) (in_i : Z) (hist : list Z) (out_i code_length len_cd : Z)
  : result (list Z * Z * Z) :=
  match fuel with
  | O => Err OutOfFuel
  | S f =>
    if dc_loop out_i code_length in_i len_cd then
      match s with
      | [] => Err IndexError
      | b1 :: s1 =>
        if dc_is_raw (fun _ => b1) in_i then
          match s1 with
          | [] => Err IndexError
          | b :: s2 => dec_loop f s2 (in_i + 1 + 1) (b :: hist) (out_i + 1) code_length len_cd
          end
        else if dc_is_lit (fun _ => b1) in_i then
          c <- py_get compress_table b1 ;;
          dec_loop f s1 (in_i + 1) (c :: hist) (out_i + 1) code_length len_cd
        else
          match s1 with
          | [] => Err IndexError
          | b2 :: s2 =>
            let in_i' := in_i + 1 in
            let cd := fun k => if k =? in_i' then b2 else b1 in
            let offset := dc_offset cd in_i' in
            let length := dc_length cd in_i' in
            '(hist', out_i') <- copy_loop (Z.to_nat length) hist out_i offset code_length ;;
            dec_loop f s2 (in_i' + 1) hist' out_i' code_length len_cd
          end
      end
    else Ok (hist, out_i, in_i)
  end.

(* bytes.strip(chars) *)
Definition in_set (cs : list Z) (c : Z) : bool := existsb (Z.eqb c) cs.
Fixpoint lstrip_set (cs l : list Z) : list Z :=
  match l with
  | [] => []
  | x :: r => if in_set cs x then lstrip_set cs r else l
  end.
Definition strip_set (cs l : list Z) : list Z :=
  rev' (lstrip_set cs (rev' (lstrip_set cs l))).

Definition ends_with (suffix l : list Z) : bool := starts_with (rev' suffix) (rev' l).

(* if code.endswith(F): code = code[:-len(F)]; if code[-1] == b'\n'[0]: code = code[:-1] *)
Definition drop_suffix (f : list Z) (drop_nl : Z -> bool) (code : list Z) : result (list Z) :=
  if ends_with f code then
    let code1 := py_slice code 0 (- zlen f) in
    last_c <- py_get code1 (-1) ;;
    Ok (if drop_nl last_c then py_slice code1 0 (-1) else code1)
  else Ok code.

(* everything up to and including the loop: (code_length, out[:code_length], in_i) *)
Definition decode_raw (codedata : list Z) : result (Z * list Z * Z) :=
  b4 <- py_get codedata 4 ;; b5 <- py_get codedata 5 ;;
  let code_length := dc_code_length (fun k => if k =? 4 then b4 else b5) in
  _ <- assert_ (zlist_eqb (py_slice codedata dc_assert_lo dc_assert_hi) dc_assert_bytes) ;;
  '(hist, out_i, in_i) <- dec_loop (S (length codedata)) (skipn (Z.to_nat dc_in_i0) codedata) dc_in_i0 []
                                    dc_out_i0 code_length (zlen codedata) ;;
  let out := rev_append hist (repeat 0 (Z.to_nat (code_length - out_i))) in
  Ok (code_length, py_slice out 0 code_length, in_i).

(* code = bytes(out[:code_length]).strip(b'\x00'), then the two compatibility suffixes are removed *)
Definition dc_finish (code_length : Z) (out : list Z) (in_i : Z) : result (Z * list Z * Z) :=
  let code := strip_set dc_strip_bytes out in
  code <- drop_suffix future_code1 dc_drop_newline_0 code ;;
  code <- drop_suffix future_code2 dc_drop_newline_1 code ;;
  Ok (code_length, code, in_i).

Definition decompress_code (codedata : list Z) : result (Z * list Z * Z) :=
  '(code_length, out, in_i) <- decode_raw codedata ;; dc_finish code_length out in_i.
