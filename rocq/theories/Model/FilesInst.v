(* The include / require models instantiated with the constants regenerated from
   pico8/game/formatter/p8.py and pico8/build/build.py. *)
From PV Require Import Base.Prelude Base.Utf8 Model.Paths Model.Include Model.Require Model.P8sciiInst
  Generated.T_files_p8 Generated.T_files_build.

Definition inc_root_now : bytes -> bytes -> bytes -> bytes :=
  get_root_include_path pico8_cart_paths root_detection_kind.
Definition resolve_include_now : bytes -> bytes -> (bytes -> bool) -> bytes -> bytes -> result bytes :=
  resolve_include pico8_cart_paths root_detection_kind include_containment_kind.
Definition include_accesses_now : bytes -> bytes -> (bytes -> bool) -> bytes -> bytes -> list (bool * bytes) * bool :=
  include_accesses pico8_cart_paths root_detection_kind include_containment_kind.
(* the variant with plain string-prefix tests (the code before the two `fix:` commits; what a
   revert of them would regenerate) - kept only to state the refutation lemmas *)
Definition inc_root_prefix : bytes -> bytes -> bytes -> bytes :=
  get_root_include_path pico8_cart_paths 0.
Definition resolve_include_prefix : bytes -> bytes -> (bytes -> bool) -> bytes -> bytes -> result bytes :=
  resolve_include pico8_cart_paths 0 0.

Definition path_sep_now : Z := hd 0 lua_path_separator.
Definition placeholder_now : Z := hd 0 lua_path_placeholder.
Definition require_filter_now : bytes -> bool := require_filter require_filter_atoms.
(* the filter before the two `fix:` commits (only `./` and a leading `/`), for the refutation lemmas *)
Definition require_filter_old : bytes -> bool := require_filter [(1, [46; 47], []); (2, [47], [])].
Definition effective_lua_path_now : option bytes -> option bytes -> bytes :=
  effective_lua_path default_lua_path.
Definition require_candidates_now : bytes -> bytes -> bytes -> list bytes :=
  require_candidates path_sep_now placeholder_now.

(* the name captured from an include line -> the file name (as UTF-8 bytes), by the regenerated shape
   include_name_decode_kind: 0 = str(b, encoding='utf-8') (identity on valid UTF-8, UnicodeDecodeError
   otherwise), 1 = lua.p8scii_to_unicode(b) (every byte has a spelling; Model/P8scii.v) *)
Definition decode_name (kind : Z) (b : bytes) : result bytes :=
  if kind =? 0 then match utf8_decode b with Some _ => Ok b | None => Err UnicodeError end
  else Ok (utf8_encode (p8_p2u b)).
Definition decode_name_now : bytes -> result bytes := decode_name include_name_decode_kind.

(* process_includes(lualines, filename) on a file system view; filename = None: the assert fires at the
   first include line *)
Definition process_includes_now (cwd home : bytes) (fs : fsview) (filename : option bytes)
  : list bytes -> result (list bytes) :=
  process_includes include_newline_kind
    (match filename with Some _ => true | None => false end)
    decode_name_now
    (match filename with
     | Some f => resolve_include_now cwd home (fs_isfile fs) f
     | None => fun _ => Err AssertionError
     end)
    (fs_target include_cart_lines_kind fs).
