(* Map (pico8/map/map.py): cells and rectangles; rows 32-63 live in gfx bytes 4096..8191.
   State = (map data, gfx data); has_gfx says whether the Map has a Gfx attached. *)
From PV Require Import Base.Prelude Base.PySlice Model.HexSection Model.Gfx Generated.K_map.

Definition map_get_cell (m g : list Z) (has_gfx : bool) (x y : Z) : result Z :=
  _ <- assert_ (map_get_assert_x x) ;;
  _ <- assert_ (map_get_assert_y y (negb has_gfx)) ;;
  if map_get_upper y then py_get m (map_get_idx_map y x)
  else py_get g (map_get_idx_gfx y x).

Definition map_set_cell (m g : list Z) (has_gfx : bool) (x y val : Z) : result (list Z * list Z) :=
  _ <- assert_ (map_set_assert_x x) ;;
  _ <- assert_ (map_set_assert_y y (negb has_gfx)) ;;
  _ <- assert_ (map_set_assert_v val) ;;
  if map_set_upper y then m' <- py_set_byte m (map_set_idx_map y x) val ;; Ok (m', g)
  else g' <- py_set_byte g (map_set_idx_gfx y x) val ;; Ok (m, g').

Definition map_get_rect_tiles (m g : list Z) (has_gfx : bool) (x y width height : Z)
  : result (list (list Z)) :=
  _ <- assert_ (map_grt_assert_x x) ;;
  _ <- assert_ (map_grt_assert_w width) ;;
  _ <- assert_ (map_grt_assert_h height) ;;
  _ <- assert_ (map_grt_assert_y y) ;;
  _ <- assert_ (map_grt_assert_g y height (negb has_gfx)) ;;
  mapM (fun tile_y =>
          mapM (fun tile_x => if map_grt_offedge tile_y tile_x then Ok 0
                              else map_get_cell m g has_gfx tile_x tile_y)
               (range x width))
       (range y height).

Definition map_set_rect_tiles (m g : list Z) (has_gfx : bool) (rect : list (list Z)) (x y : Z)
  : result (list Z * list Z) :=
  foldM (fun st yrow =>
           let '(tile_y, row) := yrow in
           foldM (fun (st : list Z * list Z) xv =>
                    let '(tile_x, val) := xv in
                    if map_srt_skip tile_y y tile_x x then Ok st
                    else map_set_cell (fst st) (snd st) has_gfx (map_srt_cx tile_x x) (map_srt_cy tile_y y) val)
                 (enumerate_from 0 row) st)
        (enumerate_from 0 rect) (m, g).

Definition map_to_lines (d : list Z) := base_to_lines map_hex_line_bytes d.
