(* Map (pico8/map/map.py): cells and rectangles; rows 32-63 live in gfx bytes 4096..8191.
   State = (map data, gfx data); has_gfx says whether the Map has a Gfx attached. *)
From PV Require Import Base.Prelude Base.PySlice Model.HexSection Model.Gfx Generated.K_map.

Definition map_get_cell (m g : list Z) (has_gfx : bool) (x y : Z) : result Z :=
  _ <- assert_ (map_get_assert_x x) ;;
  _ <- assert_ (map_get_assert_y y (negb has_gfx)) ;;
  if map_get_upper y then py_get m (map_get_idx_map y x)
  else py_get g (map_get_idx_gfx y x).

Definition map_set_cell (m g : list Z) (has_gfx : bool) (x y val : Z) : result (list Z * list Z) :=
  _ <- assert_ (map_set_assert_x x) ;;
  _ <- assert_ (map_set_assert_y y (negb has_gfx)) ;;
  _ <- assert_ (map_set_assert_v val) ;;
  if map_set_upper y then m' <- py_set_byte m (map_set_idx_map y x) val ;; Ok (m', g)
  else g' <- py_set_byte g (map_set_idx_gfx y x) val ;; Ok (m, g').

Definition map_get_rect_tiles (m g : list Z) (has_gfx : bool) (x y width height : Z)
  : result (list (list Z)) :=
  _ <- assert_ (map_grt_assert_x x) ;;
  _ <- assert_ (map_grt_assert_w width) ;;
  _ <- assert_ (map_grt_assert_h height) ;;
  _ <- assert_ (map_grt_assert_y y) ;;
  _ <- assert_ (map_grt_assert_g y height (negb has_gfx)) ;;
  mapM (fun tile_y =>
          mapM (fun tile_x => if map_grt_offedge tile_y tile_x then Ok 0
                              else map_get_cell m g has_gfx tile_x tile_y)
               (range x width))
       (range y height).

(* ---- get_rect_pixels ----
   for i in range(0, 8): pixel_row[i].extend(sprite[i])  (the row buffers are updated in place) *)
Definition grp_extend (pixel_row sprite : list (list Z)) : result (list (list Z)) :=
  foldM (fun pr i => r <- py_get pr i ;; s <- py_get sprite i ;; py_set pr i (r ++ s))
        (range map_grp_ext_lo (map_grp_ext_hi - map_grp_ext_lo)) pixel_row.

(* one row of tiles: 8 row buffers, every tile appended to each of them; tile 0 is the shared
   all-zero sprite (only read, so the aliasing of `[bytearray(8)] * 8` is invisible) *)
Definition grp_tile_row (g : list Z) (tile_row : list Z) : result (list (list Z)) :=
  pixel_row <- foldM (fun pr id =>
                        sprite <- (if map_grp_empty id then Ok map_grp_empty_sprite
                                   else get_sprite g (map_grp_sprite_id id) map_grp_sprite_w map_grp_sprite_h) ;;
                        grp_extend pr sprite)
                     tile_row map_grp_pixel_row_init ;;
  mapM (py_get pixel_row) (range map_grp_out_lo (map_grp_out_hi - map_grp_out_lo)).

Definition map_get_rect_pixels (m g : list Z) (has_gfx : bool) (x y width height : Z)
  : result (list (list Z)) :=
  _ <- assert_ (map_grp_assert_g (negb has_gfx)) ;;
  _ <- assert_ (map_grp_assert_x x) ;;
  _ <- assert_ (map_grp_assert_w width) ;;
  _ <- assert_ (map_grp_assert_h height) ;;
  _ <- assert_ (map_grp_assert_yh y height) ;;
  tile_rect <- map_get_rect_tiles m g has_gfx x y width height ;;
  rows <- mapM (grp_tile_row g) tile_rect ;;
  Ok (concat rows).

Definition map_set_rect_tiles (m g : list Z) (has_gfx : bool) (rect : list (list Z)) (x y : Z)
  : result (list Z * list Z) :=
  foldM (fun st yrow =>
           let '(tile_y, row) := yrow in
           foldM (fun (st : list Z * list Z) xv =>
                    let '(tile_x, val) := xv in
                    if map_srt_skip tile_y y tile_x x then Ok st
                    else map_set_cell (fst st) (snd st) has_gfx (map_srt_cx tile_x x) (map_srt_cy tile_y y) val)
                 (enumerate_from 0 row) st)
        (enumerate_from 0 rect) (m, g).

Definition map_to_lines (d : list Z) := base_to_lines map_hex_line_bytes d.
