(* The embedding model of Model/ReqEmbed.v instantiated with the models of the Lua text stack
   (Model/Lexer.v, Model/Parser.v), the location model (Model/Require.v, Model/Paths.v) and the
   constants regenerated from pico8/build/build.py (Generated/T_files_build.v, T_require.v).

   Hand-modelled here, mirroring build.py after the `fix:` commits recorded in
   findings/known_C14.json:
     RequireWalker (BaseASTWalker._walk + the _walk_FunctionCall override)      -> [walk_tree]
     the `if not use_game_loop:` block of _evaluate_require                      -> [strip_lua]
     Lua.from_lines / LuaEchoWriter.to_lines / iterating a binary file           -> [from_lines] [echo_lines] [file_lines]
     require_path.decode('utf-8') + the "./" "/" test                            -> [check_name_now]
     _locate_require_file + os.path.isfile / open over a finite file map         -> [find_in]
   Executable definitions only. *)
From PV Require Import Base.Prelude Base.Utf8 Generated.T_lexer Generated.T_files_build Generated.T_require
  Model.Lexer Model.Tokens Model.Parser Model.ParserInst Model.Paths Model.Require Model.FilesInst
  Model.ReqEmbed.
Close Scope pm_scope.

(* ---------- Lua objects ---------- *)
Record lua : Set := mkLua { l_toks : list tok; l_root : tree }.

Definition kclass_of (k : tok_kind) : kclass :=
  match k with
  | KSpace => CSpace | KNewline => CNewline | KComment => CComment | KString => CString
  | KNumber => CNumber | KName => CName | KLabel => CLabel | KKeyword => CKeyword | KSymbol => CSymbol
  end.

(* the lexer model's token as the parser model sees it *)
Definition token_of_tok (t : tok) : token :=
  mkTok (kclass_of (t_kind t))
        (match t_kind t with
         | KString => match t_ml t with
                      | Some eqs => 256 + zlen eqs
                      | None => hd 0 (t_quote t)
                      end
         | _ => 0
         end)
        (t_data t) (tok_code t).

(* Lua.from_lines(lines, version): Lexer.process_lines, then Parser.process_tokens *)
Definition from_lines (lines : list bytes) : result lua :=
  ts <- model_lex lines ;;
  '(root, _) <- lua_parse (map token_of_tok ts) ;;
  Ok (mkLua ts root).

(* LuaEchoWriter.to_lines over a token list: the codes joined, cut after every newline token;
   [pending] = `strs` is non-empty *)
Fixpoint echo_toks (ts : list tok) (cur : bytes) (pending : bool) : list bytes :=
  match ts with
  | [] => if pending then [cur] else []
  | t :: r =>
    let cur' := cur ++ tok_code t in
    match t_kind t with
    | KNewline => cur' :: echo_toks r [] false
    | _ => echo_toks r cur' true
    end
  end.

Definition echo_lines (p : lua) : list bytes := echo_toks (l_toks p) [] false.

(* `for line in infh` on a file opened 'rb': cut after every \n *)
Fixpoint file_lines_from (s : bytes) (cur_rev : bytes) : list bytes :=
  match s with
  | [] => match cur_rev with [] => [] | _ => [rev' cur_rev] end
  | c :: r => if c =? 10 then rev' (c :: cur_rev) :: file_lines_from r []
              else file_lines_from r (c :: cur_rev)
  end.
Definition file_lines (s : bytes) : list bytes := file_lines_from s [].

(* ---------- RequireWalker ---------- *)
Definition wres : Set := (list (bytes * bool) * option err)%type.
Definition wnil : wres := ([], None).
Definition wseq (a b : wres) : wres :=
  match snd a with
  | Some _ => a
  | None => (fst a ++ fst b, snd b)
  end.
Definition wraise (e : err) : wres := ([], Some e).

Definition name_require : bytes := nth 0 walker_tokname_literals [].
Definition name_use_game_loop : bytes := nth 1 walker_tokname_literals [].

(* the visible items of a list-valued field *)
Definition items_of (t : tree) : list tree :=
  match strip_paren t with Lst l => visible l | _ => [] end.

Definition vfields (t : tree) : list tree :=
  match strip_paren t with Node _ _ _ _ fs => visible fs | _ => [] end.

(* isinstance(node.exp_prefix, VarName) and node.exp_prefix.name == TokName(b'require') *)
Definition is_require_prefix (prefix : tree) : bool :=
  (tag_of prefix =? tVarName) &&
  match vfields prefix with
  | Tok _ t :: _ => kclass_eqb (tk t) CName && zlist_eqb (tdata t) name_require
  | _ => false
  end.

(* the value of an ExpValue node (None for anything that is not an ExpValue) *)
Definition expvalue_of (a : tree) : option tree :=
  if tag_of a =? tExpValue then Some (first_field a) else None.

(* TokString.value of the token at index i *)
Definition string_value_at (toks : list tok) (i : Z) : bytes :=
  match nth_error toks (Z.to_nat i) with Some t => tok_str_value t | None => [] end.

(* the options table {use_game_loop=<bool>}: the three tests of the `or` in source order *)
Definition option_of (tbl : tree) : result bool :=
  match items_of (match vfields tbl with f :: _ => f | [] => PNone end) with
  | [f] =>
    if tag_of f =? tFieldNamedKey then
      match vfields f with
      | Tok _ kt :: e :: _ =>
        if negb (zlist_eqb (tdata kt) name_use_game_loop) then Err BuildError
        else if (tag_of e =? tExpValue) then
          match first_field e with
          | PBool b => Ok b
          | _ => Err BuildError                    (* type(...) != bool *)
          end
        else Err AttributeError                    (* ExpBinOp / ExpUnOp / VarargDots have no .value *)
      | _ => Err AttributeError
      end
    else Err AttributeError                        (* FieldExp / FieldExpKey have no .key_name *)
  | _ => Err BuildError                            (* len(fields) != 1 *)
  end.

(* the body of the `if` branch of _walk_FunctionCall: one yielded item, or the exception *)
Definition require_item (toks : list tok) (args : tree) : wres :=
  let arg_exps :=
    if tag_of args =? tFunctionArgs then
      match vfields args with
      | el :: _ => if is_none el then [] else items_of (match vfields el with f :: _ => f | [] => PNone end)
      | [] => []
      end
    else [args] in                                  (* ExpValue(node.args): its value is args itself *)
  let value_of (a : tree) : option tree :=
    if tag_of args =? tFunctionArgs then expvalue_of a else Some a in
  let n := zlen arg_exps in
  if (n <? 1) || (n >? 2) then wraise BuildError else
  match arg_exps with
  | a0 :: rest =>
    match value_of a0 with
    | Some (Tok i t) =>
      if negb (kclass_eqb (tk t) CString) then wraise BuildError else
      let path := string_value_at toks i in
      match rest with
      | [] => ([(path, false)], None)
      | a1 :: _ =>
        match value_of a1 with
        | Some v =>
          if negb (tag_of v =? tTableConstructor) then wraise BuildError else
          match option_of v with
          | Ok gl => ([(path, gl)], None)
          | Err e => wraise e
          end
        | None => wraise BuildError
        end
      end
    | _ => wraise BuildError
    end
  | [] => wraise BuildError
  end.

Section Walk.
Variable toks : list tok.

(* BaseASTWalker._walk with RequireWalker's handler for FunctionCall; every other class has the
   default handler (walk the fields in order) *)
Fixpoint walk_tree (t : tree) : wres :=
  let walk_all := fix go (l : list tree) : wres :=
    match l with
    | [] => wnil
    | x :: r => wseq (if is_hidden x then wnil else walk_tree x) (go r)
    end in
  match t with
  | Node tag _ _ _ fs =>
    if tag =? tFunctionCall then
      match visible fs with
      | prefix :: args :: _ =>
        if is_require_prefix prefix then require_item toks args else walk_all fs
      | _ => walk_all fs
      end
    else walk_all fs
  | Lst l => walk_all l
  | Paren _ _ x => walk_tree x
  | _ => wnil
  end.
End Walk.

Definition walk_lua (p : lua) : wres := walk_tree (l_toks p) (l_root p).

(* ---------- the `if not use_game_loop:` block ---------- *)
Definition is_trivia_tok (t : tok) : bool :=
  match t_kind t with KSpace | KNewline | KComment => true | _ => false end.

(* isinstance(s, StatFunction) and len(namepath) == 1 and methodname is None
   and namepath[0].value in GAME_LOOP_FUNCTION_NAMES *)
Definition is_game_loop_stat (s : tree) : bool :=
  (tag_of s =? tStatFunction) &&
  match vfields s with
  | fname :: _ =>
    match vfields fname with
    | path :: meth :: _ =>
      match items_of path with
      | [Tok _ nt] => is_none meth && mem_name (tdata nt) game_loop_function_names
      | _ => false
      end
    | _ => false
    end
  | _ => false
  end.

(* while isinstance(tokens[start], (TokSpace, TokNewline, TokComment)): start += 1 *)
Fixpoint skip_trivia (ts : list tok) (start : Z) : result Z :=
  match ts with
  | [] => Err IndexError
  | t :: r => if is_trivia_tok t then skip_trivia r (start + 1) else Ok start
  end.

Definition space_tok : tok := mk_tok KSpace strip_replacement_data 0 0 [] None strip_replacement_data.

(* tokens[start:end] = [TokSpace(b' ')]  for 0 <= start, 0 <= end (a slice whose end lies before its
   start is the empty slice at start) *)
Definition splice (ts : list tok) (a b : Z) : list tok :=
  firstn (Z.to_nat a) ts ++ space_tok :: skipn (Z.to_nat (Z.max a b)) ts.

(* for s in reversed(root.stats): ... *)
Fixpoint strip_stats (stats_rev : list tree) (ts : list tok) : result (list tok) :=
  match stats_rev with
  | [] => Ok ts
  | s :: r =>
    if is_game_loop_stat s then
      match start_of s, end_of s with
      | Some a, Some b =>
        a' <- skip_trivia (skipn (Z.to_nat a) ts) a ;;
        strip_stats r (splice ts a' b)
      | _, _ => Err AttributeError
      end
    else strip_stats r ts
  end.

Definition root_stats (root : tree) : list tree :=
  items_of (match vfields root with f :: _ => f | [] => PNone end).

Definition strip_lua (p : lua) : result lua :=
  ts <- strip_stats (rev' (root_stats (l_root p))) (l_toks p) ;;
  from_lines (echo_toks ts [] false).

(* ---------- names and files ---------- *)
Definition check_name_now (name : bytes) : result unit :=
  match utf8_decode name with
  | None => Err UnicodeError
  | Some _ => if require_filter_now name then Ok tt else Err BuildError
  end.

Fixpoint lookup_file (fs : list (bytes * bytes)) (p : bytes) : option bytes :=
  match fs with
  | [] => None
  | (k, v) :: r => if zlist_eqb k p then Some v else lookup_file r p
  end.

(* the file system: regular files by normalised absolute path; everything else is not a file *)
Definition isfile_in (cwd : bytes) (fs : list (bytes * bytes)) (p : bytes) : bool :=
  match lookup_file fs (abspath cwd p) with Some _ => true | None => false end.

Definition find_in (cwd : bytes) (fs : list (bytes * bytes)) (lua_path : bytes)
           (file_path name : bytes) : option (bytes * bytes) :=
  match locate_require_file path_sep_now placeholder_now (isfile_in cwd fs) file_path lua_path name with
  | None => None
  | Some c => match lookup_file fs (abspath cwd c) with
              | Some content => Some (c, content)
              | None => None
              end
  end.

(* ---------- constants ---------- *)
Fixpoint replace_bytes1 (old : Z) (new : bytes) (s : bytes) : bytes :=
  match s with
  | [] => []
  | c :: r => if c =? old then new ++ replace_bytes1 old new r else c :: replace_bytes1 old new r
  end.

(* pth.replace(a, b).replace(c, d): every `old` of the regenerated chain is one byte *)
Definition escape_name (n : bytes) : bytes :=
  fold_left (fun s pr => replace_bytes1 (hd 0 (fst pr)) (snd pr) s) pkg_escape_pairs n.

Definition header_line_now (n : bytes) : bytes := pkg_header_prefix ++ escape_name n ++ pkg_header_suffix.
Definition nl_line_now : bytes := nth 0 pkg_appended_literals [].
Definition end_line_now : bytes := nth 1 pkg_appended_literals [].

(* ---------- the instance ---------- *)
Section Now.
Variable cwd : bytes.
Variable fs : list (bytes * bytes).
Variable lua_path : bytes.            (* the effective load path (argument, environment or default) *)

Definition eval_now := eval lua from_lines strip_lua walk_lua file_lines check_name_now (find_in cwd fs lua_path).
Definition build_lua_now :=
  build_lua lua from_lines echo_lines strip_lua walk_lua file_lines check_name_now (find_in cwd fs lua_path)
            require_lua_preamble_package require_lua_preamble_require header_line_now end_line_now nl_line_now.
Definition build_code_now :=
  build_code lua from_lines echo_lines strip_lua walk_lua file_lines check_name_now (find_in cwd fs lua_path)
             require_lua_preamble_package require_lua_preamble_require header_line_now end_line_now nl_line_now.

(* every require string any file of the map (in either form) or the main program can yield *)
Definition names_of_content (c : bytes) : list bytes :=
  match from_lines (file_lines c) with
  | Err _ => []
  | Ok q => map fst (fst (walk_lua q)) ++
            match strip_lua q with Ok q' => map fst (fst (walk_lua q')) | Err _ => [] end
  end.
Definition universe (main_content : bytes) : list bytes :=
  names_of_content main_content ++ flat_map (fun e => names_of_content (snd e)) fs.
Definition fuel_now (main_content : bytes) : nat := S (length (universe main_content)).
End Now.

(* ---------- entry points of the extracted runner ---------- *)
(* the whole build: the __lua__ section of OUT.p8 and the package names in table order *)
Definition run_build (cwd : bytes) (fs : list (bytes * bytes)) (lua_path main_path main_content : bytes)
  : result (bytes * list bytes) :=
  '(r, pk) <- build_lua_now cwd fs lua_path (fuel_now fs main_content) main_path main_content ;;
  code <- lua_section lua from_lines echo_lines r ;;
  Ok (code, names lua pk).

(* one file: RequireWalker on it, as loaded with or without {use_game_loop=true} *)
Definition run_walk (content : bytes) (gl : bool) : result (wres * bytes) :=
  q <- from_lines (file_lines content) ;;
  q' <- (if gl then Ok q else strip_lua q) ;;
  Ok (walk_lua q', concat (echo_lines q')).
