(* Gff (pico8/gff/gff.py): four flag operations; lines via BaseSection. *)
From PV Require Import Base.Prelude Base.PySlice Model.HexSection Generated.K_gff.

Definition arr (d : list Z) : Z -> Z := fun i => match py_get d i with Ok v => v | Err _ => 0 end.

Definition gff_get_flags (d : list Z) (id flags : Z) : result Z :=
  _ <- assert_ (gff_get_assert id) ;;
  _ <- py_get d id ;;
  Ok (gff_get (arr d) id flags).

Definition gff_set_flags (d : list Z) (id flags : Z) : result (list Z) :=
  _ <- assert_ (gff_set_assert id) ;;
  _ <- py_get d (gff_set_idx id) ;;
  py_set_byte d (gff_set_idx id) (gff_set_new (arr d) id flags).

Definition gff_clear_flags (d : list Z) (id flags : Z) : result (list Z) :=
  _ <- assert_ (gff_clear_assert id) ;;
  _ <- py_get d (gff_clear_idx id) ;;
  py_set_byte d (gff_clear_idx id) (gff_clear_new (arr d) id flags).

Definition gff_reset_flags (d : list Z) (id flags : Z) : result (list Z) :=
  _ <- assert_ (gff_reset_assert id) ;;
  py_set_byte d (gff_reset_idx id) (gff_reset_val flags).

Definition gff_to_lines (d : list Z) := base_to_lines gff_hex_line_bytes d.
