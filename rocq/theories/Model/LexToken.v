(* The lexer model's token (Model/Lexer.v) as the parser model and the AST writer models see it
   (Spec/LuaTokens.v): class, string delimiter, Token._data, Token.code.  The same function as
   ReqEmbedInst.token_of_tok (Proofs/LexTokenSame.v), kept apart so that the cones of the writer
   properties need not load the file-system models. *)
From PV Require Import Base.Prelude Spec.LuaTokens Generated.T_lexer Model.Lexer.

Definition kclass_of_kind (k : tok_kind) : kclass :=
  match k with
  | KSpace => CSpace | KNewline => CNewline | KComment => CComment | KString => CString
  | KNumber => CNumber | KName => CName | KLabel => CLabel | KKeyword => CKeyword | KSymbol => CSymbol
  end.

Definition lex_token (t : tok) : token :=
  mkTok (kclass_of_kind (t_kind t))
        (match t_kind t with
         | KString => match t_ml t with
                      | Some eqs => 256 + zlen eqs
                      | None => hd 0 (t_quote t)
                      end
         | _ => 0
         end)
        (t_data t) (tok_code t).
