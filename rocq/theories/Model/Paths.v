(* Model of the pure string functions of CPython's posixpath that picotool's include /
   require resolution uses (os.path.normpath, join, dirname, abspath, expanduser, isabs,
   str.startswith, str.split, str.replace).  Paths are byte strings (UTF-8 of the Python
   str; every function below only inspects the ASCII bytes '/', '.', '~', '?', so acting on
   the UTF-8 bytes is the same as acting on code points).  Executable definitions only;
   each is correspondence-tested against posixpath exhaustively (harness/props/c12.py).

   Not modelled: `~user` expansion (a pwd lookup; returned unchanged, as CPython does for an
   unknown user), embedded NUL, a missing HOME variable. *)
From PV Require Import Base.Prelude.

Definition SLASH : Z := 47.
Definition DOT : Z := 46.
Definition TILDE : Z := 126.

Definition is_slash (c : Z) : bool := c =? 47.
Definition is_empty (s : bytes) : bool := match s with [] => true | _ => false end.
Definition is_dot (s : bytes) : bool := match s with [46] => true | _ => false end.
Definition is_dotdot (s : bytes) : bool := match s with [46; 46] => true | _ => false end.
Definition has_slash (s : bytes) : bool := existsb is_slash s.
Definition all_slash (s : bytes) : bool := forallb is_slash s.

(* s.split(sep) for a one-character separator: never the empty list *)
Fixpoint split_on (sep : Z) (s : bytes) : list bytes :=
  match s with
  | [] => [[]]
  | c :: r =>
    if c =? sep then [] :: split_on sep r
    else match split_on sep r with
         | h :: t => (c :: h) :: t
         | [] => [[c]]
         end
  end.

(* sep.join(l) *)
Fixpoint join_with (sep : Z) (l : list bytes) : bytes :=
  match l with
  | [] => []
  | [x] => x
  | x :: r => x ++ sep :: join_with sep r
  end.

(* s.replace(old, new) for a one-character old *)
Definition replace_char (old : Z) (new : bytes) (s : bytes) : bytes :=
  flat_map (fun c => if c =? old then new else [c]) s.

Fixpoint ends_with_slash (s : bytes) : bool :=
  match s with
  | [] => false
  | [c] => is_slash c
  | _ :: r => ends_with_slash r
  end.

(* s.rstrip('/') *)
Fixpoint rstrip_slash (s : bytes) : bytes :=
  match s with
  | [] => []
  | c :: r => if all_slash s then [] else c :: rstrip_slash r
  end.

(* s[:s.rfind('/')+1] *)
Fixpoint dir_prefix (s : bytes) : bytes :=
  match s with
  | [] => []
  | c :: r => if has_slash s then c :: dir_prefix r else []
  end.

(* posixpath.isabs *)
Definition isabs (p : bytes) : bool := starts_with [47] p.

(* posixpath.join(a, b) *)
Definition join (a b : bytes) : bytes :=
  if isabs b then b
  else if is_empty a || ends_with_slash a then a ++ b
  else a ++ 47 :: b.

(* posixpath.dirname *)
Definition dirname (p : bytes) : bytes :=
  let head := dir_prefix p in
  if negb (is_empty head) && negb (all_slash head) then rstrip_slash head else head.

(* number of leading slashes normpath keeps: 0, 1, or 2 (exactly two) *)
Definition initial_slashes (p : bytes) : nat :=
  match p with
  | 47 :: 47 :: 47 :: _ => 1%nat
  | 47 :: 47 :: _ => 2%nat
  | 47 :: _ => 1%nat
  | _ => 0%nat
  end.

(* the component loop of normpath; [stk] is new_comps reversed *)
Fixpoint norm_comps (rooted : bool) (comps : list bytes) (stk : list bytes) : list bytes :=
  match comps with
  | [] => stk
  | c :: r =>
    if is_empty c || is_dot c then norm_comps rooted r stk
    else if negb (is_dotdot c) then norm_comps rooted r (c :: stk)
    else match stk with
         | [] => if rooted then norm_comps rooted r stk else norm_comps rooted r (c :: stk)
         | t :: stk' => if is_dotdot t then norm_comps rooted r (c :: stk) else norm_comps rooted r stk'
         end
  end.

(* posixpath.normpath *)
Definition normpath (p : bytes) : bytes :=
  match p with
  | [] => [46]
  | _ =>
    let k := initial_slashes p in
    let body := join_with 47 (rev (norm_comps (negb (Nat.eqb k 0)) (split_on 47 p) [])) in
    match repeat 47 k ++ body with
    | [] => [46]
    | r => r
    end
  end.

(* posixpath.abspath with os.getcwd() = cwd *)
Definition abspath (cwd p : bytes) : bytes :=
  normpath (if isabs p then p else join cwd p).

(* posixpath.expanduser with os.environ['HOME'] = home; `~user` is returned unchanged *)
Definition expanduser (home p : bytes) : bytes :=
  match p with
  | 126 :: rest =>
    match rest with
    | [] | 47 :: _ =>
      match rstrip_slash home ++ rest with
      | [] => [47]
      | r => r
      end
    | _ => p
    end
  | _ => p
  end.

(* the composition both include functions apply *)
Definition full_path (cwd home p : bytes) : bytes := abspath cwd (normpath (expanduser home p)).
