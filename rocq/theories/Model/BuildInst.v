(* The do_build model instantiated with the constants regenerated from pico8/build/build.py,
   pico8/game/file.py and the argparse definition in pico8/tool.py. *)
From PV Require Import Base.Prelude Spec.BuildSpec Model.Build
  Generated.T_file_proto Generated.T_build_do.

Definition do_build_now {A} (w : world A) (ns : namespace) : outcome A :=
  do_build build_sections build_endswith_consts build_empty_prefixes do_build_section_eq_consts
           do_build_format_attrs do_build_minify_attrs do_build_writer_cls_is_tuple w ns.

Definition namespace_now (args : build_args) : namespace := namespace_of build_arg_dests args.

Definition spec_view_now {A} (w : world A) (filename : bytes) (o : outcome A) : option (secs A * label_req A) :=
  spec_view w formatters_order filename o.

Definition stored_label_now {A} (w : world A) (filename : bytes) (c : cart A) (lbl : bool) : result (option A * bool) :=
  stored_label w formatters_order filename c lbl.
