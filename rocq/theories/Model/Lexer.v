(* Model of pico8/lua/lexer.py: Lexer._process_token / _process_line / process_lines, Token.code /
   TokString.code, TokNumber.value, and Lua.get_token_count.

   Regenerated (Generated/T_lexer.v, runtime values): the ordered matcher table [token_matchers]
   (matcher id + token class per entry, symbols as literals in table order), [string_escapes],
   [string_reverse_escapes].  Hand-modelled: the control flow of the three functions and, per
   matcher id, a scanner reproducing Python's bytes-mode [re] result for the pinned pattern source
   (pins: Proofs/LexerProofs.v).  Definitions only; the input is a LIST OF CHUNKS. *)
From PV Require Import Base.Prelude Generated.T_lexer.

(* ---------- tokens *)
Record tok : Set := mk_tok {
  t_kind : tok_kind;
  t_data : list Z;           (* Token._data *)
  t_line : Z;                (* Token._lineno *)
  t_col : Z;                 (* Token._charno *)
  t_quote : list Z;          (* TokString._quote: [34] / [39]; [] = None *)
  t_ml : option (list Z);    (* TokString._multiline_quote: Some "===" ; None *)
  t_ext : list Z             (* ghost: the source bytes consumed for this token *)
}.

(* ---------- byte classes as Python's bytes-mode re sees them *)
Definition m_digit (c : Z) : bool := (48 <=? c) && (c <=? 57).                     (* [0-9], \d *)
Definition m_hex (c : Z) : bool :=
  m_digit c || ((97 <=? c) && (c <=? 102)) || ((65 <=? c) && (c <=? 70)).           (* [0-9a-fA-F] *)
Definition m_bin (c : Z) : bool := (c =? 48) || (c =? 49).                          (* [01] *)
Definition m_alpha (c : Z) : bool := ((97 <=? c) && (c <=? 122)) || ((65 <=? c) && (c <=? 90)).
Definition m_word (c : Z) : bool := m_alpha c || m_digit c || (c =? 95).            (* \w, ASCII only *)
Definition m_name_start (c : Z) : bool := m_alpha c || (c =? 95) || ((128 <=? c) && (c <=? 255)).
Definition m_name_char (c : Z) : bool := m_name_start c || m_digit c.
Definition m_blank (c : Z) : bool := (c =? 32) || (c =? 9).                         (* [ \t] *)
Definition m_not_eol (c : Z) : bool := negb (c =? 10) && negb (c =? 13).            (* [^\r\n] *)

(* greedy  [class]*  : (matched, rest) *)
Fixpoint take_while (p : Z -> bool) (s : list Z) : list Z * list Z :=
  match s with
  | c :: r => if p c then let '(a, b) := take_while p r in (c :: a, b) else ([], s)
  | [] => ([], [])
  end.

(* literal prefix: rest *)
Fixpoint drop_prefix (p s : list Z) : option (list Z) :=
  match p, s with
  | [], _ => Some s
  | x :: p', y :: s' => if x =? y then drop_prefix p' s' else None
  | _ :: _, [] => None
  end.

Definition is_nil {A} (l : list A) : bool := match l with [] => true | _ => false end.
Definition hd_is (c : Z) (s : list Z) : bool := match s with x :: _ => x =? c | [] => false end.

(* [class]+ *)
Definition take_while1 (p : Z -> bool) (s : list Z) : option (list Z * list Z) :=
  let '(a, b) := take_while p s in if is_nil a then None else Some (a, b).

(* optional group  (\.[class]+)?  *)
Definition opt_frac (p : Z -> bool) (s : list Z) : list Z * list Z :=
  if hd_is 46 s then
    match take_while1 p (tl s) with Some (a, b) => (46 :: a, b) | None => ([], s) end
  else ([], s).

(* optional group  ([eE]-?[0-9]+)?  *)
Definition opt_exp (s : list Z) : list Z * list Z :=
  match s with
  | e :: r =>
    if (e =? 101) || (e =? 69) then
      if hd_is 45 r then
        match take_while1 m_digit (tl r) with
        | Some (a, b) => (e :: 45 :: a, b)
        | None => ([], s)             (* '-?' backtracks to empty, then [0-9]+ fails on '-' *)
        end
      else match take_while1 m_digit r with Some (a, b) => (e :: a, b) | None => ([], s) end
    else ([], s)
  | [] => ([], s)
  end.

(* 0[xX]  /  0[bB] *)
Definition num_prefix (l u : Z) (s : list Z) : option (list Z * list Z) :=
  match s with
  | z :: x :: r => if (z =? 48) && ((x =? l) || (x =? u)) then Some ([48; x], r) else None
  | _ => None
  end.

(* 0[xX][class]+(\.[class]+)? *)
Definition scan_based (l u : Z) (p : Z -> bool) (s : list Z) : option (list Z * list Z) :=
  match num_prefix l u s with
  | None => None
  | Some (pre, r) =>
    match take_while1 p r with
    | None => None
    | Some (a, r2) => let '(f, r3) := opt_frac p r2 in Some (pre ++ a ++ f, r3)
    end
  end.

(* 0[xX]\.[class]+ *)
Definition scan_based_frac (l u : Z) (p : Z -> bool) (s : list Z) : option (list Z * list Z) :=
  match num_prefix l u s with
  | None => None
  | Some (pre, r) =>
    if hd_is 46 r then
      match take_while1 p (tl r) with Some (a, r2) => Some (pre ++ 46 :: a, r2) | None => None end
    else None
  end.

(* MNumDec: digits+, optional group (dot not followed by dot, digits-star), optional exponent group *)
Definition scan_decimal (s : list Z) : option (list Z * list Z) :=
  match take_while1 m_digit s with
  | None => None
  | Some (a, r) =>
    let '(f, r2) :=
      if hd_is 46 r then
        if hd_is 46 (tl r) then ([], r)                          (* negative lookahead: not a second dot *)
        else let '(d, r') := take_while m_digit (tl r) in (46 :: d, r')
      else ([], r) in
    let '(e, r3) := opt_exp r2 in Some (a ++ f ++ e, r3)
  end.

(* \.[0-9]+([eE]-?[0-9]+)? *)
Definition scan_decimal_frac (s : list Z) : option (list Z * list Z) :=
  if hd_is 46 s then
    match take_while1 m_digit (tl s) with
    | Some (a, r2) => let '(e, r3) := opt_exp r2 in Some (46 :: a ++ e, r3)
    | None => None
    end
  else None.

(* MName: one name-start byte, then name bytes, greedy *)
Definition scan_name (s : list Z) : option (list Z * list Z) :=
  match s with
  | c :: r => if m_name_start c then let '(a, b) := take_while m_name_char r in Some (c :: a, b) else None
  | [] => None
  end.

(* ::name:: *)
Definition scan_label (s : list Z) : option (list Z * list Z) :=
  match drop_prefix [58; 58] s with
  | Some r =>
    match scan_name r with
    | Some (n, r2) =>
      match drop_prefix [58; 58] r2 with
      | Some r3 => Some (58 :: 58 :: n ++ [58; 58], r3)
      | None => None
      end
    | None => None
    end
  | None => None
  end.

(* \bkw(?![a-zA-Z0-9_\x80-\xff]) at the start of the subject: the left \b holds because kw starts with
   a word byte and nothing precedes; the lookahead holds iff the next byte is not a name byte *)
Definition scan_keyword (kw s : list Z) : option (list Z * list Z) :=
  match kw with
  | [] => None
  | k0 :: _ =>
    if m_word k0 then
      match drop_prefix kw s with
      | Some r =>
        match r with
        | c :: _ => if m_name_char c then None else Some (kw, r)
        | [] => Some (kw, r)
        end
      | None => None
      end
    else None        (* not a word-initial literal: outside what this scanner models *)
  end.

Definition scan_literal (lit s : list Z) : option (list Z * list Z) :=
  match lit with
  | [] => None
  | _ => match drop_prefix lit s with Some r => Some (lit, r) | None => None end
  end.

Definition run_matcher (m : matcher_id) (s : list Z) : option (list Z * list Z) :=
  match m with
  | MCommentDash =>
    match drop_prefix [45; 45] s with
    | Some r => let '(a, b) := take_while m_not_eol r in Some (45 :: 45 :: a, b)
    | None => None
    end
  | MCommentSlash =>
    match drop_prefix [47; 47] s with
    | Some r => let '(a, b) := take_while m_not_eol r in Some (47 :: 47 :: a, b)
    | None => None
    end
  | MSpace => take_while1 m_blank s
  | MNlCrLf => scan_literal [13; 10] s
  | MNlLf => scan_literal [10] s
  | MNlCr => scan_literal [13] s
  | MNumHex => scan_based 120 88 m_hex s
  | MNumHexFrac => scan_based_frac 120 88 m_hex s
  | MNumBin => scan_based 98 66 m_bin s
  | MNumBinFrac => scan_based_frac 98 66 m_bin s
  | MNumDec => scan_decimal s
  | MNumDecFrac => scan_decimal_frac s
  | MLabel => scan_label s
  | MKeyword kw => scan_keyword kw s
  | MSymbol lit => scan_literal lit s
  | MName => scan_name s
  | MQmark => scan_literal [63] s
  end.

(* for (pat, tok_class) in _TOKEN_MATCHERS: first match wins *)
Fixpoint first_matcher (tbl : list (matcher_id * tok_kind)) (s : list Z) : option (tok_kind * list Z * list Z) :=
  match tbl with
  | [] => None
  | (m, k) :: tbl' =>
    match run_matcher m s with
    | Some (a, r) => Some (k, a, r)
    | None => first_matcher tbl' s
    end
  end.

(* the symbol part of the table, on its own (C07_symbols_longest is about this function) *)
Fixpoint first_match (l : list (list Z)) (s : list Z) : option (list Z) :=
  match l with
  | [] => None
  | x :: l' => if starts_with x s then Some x else first_match l' s
  end.

(* ---------- lexer state *)
Inductive mstate : Set :=
| Normal
| InString (delim : Z) (acc_rev : list Z) (line col : Z) (ext_rev : list Z)
| InComment (acc_rev : list Z) (line col : Z)
| InLongString (eqs : list Z) (acc_rev : list Z) (line col : Z) (ext_rev : list Z).

Record lexst : Set := mk_lexst {
  l_state : mstate;
  l_line : Z;                (* _cur_lineno *)
  l_col : Z;                 (* _cur_charno *)
  l_toks_rev : list tok      (* _tokens, newest first *)
}.

Definition init_lexst : lexst := mk_lexst Normal 0 0 [].

(* the position loop at the end of _process_token *)
Definition advance1 (lc : Z * Z) (c : Z) : Z * Z :=
  let '(l, k) := lc in if c =? 10 then (l + 1, 0) else (l, k + 1).
Definition advance (lc : Z * Z) (bs : list Z) : Z * Z := fold_left advance1 bs lc.

(* dict lookup in the regenerated escape tables (keys and values are byte strings) *)
Fixpoint lookup_bytes (m : list (list Z * list Z)) (k : list Z) : option (list Z) :=
  match m with
  | [] => None
  | (k', v) :: r => if zlist_eqb k' k then Some v else lookup_bytes r k
  end.

(* the while loop of the in-string branch. Result: value bytes accumulated (reversed), the piece of
   [s] consumed (reversed), and either the rest after the closing delimiter or "chunk exhausted". *)
Inductive sscan : Set :=
| SClosed (acc_rev : list Z) (piece_rev : list Z) (rest : list Z)
| SOpen (acc_rev : list Z) (piece_rev : list Z).

Definition byte_of_digits (ds : list Z) : Z := fold_left (fun a c => a * 10 + (c - 48)) ds 0.

(* greedy  [class]{0,n} *)
Fixpoint take_upto (n : nat) (p : Z -> bool) (s : list Z) : list Z * list Z :=
  match n, s with
  | S k, c :: r => if p c then let '(a, b) := take_upto k p r in (c :: a, b) else ([], s)
  | _, _ => ([], s)
  end.

Definition hexval (c : Z) : Z :=
  if m_digit c then c - 48 else if (97 <=? c) && (c <=? 102) then c - 87 else c - 55.

(* one escape; [r] is the text after the backslash (s[i+1:]).
   -> (bytes appended to the value, bytes of [r] consumed with the backslash, rest) *)
Definition escape_step (r : list Z) : result (list Z * list Z * list Z) :=
  match r with
  | [] => Ok ([92], [], [])                         (* backslash at the end of the chunk stays as data *)
  | d1 :: r1 =>
    if m_digit d1 then
      (* re.match(br'\d{1,3}', s[i+1:]);  bytes([int(...)]) raises ValueError above 255 *)
      let '(ds, rest) := take_upto 3 m_digit r in
      if byte_of_digits ds <? 256 then Ok ([byte_of_digits ds], ds, rest) else Err ValueError
    else
      match r1 with
      | h1 :: h2 :: r3 =>
        if (d1 =? 120) && m_hex h1 && m_hex h2 then      (* re.match(br'x[0-9a-fA-F]{2}', s[i+1:]) *)
          Ok ([hexval h1 * 16 + hexval h2], [d1; h1; h2], r3)
        else if (d1 =? 13) && (h1 =? 10) then            (* s[i+1:i+3] == b'\r\n' *)
          Ok ([10], [13; 10], h2 :: r3)
        else
          match lookup_bytes string_escapes [d1] with
          | Some v => Ok (v, [d1], r1)
          | None => Ok ([92], [], r)                     (* the backslash stays as data *)
          end
      | [h1] =>
        if (d1 =? 13) && (h1 =? 10) then Ok ([10], [13; 10], [])
        else
          match lookup_bytes string_escapes [d1] with
          | Some v => Ok (v, [d1], r1)
          | None => Ok ([92], [], r)
          end
      | [] =>
        match lookup_bytes string_escapes [d1] with
        | Some v => Ok (v, [d1], r1)
        | None => Ok ([92], [], r)
        end
      end
  end.

Fixpoint scan_string (fuel : nat) (delim : Z) (s acc pc : list Z) : result sscan :=
  match s with
  | [] => Ok (SOpen acc pc)
  | c :: r =>
    match fuel with
    | O => Err OutOfFuel
    | S f =>
      if c =? delim then Ok (SClosed acc (c :: pc) r)
      else if c =? 92 then
        match escape_step r with
        | Err e => Err e
        | Ok (v, used, rest) => scan_string f delim rest (rev_append v acc) (rev_append used (c :: pc))
        end
      else scan_string f delim r (c :: acc) (c :: pc)
    end
  end.

(* s.index(b']]') + 2 : (s[:i], s[i:]) *)
Fixpoint find_rbrackets (s : list Z) : option (list Z * list Z) :=
  match s with
  | c :: r =>
    if (c =? 93) && hd_is 93 r then Some ([93; 93], tl r)
    else match find_rbrackets r with Some (a, b) => Some (c :: a, b) | None => None end
  | [] => None
  end.

(* re.search(br'\]' + eqs + br'\]', s): (s[:m.start()], matched, s[m.end():]).  The delimiter only
   ever consists of '=' bytes (group 1 of the opening pattern), which are not regex metacharacters. *)
Fixpoint find_long_close (closer : list Z) (s : list Z) : option (list Z * list Z) :=
  match drop_prefix closer s with
  | Some r => Some ([], r)
  | None =>
    match s with
    | c :: r => match find_long_close closer r with Some (a, b) => Some (c :: a, b) | None => None end
    | [] => None
    end
  end.

(* the opening long-bracket match (pattern pinned in process_token_regexes) : (group 1, rest) *)
Definition match_long_open (s : list Z) : option (list Z * list Z) :=
  if hd_is 91 s then
    let '(eqs, r2) := take_while (fun c => c =? 61) (tl s) in
    if hd_is 91 r2 then Some (eqs, tl r2) else None
  else None.

(* one call of _process_token. None = returned 0 (nothing consumed).
   Some (state', emitted token, consumed piece, rest) *)
Definition process_token (st : mstate) (line col : Z) (s : list Z)
  : result (option (mstate * option tok * list Z * list Z)) :=
  match st with
  | InString delim acc sl sc ext =>
    match s with
    | [] => Ok None
    | _ =>
      match scan_string (length s) delim s acc [] with
      | Err e => Err e
      | Ok (SClosed acc' pc rest) =>
        Ok (Some (Normal,
                  Some (mk_tok KString (rev' acc') sl sc [delim] None (rev_append ext (rev' pc))),
                  rev' pc, rest))
      | Ok (SOpen acc' pc) => Ok (Some (InString delim acc' sl sc (pc ++ ext), None, rev' pc, []))
      end
    end
  | InComment acc sl sc =>
    match find_rbrackets s with
    | Some (a, rest) =>
      let data := rev_append acc a in
      Ok (Some (Normal, Some (mk_tok KComment data sl sc [] None data), a, rest))
    | None =>
      match s with
      | [] => Ok None
      | _ => Ok (Some (InComment (rev_append s acc) sl sc, None, s, []))
      end
    end
  | InLongString eqs acc sl sc ext =>
    match find_long_close (93 :: eqs ++ [93]) s with
    | Some (a, rest) =>
      let piece := a ++ 93 :: eqs ++ [93] in
      Ok (Some (Normal,
                Some (mk_tok KString (rev_append acc a) sl sc [] (Some eqs) (rev_append ext piece)),
                piece, rest))
    | None =>
      match s with
      | [] => Ok None
      | _ => Ok (Some (InLongString eqs (rev_append s acc) sl sc (rev_append s ext), None, s, []))
      end
    end
  | Normal =>
    match drop_prefix [45; 45; 91; 91] s with
    | Some rest => Ok (Some (InComment [91; 91; 45; 45] line col, None, [45; 45; 91; 91], rest))
    | None =>
      match match_long_open s with
      | Some (eqs, rest) =>
        let piece := 91 :: eqs ++ [91] in
        Ok (Some (InLongString eqs [] line col (rev' piece), None, piece, rest))
      | None =>
        match s with
        | c :: rest =>
          if (c =? 39) || (c =? 34) then Ok (Some (InString c [] line col [c], None, [c], rest))
          else
            match first_matcher token_matchers s with
            | Some (k, a, rest') => Ok (Some (Normal, Some (mk_tok k a line col [] None a), a, rest'))
            | None => Ok None
            end
        | [] => Ok None
        end
      end
    end
  end.

(* _process_line: while True: i = _process_token(line); if i == 0: break; line = line[i:] *)
Fixpoint process_line (fuel : nat) (st : lexst) (s : list Z) : result lexst :=
  match fuel with
  | O => Err OutOfFuel
  | S f =>
    match process_token (l_state st) (l_line st) (l_col st) s with
    | Err e => Err e
    | Ok None => if is_nil s then Ok st else Err LexerError      (* "Syntax error (remaining:...)" *)
    | Ok (Some (ms, ot, piece, rest)) =>
      if is_nil piece then (if is_nil s then Ok st else Err LexerError)
      else
        let '(l', c') := advance (l_line st, l_col st) piece in
        let toks := match ot with Some t => t :: l_toks_rev st | None => l_toks_rev st end in
        process_line f (mk_lexst ms l' c' toks) rest
    end
  end.

Fixpoint process_chunks (st : lexst) (chunks : list (list Z)) : result lexst :=
  match chunks with
  | [] => Ok st
  | c :: cs =>
    match process_line (S (length c)) st c with
    | Ok st' => process_chunks st' cs
    | Err e => Err e
    end
  end.

(* process_lines + the tokens property *)
Definition model_lex (chunks : list (list Z)) : result (list tok) :=
  match process_chunks init_lexst chunks with
  | Err e => Err e
  | Ok st =>
    match l_state st with
    | Normal => Ok (rev' (l_toks_rev st))
    | _ => Err LexerError                   (* Unterminated string / multiline string / multiline comment *)
    end
  end.

(* ---------- Token.code / TokString.code *)
Definition all_digits (e : list Z) : bool := negb (is_nil e) && forallb m_digit e.     (* bytes.isdigit() *)
Definition rjust3 (e : list Z) : list Z := repeat 48 (3 - length e) ++ e.              (* e.rjust(3, b'0') *)

Fixpoint escape_bytes (q : list Z) (data : list Z) : list Z :=
  match data with
  | [] => []
  | c :: r =>
    match lookup_bytes string_reverse_escapes [c] with
    | Some e =>
      (* a numbered escape directly followed by a digit is written with three digits *)
      let e' := if all_digits e && (match r with d :: _ => m_digit d | [] => false end) then rjust3 e else e in
      92 :: e' ++ escape_bytes q r
    | None => if zlist_eqb [c] q then 92 :: c :: escape_bytes q r else c :: escape_bytes q r
    end
  end.

Definition reencode (q : list Z) (data : list Z) : list Z := q ++ escape_bytes q data ++ q.

Definition tok_code (t : tok) : list Z :=
  match t_kind t with
  | KString =>
    match t_ml t with
    | Some eqs => 91 :: eqs ++ 91 :: t_data t ++ 93 :: eqs ++ [93]
    | None => reencode (t_quote t) (t_data t)
    end
  | _ => t_data t
  end.

(* ---------- TokNumber.value as an exact rational (num, den), den > 0 *)
Definition dval (c : Z) : Z :=
  if m_digit c then c - 48 else if (97 <=? c) && (c <=? 102) then c - 87 else c - 55.
Definition digits_value (base : Z) (ds : list Z) : Z := fold_left (fun a c => a * base + dval c) ds 0.
Definition valid_in_base (base : Z) (c : Z) : bool := if base =? 2 then m_bin c else m_hex c.

(* int(s, base) for base 2 / 16 on the byte strings a number token can hand it: an optional
   0x/0X (0b/0B) prefix, then at least one digit of the base *)
Definition py_int (base : Z) (s : list Z) : result Z :=
  let body :=
    match s with
    | z :: x :: r =>
      if (z =? 48) && (if base =? 16 then (x =? 120) || (x =? 88) else (x =? 98) || (x =? 66)) then r else s
    | _ => s
    end in
  if negb (is_nil body) && forallb (valid_in_base base) body then Ok (digits_value base body)
  else Err ValueError.

(* float(s) for digits, optional dot digits, optional exponent with optional sign; at least one mantissa digit *)
Definition py_float (s : list Z) : result (Z * Z) :=
  let '(ip, r) := take_while m_digit s in
  let '(fp, r2) := if hd_is 46 r then take_while m_digit (tl r) else ([], r) in
  if is_nil ip && is_nil fp then Err ValueError
  else
    let m := digits_value 10 ip * 10 ^ zlen fp + digits_value 10 fp in
    let d := 10 ^ zlen fp in
    match r2 with
    | [] => Ok (m, d)
    | e :: r3 =>
      if (e =? 101) || (e =? 69) then
        let '(neg, ds) := if hd_is 45 r3 then (true, tl r3)
                          else if hd_is 43 r3 then (false, tl r3)
                          else (false, r3) in
        if negb (is_nil ds) && forallb m_digit ds then
          let x := digits_value 10 ds in
          if neg then Ok (m, d * 10 ^ x) else Ok (m * 10 ^ x, d)
        else Err ValueError
      else Err ValueError
    end.

Definition mem_byte (c : Z) (s : list Z) : bool := existsb (Z.eqb c) s.
Definition lower (c : Z) : Z := if (65 <=? c) && (c <=? 90) then c + 32 else c.          (* bytes.lower() *)

(* [data] is already lower-cased.  data[2:].split(b'.') must give exactly two parts *)
Definition based_value (base : Z) (data : list Z) : result (Z * Z) :=
  if mem_byte 46 data then
    let '(ip, rest) := take_while (fun c => negb (c =? 46)) (skipn 2 data) in
    match rest with
    | [] => Err ValueError                               (* not enough values to unpack *)
    | _ :: fp =>
      if mem_byte 46 fp then Err ValueError              (* too many values to unpack *)
      else
        i <- py_int base (if is_nil ip then [48] else ip) ;;      (* integer or b'0' *)
        f <- py_int base fp ;;
        Ok (i * base ^ zlen fp + f, base ^ zlen fp)
    end
  else
    i <- py_int base data ;; Ok (i, 1).

Definition tok_value (data0 : list Z) : result (Z * Z) :=
  let data := map lower data0 in
  if mem_byte 120 data then based_value 16 data          (* b'x' in data *)
  else if mem_byte 98 data then based_value 2 data       (* b'b' in data *)
  else py_float data.

(* ---------- TokString.value *)
Fixpoint replace_crlf (s : list Z) : list Z :=            (* data.replace(b'\r\n', b'\n') *)
  match s with
  | [] => []
  | c :: r =>
    match r with
    | d :: r' => if (c =? 13) && (d =? 10) then 10 :: replace_crlf r' else c :: replace_crlf r
    | [] => [c]
    end
  end.

Definition tok_str_value (t : tok) : list Z :=
  match t_ml t with
  | Some _ => let d := replace_crlf (t_data t) in match d with 10 :: r => r | _ => d end
  | None => t_data t
  end.

(* ---------- Lua.get_token_count *)
Definition is_free_token (t : tok) : bool :=
  match t_kind t with
  | KSymbol => existsb (zlist_eqb (t_data t)) [[58]; [46]; [41]; [93]; [125]]
  | KKeyword =>
    (* TokKeyword equality compares lower-cased data *)
    existsb (zlist_eqb (map (fun c => if (65 <=? c) && (c <=? 90) then c + 32 else c) (t_data t)))
            [[108; 111; 99; 97; 108]; [101; 110; 100]]
  | _ => false
  end.

Definition token_weight (t : tok) : Z :=
  if is_free_token t then 0
  else match t_kind t with
       | KNumber => if mem_byte 101 (t_data t) then 2 else 1
       | KSpace | KNewline | KComment => 0
       | _ => 1
       end.

Definition token_count (ts : list tok) : Z := fold_left (fun a t => a + token_weight t) ts 0.
