(* The domain of the alignment theorem C09_aligned: computable predicates on the token list and on the
   rich tree of the parser model (Model/Parser.v: a leaf for every accepted token) that single out the trees
   on which the AST writers (pico8/lua/lua.py LuaASTEchoWriter and subclasses) do not raise.

   plain_tokens ts     what the lexer guarantees about the tokens the writer re-spells: the code of a keyword /
                       symbol / name / label token is its data, keywords are lower case, a label is `::name::`
   no_paren_prefix t   no call / index / field / method suffix is applied to a parenthesised expression:
                       `(f or g)(x)`, `(a).b`, `("x"):len()`  - known finding C09-paren-suffix-assert
   no_if_do ts t       no `if c do ... end` (the parser takes `do` for `then`; the writer expects `then`)
                       - known finding C09-shortif-do-body-assert
   strict t            the forms the parser accepts although they are not programs of the dialect, on which the
                       writer raises:  `()` as an expression in front of a table constructor / unary operator
                       or as a table field (`x=(){}`, `x=()-1`, `{()}`), an empty first table field (`{,1}`),
                       `for =1,2 do end` (no loop variable), `if then` / `elseif then` (no condition), a one-line
                       `if` whose condition is not parenthesised as a whole (`if f(x) y=1`) *)
From PV Require Import Base.Prelude Base.PySlice Spec.LuaTokens Model.Tokens Model.WriterChunks Model.AstWriter.

Definition tok_is (ts : list token) (p : token -> bool) (i : Z) : bool :=
  match tok_at ts i with Some t => p t | None => false end.

(* ---------- tokens ---------- *)
Definition plain_token (t : token) : bool :=
  match tk t with
  | CKeyword => zlist_eqb (tcode t) (tdata t) && zlist_eqb (lower (tdata t)) (tdata t)
  | CSymbol | CName => zlist_eqb (tcode t) (tdata t)
  | CLabel => zlist_eqb (tcode t) (tdata t) &&
              zlist_eqb ("::"%bs ++ py_slice (tdata t) 2 (-2) ++ "::"%bs) (tdata t)
  | _ => true
  end.

Definition plain_tokens (ts : list token) : bool := forallb plain_token ts.

(* ---------- trees ---------- *)
Definition is_suffix_tag (tag : Z) : bool :=
  (tag =? tVarIndex) || (tag =? tVarAttribute) || (tag =? tFunctionCall) || (tag =? tFunctionCallMethod).

Definition is_paren (t : tree) : bool := match t with Paren _ _ _ => true | _ => false end.
Definition is_hid (t : tree) : bool := match t with Hid _ => true | _ => false end.

Fixpoint no_paren_prefix (t : tree) : bool :=
  match t with
  | Node tag _ _ _ fs =>
      (if is_suffix_tag tag then match fs with x :: _ => negb (is_paren x) | [] => true end else true)
      && forallb no_paren_prefix fs
  | Lst l => forallb no_paren_prefix l
  | Paren _ _ x => no_paren_prefix x
  | Hid x => no_paren_prefix x
  | _ => true
  end.

Section WithTokens.
Variable ts : list token.

Fixpoint no_if_do (t : tree) : bool :=
  match t with
  | Node tag _ _ sh fs =>
      (if (tag =? tStatIf) && negb sh then
         match fs with
         | [_; Lst (Lst [_; Kw ti; _] :: _); _] => tok_is ts (is_kw "then"%bs) ti
         | _ => true
         end
       else true)
      && forallb no_if_do fs
  | Lst l => forallb no_if_do l
  | Paren _ _ x => no_if_do x
  | Hid x => no_if_do x
  | _ => true
  end.
End WithTokens.

(* the condition of an if / elseif pair [cond; Kw then; block] is present *)
Definition pair_has_cond (p : tree) : bool :=
  match p with
  | Lst (e :: Kw _ :: _) => negb (is_none e)
  | _ => true
  end.

(* a table's field list: a hidden (absent) field only as the last entry *)
Fixpoint fields_strict (l : list tree) : bool :=
  match l with
  | [] => true
  | [Hid PNone] => true
  | Hid _ :: _ => false
  | _ :: r => fields_strict r
  end.

Fixpoint strict (t : tree) : bool :=
  match t with
  | Node tag _ _ sh fs =>
      (if (tag =? tExpValue) || (tag =? tExpUnOp) then negb (existsb is_hid fs)
       else if tag =? tTableConstructor then
         match fs with [_; Lst l; _] => fields_strict l | _ => true end
       else if tag =? tStatForStep then
         match fs with _ :: PNone :: _ => false | _ => true end
       else if tag =? tStatIf then
         match fs with
         | _ :: Lst (Lst pr :: rest) :: _ =>
             (if sh then match pr with [Paren _ _ _; _] => true | _ => false end
              else pair_has_cond (Lst pr)) && forallb pair_has_cond rest
         | _ => true
         end
       else true)
      && forallb strict fs
  | Lst l => forallb strict l
  | Paren _ _ x => strict x
  | Hid x => strict x
  | _ => true
  end.

(* the domain of C09_aligned *)
Definition writable (ts : list token) (root : tree) : bool :=
  plain_tokens ts && no_paren_prefix root && no_if_do ts root && strict root.

(* ---------- what the aligned chunk list must be ---------- *)
(* (index, code) of the significant tokens, in order *)
Fixpoint sig_codes (l : list token) (i : Z) : list (Z * list Z) :=
  match l with
  | [] => []
  | t :: r => if is_trivia t then sig_codes r (i + 1) else (i, tcode t) :: sig_codes r (i + 1)
  end.

Definition codes_of (cs : list chunk) : list (Z * list Z) :=
  flat_map (fun c => match c with Code i text => [(i, text)] | Trivia _ _ _ _ => [] end) cs.
