(* BaseSection.from_lines / to_lines (pico8/util.py), used by Gff and Map, and shared
   helpers (chunking) for the other sections. *)
From PV Require Import Base.Prelude Base.PySlice Base.Hex.

(* for start_i in range(0, len(data), n): data[start_i:start_i+n] *)
Fixpoint chunks_fuel (fuel n : nat) (l : list Z) : list (list Z) :=
  match fuel with
  | O => []
  | S f => match l with
           | [] => []
           | _ => firstn n l :: chunks_fuel f n (skipn n l)
           end
  end.
Definition chunks (n : nat) (l : list Z) : list (list Z) := chunks_fuel (length l) n l.

Definition hex_line (c : list Z) : list Z := to_hex c ++ [10].

Definition base_to_lines (n : Z) (d : list Z) : list (list Z) :=
  map hex_line (chunks (Z.to_nat n) d).

(* bytearray.fromhex(str(line.rstrip(), encoding='ascii')) *)
Definition line_to_bytes (line : list Z) : result (list Z) :=
  s <- to_ascii (rstrip line) ;; fromhex s.

Fixpoint base_from_lines (lines : list (list Z)) : result (list Z) :=
  match lines with
  | [] => Ok []
  | l :: r => a <- line_to_bytes l ;; b <- base_from_lines r ;; Ok (a ++ b)
  end.

(* bytearray item assignment: index check first, then the byte-range check *)
Definition py_set_byte (d : list Z) (i v : Z) : result (list Z) :=
  d' <- py_set d i v ;; if byteb v then Ok d' else Err ValueError.

(* bytes([...]) / bytearray.append: every element must be a byte *)
Definition mk_bytes (l : list Z) : result (list Z) :=
  if all_bytes l then Ok l else Err ValueError.
