(* C13 - executable model of pico8/build/build.py do_build (the per-section selection loop) and of
   what pico8/game/file.py to_file stores for the result, over an abstract cart record that is
   polymorphic in the section contents.  Definitions only.

   Mirrors the Python control flow statement by statement:
     - `args` is an argparse.Namespace = association list name -> value, read with getattr
       (with and without default) by *name*; section names come from the regenerated tuple of
       the `for section in (...)` loop, the `'empty_' + section` prefixes, the `.endswith(...)`
       constants and the `section == '...'` constants are the regenerated ones, by position;
     - `return 1` after util.error(...) is [Ret1 reason]; an exception that leaves do_build is
       [Raised e]; reaching file.to_file(result, filename=args.filename, ...) is [Wrote ...]
       (what to_file then does with the destination is the subject of C11);
     - files are consulted through the world of Spec/BuildSpec.v: os.path.exists = w_exists,
       file.from_file = w_cart, the `.lua` branch (Lua.from_lines + _evaluate_require +
       _prepend_package_lua, see C14) = w_luafile, Game.make_empty_game = w_empty. *)
From PV Require Import Base.Prelude Spec.BuildSpec.

(* ---------- argparse.Namespace ---------- *)
Inductive arg_val : Type := VNone | VStr (s : bytes) | VBool (b : bool).
Definition namespace : Type := list (bytes * arg_val).

Fixpoint ns_get (ns : namespace) (name : bytes) : option arg_val :=
  match ns with
  | [] => None
  | (k, v) :: r => if zlist_eqb k name then Some v else ns_get r name
  end.

(* getattr(args, name, default) *)
Definition getattr_d (ns : namespace) (name : bytes) (d : arg_val) : arg_val :=
  match ns_get ns name with Some v => v | None => d end.

(* Python truth value *)
Definition truthy (v : arg_val) : bool :=
  match v with
  | VNone => false
  | VStr s => match s with [] => false | _ => true end
  | VBool b => b
  end.

(* ---------- attribute access on a Game by section name ---------- *)
Definition section_of_name (n : bytes) : option section :=
  if zlist_eqb n "lua"%bs then Some SLua
  else if zlist_eqb n "gfx"%bs then Some SGfx
  else if zlist_eqb n "gff"%bs then Some SGff
  else if zlist_eqb n "map"%bs then Some SMap
  else if zlist_eqb n "sfx"%bs then Some SSfx
  else if zlist_eqb n "music"%bs then Some SMusic
  else None.

(* getattr(game, name): an unknown attribute raises AttributeError *)
Definition cart_getattr {A} (n : bytes) (c : cart A) : result A :=
  match section_of_name n with
  | Some s => Ok (sec_get s (c_secs c))
  | None => Err AttributeError
  end.

(* setattr(game, name, v): an unknown name adds an attribute nothing else reads *)
Definition cart_setattr {A} (n : bytes) (v : A) (c : cart A) : cart A :=
  match section_of_name n with
  | Some s => mkCart (sec_set s v (c_secs c)) (c_label c) (c_version c)
  | None => c
  end.

(* ---------- outcome of do_build ---------- *)
Inductive fail_reason : Type :=
| BadOutName                 (* 'Output filename must end with .p8 or .p8.png.' *)
| Conflict (sec : bytes)     (* 'Cannot specify --%s and --empty-%s args together.' *)
| Missing (sec : bytes)      (* 'File "%s" given for --%s arg does not exist.' *)
| BadType (sec : bytes).     (* 'Unsupported file type for --%s arg.' *)

Inductive writer_sel : Type :=
| WDefault                   (* lua_writer_cls=None: the echo writer *)
| WMinify                    (* lua.LuaMinifyTokenWriter *)
| WFormat                    (* lua.LuaFormatterWriter *)
| WFormatTuple.              (* (lua.LuaFormatterWriter,) - a 1-tuple, see observation O1 *)

Inductive outcome (A : Type) : Type :=
| Ret1 (r : fail_reason)                                   (* util.error(...); return 1 - nothing written *)
| Raised (e : err)                                         (* exception left do_build - nothing written *)
| Wrote (c : cart A) (wr : writer_sel) (label_from_out : bool).
   (* file.to_file(c, filename=OUT, lua_writer_cls=wr) was called as the last action; inside it
      kwargs['label_fname'] = OUT exactly when os.path.exists(OUT) *)
Arguments Ret1 {A}. Arguments Raised {A}. Arguments Wrote {A}.

Section DoBuild.
Context {A : Type}.
Variable secnames : list bytes.       (* the tuple of the section loop *)
Variable ends : list bytes.           (* the .endswith constants of do_build, in source order *)
Variable prefixes : list bytes.       (* the 'empty_' constants, in source order *)
Variable eqconsts : list bytes.       (* the constants compared with `section`, in source order *)
Variable format_attrs : list bytes.   (* args.<attr> read in the --lua-format branch (AttributeError when absent) *)
Variable minify_attrs : list bytes.   (* args.<attr> read in the --lua-minify branch *)
Variable format_cls_is_tuple : bool.  (* `lua_writer_cls = lua.LuaFormatterWriter,` (observation O1) *)
Variable w : world A.
Variable ns : namespace.

Definition endc (k : nat) : bytes := nth k ends [].
Definition prefc (k : nat) : bytes := nth k prefixes [].
Definition eqc (k : nat) : bytes := nth k eqconsts [].

Inductive step (A' : Type) : Type := Continue (c : cart A') | Stop (o : outcome A').
Arguments Continue {A'}. Arguments Stop {A'}.

(* one iteration of `for section in (...)` *)
Definition build_step (empty_source : cart A) (sn : bytes) (result : cart A) : step A :=
  match getattr_d ns sn VNone with
  | VNone =>
    (* elif getattr(args, 'empty_' + section, False): *)
    if truthy (getattr_d ns (prefc 1 ++ sn) (VBool false)) then
      match cart_getattr sn empty_source with
      | Ok v => Continue (cart_setattr sn v result)
      | Err e => Stop (Raised e)
      end
    else Continue result
  | VBool _ => Stop (Raised TypeError)      (* os.path.exists(True/False): never produced by argparse *)
  | VStr fn =>
    if truthy (getattr_d ns (prefc 0 ++ sn) (VBool false)) then Stop (Ret1 (Conflict sn))
    else if negb (w_exists w fn) then Stop (Ret1 (Missing sn))
    else if negb (ends_with fn (endc 2)) && negb (ends_with fn (endc 3))
            && negb (zlist_eqb sn (eqc 0) && ends_with fn (endc 4)) then Stop (Ret1 (BadType sn))
    else if zlist_eqb sn (eqc 1) && ends_with fn (endc 5) then
      (* with open(fn): Lua.from_lines; _evaluate_require; [optimize_tokens]; _prepend_package_lua *)
      match w_luafile w fn (match getattr_d ns "lua_path"%bs VNone with VStr p => Some p | _ => None end) with
      | Err e => Stop (Raised e)
      | Ok code =>
        if truthy (getattr_d ns "optimize_tokens"%bs (VBool false)) then Stop (Raised OtherError)  (* NotImplementedError *)
        else Continue (cart_setattr "lua"%bs code result)     (* result.lua = ... *)
      end
    else
      match w_cart w fn with
      | Err e => Stop (Raised e)
      | Ok source =>
        match cart_getattr sn source with
        | Ok v => Continue (cart_setattr sn v result)
        | Err e => Stop (Raised e)
        end
      end
  end.

Fixpoint build_loop (empty_source : cart A) (names : list bytes) (result : cart A) : step A :=
  match names with
  | [] => Continue result
  | sn :: rest =>
    match build_step empty_source sn result with
    | Continue r => build_loop empty_source rest r
    | Stop o => Stop o
    end
  end.

Definition do_build : outcome A :=
  match ns_get ns "filename"%bs with
  | Some (VStr filename) =>
    if negb (ends_with filename (endc 0)) && negb (ends_with filename (endc 1)) then Ret1 BadOutName
    else
      let empty_source := w_empty w in
      match (if w_exists w filename then w_cart w filename else Ok (w_empty w)) with
      | Err e => Raised e
      | Ok result0 =>
        match build_loop empty_source secnames result0 with
        | Stop o => o
        | Continue result =>
          let has a := match ns_get ns a with Some _ => true | None => false end in
          if truthy (getattr_d ns "lua_format"%bs (VBool false)) then
            (* lua_writer_cls = lua.LuaFormatterWriter[,]   and   args.indentwidth etc. read strictly *)
            if forallb has format_attrs
            then Wrote result (if format_cls_is_tuple then WFormatTuple else WFormat) (w_exists w filename)
            else Raised AttributeError
          else if truthy (getattr_d ns "lua_minify"%bs (VBool false)) then
            if forallb has minify_attrs then Wrote result WMinify (w_exists w filename) else Raised AttributeError
          else Wrote result WDefault (w_exists w filename)
        end
      end
  | Some _ => Raised AttributeError     (* args.filename.endswith on a non-string *)
  | None => Raised AttributeError
  end.

End DoBuild.

Arguments Continue {A'}. Arguments Stop {A'}.

(* ---------- file.to_file: which formatter, and what ends up in the file ---------- *)
(* formatter_for_filename: the first entry of FORMATTERS whose extension is a suffix *)
Fixpoint formatter_for (formatters : list bytes) (filename : bytes) : option bytes :=
  match formatters with
  | [] => None
  | e :: r => if ends_with filename e then Some e else formatter_for r filename
  end.

(* what a reader finds in OUT after a successful to_file(c, OUT) : the sections of c and
   - .p8.png: the label picture of label_fname = OUT if it existed (else picotool's stock picture: no demand)
   - .p8    : the __label__ section of c *)
Definition stored_label {A} (w : world A) (formatters : list bytes) (filename : bytes)
           (c : cart A) (label_from_out : bool) : result (option A * bool) :=
  match formatter_for formatters filename with
  | None => Err OtherError                                  (* UnrecognizedFileType *)
  | Some e =>
    if zlist_eqb e ".p8.png"%bs then
      Ok (if label_from_out then w_png_label w filename else None, label_from_out)
    else if zlist_eqb e ".p8"%bs then Ok (c_label c, true)
    else Err OtherError                                     (* .rom: not reachable from do_build *)
  end.

(* the view of a do_build outcome that the selection rule talks about *)
Definition spec_view {A} (w : world A) (formatters : list bytes) (filename : bytes) (o : outcome A)
  : option (secs A * label_req A) :=
  match o with
  | Ret1 _ => None
  | Raised _ => None
  | Wrote c WDefault lbl =>
    match stored_label w formatters filename c lbl with
    | Ok (l, _) => Some (c_secs c, if w_exists w filename then KeepLabel l else AnyLabel)
    | Err _ => None
    end
  | Wrote _ _ _ => None      (* other writers transform the Lua section: outside the rule *)
  end.

(* the Namespace argparse builds for `p8tool build` from the command line, over the regenerated
   list of (dest, is-flag) pairs: string options default to None, flags to False *)
Definition ns_value (args : build_args) (dest : bytes) (is_flag : Z) : arg_val :=
  let src s := match b_src args s with Some fn => VStr fn | None => VNone end in
  if zlist_eqb dest "filename"%bs then VStr (b_out args)
  else if zlist_eqb dest "lua_path"%bs then match b_lua_path args with Some p => VStr p | None => VNone end
  else match section_of_name dest with
       | Some s => src s
       | None =>
         if starts_with "empty_"%bs dest then
           match section_of_name (skipn 6 dest) with
           | Some s => VBool (b_empty args s)
           | None => if is_flag =? 1 then VBool false else VNone
           end
         else if is_flag =? 1 then VBool false else VNone
       end.

Definition namespace_of (dests : list (bytes * Z)) (args : build_args) : namespace :=
  map (fun d => (fst d, ns_value args (fst d) (snd d))) dests.
