(* Model of unicode_to_p8scii / p8scii_to_unicode (pico8/lua/lua.py).
   Regenerated (runtime values): P8SCII_CHARSET, UNICODE_TO_P8SCII, UNICODE_CHAR_WIDTHS.
   Hand-modelled: the two 6-line converter loops. Unicode text = list of code points. *)
From PV Require Import Base.Prelude Base.PySlice.

Section Tables.
Variable charset : list (Z * list Z).      (* position -> (p8scii field, spelling) *)
Variable u2p_items : list (list Z * Z).    (* dict: spelling -> byte (unique keys) *)
Variable width_items : list (Z * Z).       (* dict: first code point -> spelling width *)

Fixpoint lookup_str (m : list (list Z * Z)) (k : list Z) : option Z :=
  match m with
  | [] => None
  | (k', v) :: r => if zlist_eqb k' k then Some v else lookup_str r k
  end.

Fixpoint lookup_z (m : list (Z * Z)) (k : Z) : option Z :=
  match m with
  | [] => None
  | (k', v) :: r => if k' =? k then Some v else lookup_z r k
  end.

Definition spelling (b : Z) : list Z := snd (nth (Z.to_nat b) charset (0, [])).

(* ''.join(P8SCII_CHARSET[b].p8string for b in bs) *)
Definition p2u (bs : list Z) : list Z := flat_map spelling bs.

(* the while loop of unicode_to_p8scii; fuel = len(s) always suffices because every
   width in the table is >= 1 (checked by table_ok) *)
Fixpoint u2p_fuel (fuel : nat) (s : list Z) : result (list Z) :=
  match s with
  | [] => Ok []
  | c :: _ =>
    match fuel with
    | O => Err OutOfFuel
    | S f =>
      match lookup_z width_items c with
      | None => Err KeyError
      | Some w =>
        match lookup_str u2p_items (firstn (Z.to_nat w) s) with
        | None => Err KeyError
        | Some b => r <- u2p_fuel f (skipn (Z.to_nat w) s) ;; Ok (b :: r)
        end
      end
    end
  end.

Definition u2p (s : list Z) : result (list Z) := u2p_fuel (length s) s.

(* decidable side condition, recomputed on the regenerated tables on every run *)
Definition entry_ok (i : Z) : bool :=
  match spelling i with
  | [] => false
  | (c :: _) as sp =>
    match lookup_z width_items c with
    | Some w => (w =? zlen sp) && match lookup_str u2p_items sp with Some b => b =? i | None => false end
    | None => false
    end
  end.

Definition table_ok : bool := (zlen charset =? 256) && forallb entry_ok (upto 256).

(* boolean prefix test on code-point lists *)
Definition is_prefix (a b : list Z) : bool := starts_with a b.

Definition prefix_free : bool :=
  forallb (fun i => forallb (fun j => (i =? j) || negb (is_prefix (spelling i) (spelling j))) (upto 256)) (upto 256).

End Tables.
