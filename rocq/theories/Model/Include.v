(* Model of the #include machinery of pico8/game/formatter/p8.py:
     get_root_include_path, the path logic of process_includes (part 1, property C12),
     INCLUDE_LINE_RE.match, TAB_LINE_RE.match, lines_for_tab, process_includes (part 2, C20).
   Regenerated and pinned (Proofs/IncludeProofs.v): the two regex sources, the way they are
   applied (.match), PICO8_CART_PATHS.  Executable definitions only.

   The file system is abstract: [isfile] answers os.path.isfile, [target] gives the lines a
   target yields (a .lua file: its lines as `for line in fh` produces them, each but possibly
   the last ending in "\n"; a .p8 / .p8.png cart: the lines of inc_game.lua.to_lines(), which
   the harness obtains from the implementation's reader with do_includes=False). *)
From PV Require Import Base.Prelude Model.Paths.

(* ------------------------------------------------------------------ part 1: paths *)
(* The two containment tests of p8.py, by the shape the generator recognised in the source
   (gen/kernels_files.py: include_containment_kind, root_detection_kind):
     0   p.startswith(root)                                          (string prefix)
     1   p == root or p.startswith(os.path.join(root, ''))           (root itself or below it)
     2   p.startswith(os.path.join(root, ''))                        (strictly below root)
   os.path.join(root, '') is root with exactly one separator appended unless it ends in one. *)
Definition contain_test (kind : Z) (root p : bytes) : bool :=
  if kind =? 0 then starts_with root p
  else if kind =? 1 then zlist_eqb p root || starts_with (join root []) p
  else if kind =? 2 then starts_with (join root []) p
  else false.

Section Root.
Variable cart_paths : list bytes.          (* PICO8_CART_PATHS *)
Variable root_kind inc_kind : Z.           (* shapes of the two tests *)
Variable cwd home : bytes.                 (* os.getcwd(), os.environ['HOME'] *)

(* the for loop: the last matching candidate wins *)
Fixpoint root_scan (full : bytes) (cands : list bytes) (root : option bytes) : option bytes :=
  match cands with
  | [] => root
  | c :: r =>
    let fc := full_path cwd home c in
    root_scan full r (if contain_test root_kind fc full then Some fc else root)
  end.

Definition get_root_include_path (filename : bytes) : bytes :=
  let full := full_path cwd home filename in
  match root_scan full cart_paths None with
  | Some r => r
  | None => dirname full
  end.

(* inc = inc_path + inc_extension *)
Definition include_full_path (filename inc : bytes) : bytes :=
  abspath cwd (normpath (join (dirname filename) inc)).

Variable isfile : bytes -> bool.

Definition resolve_include (filename inc : bytes) : result bytes :=
  let root := get_root_include_path filename in
  let p := include_full_path filename inc in
  if negb (contain_test inc_kind root p) then Err IncludeOutside
  else if negb (isfile p) then Err IncludeNotFound
  else Ok p.

(* what the resolution of one include line touches: os.path.isfile(p) once the containment test passed,
   then open(p) when it is a file; the flag tells whether an exception is raised.  An event is
   (false, p) for a probe, (true, p) for an open *)
Definition include_accesses (filename inc : bytes) : list (bool * bytes) * bool :=
  let root := get_root_include_path filename in
  let p := include_full_path filename inc in
  if negb (contain_test inc_kind root p) then ([], true)
  else if negb (isfile p) then ([(false, p)], true)
  else ([(false, p); (true, p)], false).
End Root.

(* ------------------------------------------------------------------ part 2: recogniser and splice *)
(* bytes-mode \s : [ \t\n\r\f\v] *)
Definition is_space (c : Z) : bool := (c =? 32) || ((9 <=? c) && (c <=? 13)).
(* bytes-mode \d : [0-9] *)
Definition is_digit (c : Z) : bool := (48 <=? c) && (c <=? 57).

Fixpoint drop_spaces (s : bytes) : bytes :=
  match s with
  | c :: r => if is_space c then drop_spaces r else s
  | [] => []
  end.

Fixpoint strip_prefix (p s : bytes) : option bytes :=
  match p, s with
  | [], _ => Some s
  | x :: p', y :: s' => if x =? y then strip_prefix p' s' else None
  | _ :: _, [] => None
  end.

Definition kw_include : bytes := [35; 105; 110; 99; 108; 117; 100; 101].   (* #include *)
Definition ext_p8png : bytes := [46; 112; 56; 46; 112; 110; 103].           (* .p8.png *)
Definition ext_p8 : bytes := [46; 112; 56].                                  (* .p8 *)
Definition ext_lua : bytes := [46; 108; 117; 97].                            (* .lua *)
Definition tab_marker : bytes := [45; 45; 62; 56].                           (* -->8 *)

(* the alternation (\.p8\.png|\.p8|\.lua) tried at the head of s, in order *)
Definition ext_at (s : bytes) : option (bytes * bytes) :=
  match strip_prefix ext_p8png s with
  | Some r => Some (ext_p8png, r)
  | None =>
    match strip_prefix ext_p8 s with
    | Some r => Some (ext_p8, r)
    | None =>
      match strip_prefix ext_lua s with
      | Some r => Some (ext_lua, r)
      | None => None
      end
    end
  end.

(* (\S+) greedy with backtracking: the right-most split point p >= 1 inside the run of
   non-space bytes at which the alternation matches.  acc_rev = run[0:p] reversed. *)
Fixpoint scan_ext (acc_rev : bytes) (s : bytes) : option (bytes * bytes * bytes) :=
  match s with
  | [] => None
  | c :: r =>
    if is_space c then None
    else
      match scan_ext (c :: acc_rev) r with
      | Some x => Some x
      | None =>
        match acc_rev with
        | [] => None
        | _ => match ext_at s with
               | Some (ext, after) => Some (rev acc_rev, ext, after)
               | None => None
               end
        end
      end
  end.

Fixpoint take_digits (s : bytes) : bytes :=
  match s with
  | c :: r => if is_digit c then c :: take_digits r else []
  | [] => []
  end.

(* int(digits) *)
Definition int_of_digits (ds : bytes) : Z := fold_left (fun acc d => acc * 10 + (d - 48)) ds 0.

(* (\:\d+)? *)
Definition scan_tab (s : bytes) : option Z :=
  match s with
  | 58 :: r => match take_digits r with [] => None | ds => Some (int_of_digits ds) end
  | _ => None
  end.

(* INCLUDE_LINE_RE.match(line).groups(), with group 3 already converted by int(...[1:]) *)
Definition match_include_line (line : bytes) : option (bytes * bytes * option Z) :=
  match strip_prefix kw_include (drop_spaces line) with
  | None => None
  | Some s2 =>
    match s2 with
    | c :: _ =>
      if is_space c then
        match scan_ext [] (drop_spaces s2) with
        | Some (path, ext, after) => Some (path, ext, scan_tab after)
        | None => None
        end
      else None
    | [] => None
    end
  end.

Definition is_tab_line (line : bytes) : bool := starts_with tab_marker line.

Fixpoint lines_for_tab_go (cur : Z) (lines : list bytes) (inc_tab : option Z) : list bytes :=
  match lines with
  | [] => []
  | l :: r =>
    if is_tab_line l then
      match inc_tab with
      | None => l :: lines_for_tab_go (cur + 1) r inc_tab
      | Some _ => lines_for_tab_go (cur + 1) r inc_tab
      end
    else
      match inc_tab with
      | None => l :: lines_for_tab_go cur r inc_tab
      | Some t => if t =? cur then l :: lines_for_tab_go cur r inc_tab else lines_for_tab_go cur r inc_tab
      end
  end.

Definition lines_for_tab (lines : list bytes) (inc_tab : option Z) : list bytes :=
  lines_for_tab_go 0 lines inc_tab.

(* `for line in fh` on a binary file: split after every "\n", terminators kept *)
Fixpoint file_lines (s : bytes) : list bytes :=
  match s with
  | [] => []
  | c :: r =>
    if c =? 10 then [10] :: file_lines r
    else match file_lines r with
         | h :: t => (c :: h) :: t
         | [] => [[c]]
         end
  end.

Fixpoint ends_with_nl (s : bytes) : bool :=
  match s with
  | [] => false
  | [c] => c =? 10
  | _ :: r => ends_with_nl r
  end.

(* what is yielded for an included line, by the shape the generator found at the two yield sites
   (include_newline_kind): 0 = `yield line`; 1 = `yield line if line.endswith(b'\n') else line + b'\n'` *)
Definition yielded (nl_kind : Z) (l : bytes) : bytes :=
  if nl_kind =? 0 then l else if ends_with_nl l then l else l ++ [10].

Section Splice.
Variable nl_kind : Z.
Variable have_root : bool.                            (* filename is not None: the assert at the first include line *)
Variable decode : bytes -> result bytes.             (* the captured name (P8SCII bytes) -> the file name (UTF-8 bytes) *)
Variable resolve : bytes -> result bytes.            (* file name + extension -> full path (part 1) *)
Variable target : bytes -> bytes -> option (list bytes).   (* full path, extension -> lines the target yields *)

Definition is_cart_ext (ext : bytes) : bool := zlist_eqb ext ext_p8 || zlist_eqb ext ext_p8png.

Definition include_lines (path ext : bytes) (tab : option Z) : result (list bytes) :=
  if negb have_root then Err AssertionError
  else
    nm <- decode path ;;
    p <- resolve (nm ++ ext) ;;
    match target p ext with
    | None => Err OtherError      (* isfile said yes but the file cannot be read / is not a cart: not modelled *)
    | Some ls => Ok (map (yielded nl_kind) (if is_cart_ext ext then lines_for_tab ls tab else ls))
    end.

Fixpoint process_includes (lines : list bytes) : result (list bytes) :=
  match lines with
  | [] => Ok []
  | l :: r =>
    match match_include_line l with
    | None => rest <- process_includes r ;; Ok (l :: rest)
    | Some (path, ext, tab) =>
      ls <- include_lines path ext tab ;;
      rest <- process_includes r ;;
      Ok (ls ++ rest)
    end
  end.
End Splice.

(* the file system as process_includes sees it *)
Record fsview := mk_fsview {
  fs_isfile : bytes -> bool;                     (* os.path.isfile *)
  fs_read : bytes -> option bytes;               (* content of a file opened 'rb' *)
  fs_cart : bytes -> option (list bytes)         (* P8Formatter / P8PNGFormatter .from_file(do_includes=False).lua.to_lines() *)
}.

(* what a target yields.  A cart (cart_kind as regenerated, include_cart_lines_kind): 0 = the chunks of the
   reader's to_lines() as they are; 1 = the text lines of the joined code, io.BytesIO(b''.join(...)) *)
Definition fs_target (cart_kind : Z) (fs : fsview) (p ext : bytes) : option (list bytes) :=
  if is_cart_ext ext then
    match fs_cart fs p with
    | Some chunks => Some (if cart_kind =? 0 then chunks else file_lines (concat chunks))
    | None => None
    end
  else match fs_read fs p with Some b => Some (file_lines b) | None => None end.
