(* Sfx (pico8/sfx/sfx.py): notes, properties, from_lines / to_lines.
   Regenerated kernels: Generated/K_sfx.v (index expressions, bit packing, asserts, the
   `is not None` tests, the waveform/volume byte of to_lines, the empty() contents). *)
From PV Require Import Base.Prelude Base.PySlice Base.Hex Model.HexSection Model.Gfx Generated.K_sfx.

Definition is_none {A} (o : option A) : bool := match o with None => true | Some _ => false end.
Definition oget (o : option Z) : Z := match o with Some v => v | None => 0 end.

Definition sfx_get_note (d : list Z) (id note : Z) : result (Z * Z * Z * Z) :=
  lsb <- py_get d (sfx_gn_lsb_idx id note) ;;
  msb <- py_get d (sfx_gn_msb_idx id note) ;;
  Ok (sfx_gn_pitch lsb, sfx_gn_waveform msb lsb, sfx_gn_volume msb, sfx_gn_effect msb).

Definition sfx_set_note (d : list Z) (id note : Z) (pitch waveform volume effect : option Z)
  : result (list Z) :=
  lsb <- py_get d (sfx_sn_lsb_idx id note) ;;
  msb <- py_get d (sfx_sn_msb_idx id note) ;;
  lsb1 <- (if sfx_sn_if_pitch (is_none pitch)
           then _ <- assert_ (sfx_sn_assert_pitch (oget pitch)) ;; Ok (sfx_sn_lsb_pitch lsb (oget pitch))
           else Ok lsb) ;;
  '(lsb2, msb2) <- (if sfx_sn_if_waveform (is_none waveform)
           then _ <- assert_ (sfx_sn_assert_waveform (oget waveform)) ;;
                Ok (sfx_sn_lsb_waveform lsb1 (oget waveform), sfx_sn_msb_waveform msb (oget waveform))
           else Ok (lsb1, msb)) ;;
  msb3 <- (if sfx_sn_if_volume (is_none volume)
           then _ <- assert_ (sfx_sn_assert_volume (oget volume)) ;; Ok (sfx_sn_msb_volume msb2 (oget volume))
           else Ok msb2) ;;
  msb4 <- (if sfx_sn_if_effect (is_none effect)
           then _ <- assert_ (sfx_sn_assert_effect (oget effect)) ;; Ok (sfx_sn_msb_effect msb3 (oget effect))
           else Ok msb3) ;;
  d1 <- py_set_byte d (sfx_sn_store_lsb_idx id note) lsb2 ;;
  py_set_byte d1 (sfx_sn_store_msb_idx id note) msb4.

Definition sfx_get_properties (d : list Z) (id : Z) : result (Z * Z * Z * Z) :=
  a <- py_get d (sfx_gp_idx_0 id) ;; b <- py_get d (sfx_gp_idx_1 id) ;;
  c <- py_get d (sfx_gp_idx_2 id) ;; e <- py_get d (sfx_gp_idx_3 id) ;; Ok (a, b, c, e).

Definition set_opt (d : list Z) (i : Z) (v : option Z) : result (list Z) :=
  match v with Some x => py_set_byte d i x | None => Ok d end.

Definition sfx_set_properties (d : list Z) (id : Z) (editor_mode note_duration loop_start loop_end : option Z)
  : result (list Z) :=
  d1 <- set_opt d (sfx_sp_idx_0 id) editor_mode ;;
  d2 <- set_opt d1 (sfx_sp_idx_1 id) note_duration ;;
  d3 <- set_opt d2 (sfx_sp_idx_2 id) loop_start ;;
  set_opt d3 (sfx_sp_idx_3 id) loop_end.

(* ---- to_lines ---- *)
Definition sfx_note_text (d : list Z) (id note : Z) : result (list Z) :=
  '(pitch, waveform, volume, effect) <- sfx_get_note d id note ;;
  pw <- mk_bytes [pitch; sfx_tl_wv_byte waveform volume] ;;
  e <- mk_bytes [effect] ;;
  Ok (to_hex pw ++ skipn 1 (to_hex e)).          (* bytes_to_hex(bytes([effect]))[1] *)

Definition sfx_line (d : list Z) (id : Z) : result (list Z) :=
  '(a, b, c, e) <- sfx_get_properties d id ;;
  notes <- mapM (sfx_note_text d id) (upto 32) ;;
  Ok (to_hex [a; b; c; e] ++ concat notes ++ [10]).

Definition sfx_to_lines (d : list Z) : result (list (list Z)) := mapM (sfx_line d) (upto 64).

(* ---- from_lines ---- *)
Definition sl (line : list Z) (a b : Z) : list Z := py_slice line a b.

(* for i in range(8, 168, 5): one note from five hex digits at column i *)
Definition sfx_read_note (line : list Z) (id : Z) (d : list Z) (note : Z) : result (list Z) :=
  let i := 8 + 5 * note in
  pitch <- int16 (sl line i (i + 2)) ;;
  waveform <- int16 (sl line (i + 2) (i + 3)) ;;
  volume <- int16 (sl line (i + 3) (i + 4)) ;;
  effect <- int16 (sl line (i + 4) (i + 5)) ;;
  sfx_set_note d id note (Some pitch) (Some waveform) (Some volume) (Some effect).

Definition sfx_read_line (line : list Z) (id : Z) (d : list Z) : result (list Z) :=
  editor_mode <- int16 (sl line 0 2) ;;
  note_duration <- int16 (sl line 2 4) ;;
  loop_start <- int16 (sl line 4 6) ;;
  loop_end <- int16 (sl line 6 8) ;;
  d1 <- sfx_set_properties d id (Some editor_mode) (Some note_duration) (Some loop_start) (Some loop_end) ;;
  foldM (sfx_read_note line id) (upto 32) d1.

Fixpoint sfx_from_lines_acc (lines : list (list Z)) (id : Z) (d : list Z) : result (list Z) :=
  match lines with
  | [] => Ok d
  | l :: r =>
    if zlen l =? 169
    then d' <- sfx_read_line l id d ;; sfx_from_lines_acc r (id + 1) d'
    else sfx_from_lines_acc r id d
  end.

Definition sfx_from_lines (lines : list (list Z)) : result (list Z) :=
  sfx_from_lines_acc lines 0 sfx_empty.
