(* Token matching as the parser and the AST writers use it (pico8/lua/lexer.py Token.matches /
   Token.__eq__).  The token and tree types themselves live in Spec/LuaTokens.v so that the
   instance predicates can share them. *)
From PV Require Export Base.Prelude Spec.LuaTokens.

(* the argument of Token.matches: a token class, or a token instance (class + data) *)
Inductive pat : Set :=
| PClass (k : kclass)
| PTok (k : kclass) (d : list Z).

(* t.matches(p):  isinstance(t, cls)   or   t == instance *)
Definition matches (t : token) (p : pat) : bool :=
  match p with
  | PClass k => kclass_eqb (tk t) k
  | PTok k d => tok_eqb t (mkTok k 0 d d)
  end.

Definition psym (d : list Z) : pat := PTok CSymbol d.
Definition pkw (d : list Z) : pat := PTok CKeyword d.

(* (kind, data) rows of the regenerated BINOP_PATS / UNOP_PATS -> patterns *)
Definition pat_of_row (r : Z * list Z) : pat :=
  if fst r =? 0 then psym (snd r) else pkw (snd r).
