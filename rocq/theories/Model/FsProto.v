(* C11 - the sequence of file operations performed by pico8/game/file.py to_file and by the
   command-line paths of pico8/tool.py / pico8/build/build.py that end in it.  Definitions only.

   file.to_file(game, filename, ...):
       fmt = formatter_for_filename(filename)            # may raise UnrecognizedFileType: nothing opened
       with tempfile.TemporaryFile(mode='wb+') as outfh: # OpenTemp
           if label_fname is None and os.path.exists(filename): label_fname = filename
           fmt.to_file(game, outfh, ...)                 # the encoder: .p8.png first reads the label
                                                         # picture, then every outstr.write is Write
           outfh.seek(0)                                 # reached only when the encoder returned
           with open(filename, 'wb+') as finalfh:        # OpenWrite dest
               finalfh.write(outfh.read())               # ReadAll, Write
   The encoder's writes are a list of chunks (their contents are the subject of C03/C04); a failure
   [Some k] means: k writes went through, then an exception left the encoder - raised by the k+1-th
   write call itself (fault injection), or by the encoder's own code between two writes (Lua writer,
   sanity re-parse, a section's to_lines, the PNG encoder, bytes((version,))). *)
From PV Require Import Base.Prelude Spec.BuildSpec Spec.FsSem.

Inductive formatter : Type := FmtP8 | FmtPng | FmtRom.

(* formatter_for_filename over the FORMATTERS table (extensions in order) *)
Definition formatter_of_ext (e : bytes) : option formatter :=
  if zlist_eqb e ".p8.png"%bs then Some FmtPng
  else if zlist_eqb e ".p8"%bs then Some FmtP8
  else if zlist_eqb e ".rom"%bs then Some FmtRom
  else None.

Fixpoint formatter_for_filename (exts : list bytes) (filename : bytes) : option formatter :=
  match exts with
  | [] => None
  | e :: r => if ends_with filename e then formatter_of_ext e else formatter_for_filename r filename
  end.

Section Proto.
Context {D : Type}.
Variable cat : list D -> D.          (* outfh.read(): everything written, in order *)

Definition h_temp : handle := 1.
Definition h_dest : handle := 2.

(* the label picture a .p8.png encoder opens: an explicit label_fname, else the destination when it
   exists, else picotool's stock picture (outside every cart directory: not part of the trace) *)
Definition label_reads (fmt : formatter) (dest : path) (dest_exists : bool) (label_fname : option path)
  : list (op D) :=
  match fmt with
  | FmtPng =>
    match label_fname with
    | Some l => [OpenRead l]
    | None => if dest_exists then [OpenRead dest] else []
    end
  | _ => []
  end.

Definition to_file_trace (fmt : option formatter) (dest : path) (dest_exists : bool)
           (label_fname : option path) (chunks : list D) (fail_at : option nat) : list (op D) :=
  match fmt with
  | None => [Raise]
  | Some f =>
    OpenTemp h_temp :: label_reads f dest dest_exists label_fname ++
    match fail_at with
    | Some k => map (Write h_temp) (firstn k chunks) ++ [Close h_temp; Raise]
    | None =>
      map (Write h_temp) chunks ++
      [EncoderDone; Seek h_temp; OpenWrite dest h_dest; ReadAll h_temp; Write h_dest (cat chunks);
       Close h_dest; Close h_temp]
    end
  end.

(* ---------- tool.py: process_game_files (writep8, luamin, luafmt [--overwrite]) ---------- *)
(* the output name for one input cart *)
Definition out_fname (overwrite : bool) (fname : bytes) : bytes :=
  if overwrite && ends_with fname ".p8"%bs then fname
  else if ends_with fname ".p8.png"%bs
       then firstn (length fname - 7)%nat fname ++ "_fmt.p8.png"%bs
       else firstn (length fname - 3)%nat fname ++ "_fmt.p8"%bs.

(* one input cart: it is loaded (a read of fname, plus whatever it #includes: [incs]); when it
   loads, the game is written to out_fname.  [loads = false]: the error is reported, nothing written *)
Definition process_one_trace (exts : list bytes) (overwrite : bool) (fname : bytes) (incs : list path)
           (loads : bool) (out_exists : bool) (chunks : list D) (fail_at : option nat) : list (op D) :=
  if negb (ends_with fname ".p8.png"%bs) && negb (ends_with fname ".p8"%bs) then []
  else
    OpenRead fname :: map OpenRead incs ++
    if loads then
      let out := out_fname overwrite fname in
      to_file_trace (formatter_for_filename exts out) out out_exists None chunks fail_at
    else [].

(* process_game_files over the whole argument list: the carts are processed in order; an exception in
   one write is not caught, it ends the command (later carts are not reached).  [fail_at] counts the
   temporary-stream writes of the whole command. *)
Record cart_in : Type := mkCartIn {
  ci_fname : bytes; ci_incs : list path; ci_loads : bool; ci_out_exists : bool; ci_chunks : list D }.

Definition writes_of (exts : list bytes) (overwrite : bool) (c : cart_in) : nat :=
  if negb (ends_with (ci_fname c) ".p8.png"%bs) && negb (ends_with (ci_fname c) ".p8"%bs) then O
  else if ci_loads c then
         match formatter_for_filename exts (out_fname overwrite (ci_fname c)) with
         | Some _ => length (ci_chunks c)
         | None => O
         end
       else O.

(* UnrecognizedFileType for the output name (cannot happen with the real FORMATTERS table): the command ends *)
Definition aborts (exts : list bytes) (overwrite : bool) (c : cart_in) : bool :=
  negb (negb (ends_with (ci_fname c) ".p8.png"%bs) && negb (ends_with (ci_fname c) ".p8"%bs)) && ci_loads c &&
  match formatter_for_filename exts (out_fname overwrite (ci_fname c)) with Some _ => false | None => true end.

Fixpoint process_many_trace (exts : list bytes) (overwrite : bool) (files : list cart_in)
         (fail_at : option nat) : list (op D) :=
  match files with
  | [] => []
  | c :: r =>
    let one f := process_one_trace exts overwrite (ci_fname c) (ci_incs c) (ci_loads c) (ci_out_exists c) (ci_chunks c) f in
    if aborts exts overwrite c then one None
    else
      match fail_at with
      | None => one None ++ process_many_trace exts overwrite r None
      | Some k =>
        if Nat.ltb k (writes_of exts overwrite c) then one (Some k)
        else one None ++ process_many_trace exts overwrite r (Some (k - writes_of exts overwrite c)%nat)
      end
  end.

(* ---------- build.py: do_build ---------- *)
(* OUT is loaded when it exists, every named source is read, then (C13: at most once, last) to_file *)
Definition build_trace (exts : list bytes) (out : bytes) (out_exists : bool) (sources : list path)
           (writes : bool) (chunks : list D) (fail_at : option nat) : list (op D) :=
  (if out_exists then [OpenRead out] else []) ++ map OpenRead sources ++
  if writes then to_file_trace (formatter_for_filename exts out) out out_exists None chunks fail_at
  else [].

End Proto.
