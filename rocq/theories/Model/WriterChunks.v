(* Output of the AST writers (pico8/lua/lua.py LuaASTEchoWriter and subclasses) as a list of chunks,
   one per advance of the writer's token cursor.  Shared by Model/AstWriter.v (the walk produces
   the chunk list) and by the proofs about a particular spaces function (Model/FmtSpaces*.v).

   Trivia start_pos indent at_end run
       one call of _get_code_for_spaces: [run] is the maximal run of TokSpace / TokNewline /
       TokComment tokens it consumed (possibly empty), [start_pos] the cursor before the run,
       [indent] the writer's _indent counter at the call (nesting, not multiplied by the indent
       width), [at_end] whether the cursor equals len(tokens) after the run
   Code i text
       the cursor passed the significant token with index i and [text] was emitted for it
       (the token's code; for a keyword / symbol the expected spelling; for a label `::name::`)

   The text of the output is the concatenation of the chunk texts, where a Trivia chunk is
   rendered by the writer's spaces function W (echo writer: the codes of the run). *)
From PV Require Import Base.Prelude Spec.LuaTokens.

Definition spaces_fn : Type := Z -> Z -> bool -> list token -> list Z.

Inductive chunk : Type :=
| Trivia (start_pos indent : Z) (at_end : bool) (run : list token)
| Code (i : Z) (text : list Z).

Definition chunk_text (W : spaces_fn) (c : chunk) : list Z :=
  match c with
  | Trivia s ind e run => W s ind e run
  | Code _ text => text
  end.

Definition chunks_text (W : spaces_fn) (cs : list chunk) : list Z := flat_map (chunk_text W) cs.

(* LuaASTEchoWriter._get_code_for_spaces: the codes of the run, verbatim *)
Definition echo_spaces : spaces_fn := fun _ _ _ run => flat_map tcode run.
