(* The to_file protocol model over recorded data (lengths), with the regenerated FORMATTERS order. *)
From PV Require Import Base.Prelude Spec.BuildSpec Spec.FsSem Model.FsProto Generated.T_file_proto.

Definition zsum (l : list Z) : Z := fold_left Z.add l 0.

Definition formatter_now (filename : bytes) : option formatter := formatter_for_filename formatters_order filename.

Definition to_file_trace_now (dest : path) (dest_exists : bool) (label_fname : option path)
           (chunks : list Z) (fail_at : option nat) : list (op Z) :=
  to_file_trace zsum (formatter_now dest) dest dest_exists label_fname chunks fail_at.

Definition process_one_trace_now (overwrite : bool) (fname : bytes) (incs : list path) (loads out_exists : bool)
           (chunks : list Z) (fail_at : option nat) : list (op Z) :=
  process_one_trace zsum formatters_order overwrite fname incs loads out_exists chunks fail_at.

Definition build_trace_now (out : bytes) (out_exists : bool) (sources : list path) (writes : bool)
           (chunks : list Z) (fail_at : option nat) : list (op Z) :=
  build_trace zsum formatters_order out out_exists sources writes chunks fail_at.

Definition process_many_trace_now (overwrite : bool) (files : list (cart_in (D:=Z))) (fail_at : option nat) : list (op Z) :=
  process_many_trace zsum formatters_order overwrite files fail_at.
