(* Model of pico8/lua/lua.py LuaEchoWriter.to_lines (the default writer of Lua.to_lines): the generator
   yields b''.join(token.code ...) after every TokNewline token, and the remainder at the end.
   Definitions only. *)
From PV Require Import Base.Prelude Generated.T_lexer Model.Lexer.

Definition is_newline_tok (t : tok) : bool := match t_kind t with KNewline => true | _ => false end.

(* strs (newest first) -> b''.join(strs) *)
Definition join_rev (strs_rev : list (list Z)) : list Z := concat (rev' strs_rev).

Fixpoint echo_lines (ts : list tok) (strs_rev : list (list Z)) : list (list Z) :=
  match ts with
  | [] => match strs_rev with [] => [] | _ => [join_rev strs_rev] end          (* if strs: yield *)
  | t :: r =>
    if is_newline_tok t then join_rev (tok_code t :: strs_rev) :: echo_lines r []
    else echo_lines r (tok_code t :: strs_rev)
  end.

Definition echo (ts : list tok) : list (list Z) := echo_lines ts [].

(* b"".join(Lua.from_lines(chunks).to_lines()) up to the parser stage, which the echo writer ignores *)
Definition echo_source (chunks : list (list Z)) : result (list (list Z)) :=
  match model_lex chunks with Ok ts => Ok (echo ts) | Err e => Err e end.
