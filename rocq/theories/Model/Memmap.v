(* Model of Game.write_cart_data (pico8/game/game.py).
   Regenerated: the guard, the skip test, the four slice-bound expressions, the memmap
   constants and the region each row refers to (Generated/K_game.v).
   Hand-modelled: the loop over the memmap rows and Python's slice / slice-assignment. *)
From PV Require Import Base.Prelude Base.PySlice Generated.K_game.

(* the five data regions, in canonical order: 0 gfx, 1 map, 2 gff, 3 music, 4 sfx *)
Definition regions := list (list Z).

Definition wcd_rows : list (Z * Z * Z) :=
  combine (combine [wcd_mm_0_lo; wcd_mm_1_lo; wcd_mm_2_lo; wcd_mm_3_lo; wcd_mm_4_lo]
                   [wcd_mm_0_hi; wcd_mm_1_hi; wcd_mm_2_hi; wcd_mm_3_hi; wcd_mm_4_hi])
          wcd_region_ids.

Fixpoint update_nth {A} (n : nat) (f : A -> A) (l : list A) : list A :=
  match l, n with
  | [], _ => []
  | x :: r, O => f x :: r
  | x :: r, S k => x :: update_nth k f r
  end.

Definition wcd_region_update (start_addr : Z) (data : list Z) (start_a end_a : Z) (sec : list Z) : list Z :=
  let n := zlen data in
  py_setslice sec (wcd_data_start start_addr start_a) (wcd_data_end start_addr n start_a end_a)
              (py_slice data (wcd_text_start start_addr start_a) (wcd_text_end start_addr n end_a)).

Definition wcd_row (start_addr : Z) (data : list Z) (st : regions) (row : Z * Z * Z) : regions :=
  let '(start_a, end_a, rid) := row in
  if wcd_skip start_addr (zlen data) start_a end_a then st
  else update_nth (Z.to_nat rid) (wcd_region_update start_addr data start_a end_a) st.

Definition write_cart_data (st : regions) (data : list Z) (start_addr : Z) : result regions :=
  if wcd_guard start_addr (zlen data) then Err ValueError
  else Ok (fold_left (wcd_row start_addr data) wcd_rows st).

(* histories: a sequence of writes, stopping at the first error like the real calls would *)
Fixpoint write_many (st : regions) (ws : list (Z * list Z)) : result regions :=
  match ws with
  | [] => Ok st
  | (a, d) :: r => st' <- write_cart_data st d a ;; write_many st' r
  end.
