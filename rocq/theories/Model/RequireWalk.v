(* Model of the recursion of _evaluate_require (pico8/build/build.py): which paths are handed to
   os.path.isfile and to open(), in order, while the require() calls of a main file and of the files it
   requires are evaluated.  The content of a file is abstract: [requires_of p] is the list of require strings
   RequireWalker yields for the file at path p, in req_walk order (the Lua stack is property C14's subject; a
   file that does not lex / parse ends the run early, which only shortens the trace).
   Executable definitions only. *)
From PV Require Import Base.Prelude Model.Paths Model.Require Model.FilesInst.

Section Walk.
Variable requires_of : bytes -> list bytes.
Variable isfile : bytes -> bool.
Variable lua_path : bytes.                       (* the effective load path *)

Fixpoint mem_bytes (x : bytes) (l : list bytes) : bool :=
  match l with [] => false | y :: r => zlist_eqb x y || mem_bytes x r end.

(* one event: false = os.path.isfile(p), true = open(p, 'rb') *)
Definition wev : Type := bool * bytes.
Definition probe_ev (p : bytes) : wev := (false, p).
Definition open_ev (p : bytes) : wev := (true, p).

(* _evaluate_require(ast of file_path, file_path, package_lua = loaded); [reqs] are the require strings
   still to be processed in this file; [fuel] bounds the total number of steps *)
Fixpoint req_walk (fuel : nat) (file_path : bytes) (reqs : list bytes) (loaded : list bytes)
  : list wev * result (list bytes) :=
  match fuel with
  | O => ([], Err OutOfFuel)
  | S k =>
    match reqs with
    | [] => ([], Ok loaded)
    | req :: rest =>
      if negb (require_filter_now req) then ([], Err BuildError)
      else if mem_bytes req loaded then req_walk k file_path rest loaded
      else
        let cands := require_candidates_now file_path lua_path req in
        let pr := map probe_ev (probes isfile cands) in
        match first_file isfile cands with
        | None => (pr, Err BuildError)
        | Some p =>
          let '(t1, r1) := req_walk k p (requires_of p) (req :: loaded) in
          match r1 with
          | Err e => (pr ++ open_ev p :: t1, Err e)
          | Ok loaded' =>
            let '(t2, r2) := req_walk k file_path rest loaded' in
            (pr ++ open_ev p :: t1 ++ t2, r2)
          end
        end
    end
  end.

Definition evaluate_require (fuel : nat) (main : bytes) : list wev * result (list bytes) :=
  req_walk fuel main (requires_of main) [].
End Walk.
