(* One step of the accessor API on the five regions, dispatching to the section models.
   The Map always has its Gfx attached (as in every Game object). *)
From PV Require Import Base.Prelude Model.Gfx Model.Gff Model.MapSec Model.Sfx Model.Music Spec.PlainMem.

Definition mk (g m f mu s : list Z) : mem :=
  {| m_gfx := g; m_map := m; m_gff := f; m_music := mu; m_sfx := s |}.

Definition step_model (has_gfx : bool) (s : mem) (o : op) : result (mem * val) :=
  let g := m_gfx s in let m := m_map s in let f := m_gff s in let mu := m_music s in let sf := m_sfx s in
  match o with
  | GetSprite id w h => r <- get_sprite g id w h ;; Ok (s, VRows r)
  | SetSprite id xo yo rows => g' <- set_sprite g id rows xo yo ;; Ok (mk g' m f mu sf, VNone)
  | MapGet x y => v <- map_get_cell m g has_gfx x y ;; Ok (s, VInt v)
  | MapSet x y v => '(m', g') <- map_set_cell m g has_gfx x y v ;; Ok (mk g' m' f mu sf, VNone)
  | MapGetRect x y w h => r <- map_get_rect_tiles m g has_gfx x y w h ;; Ok (s, VRows r)
  | MapSetRect x y rows => '(m', g') <- map_set_rect_tiles m g has_gfx rows x y ;; Ok (mk g' m' f mu sf, VNone)
  | MapGetRectPx x y w h => r <- map_get_rect_pixels m g has_gfx x y w h ;; Ok (s, VRows r)
  | FlagGet id fl => v <- gff_get_flags f id fl ;; Ok (s, VInt v)
  | FlagSet id fl => f' <- gff_set_flags f id fl ;; Ok (mk g m f' mu sf, VNone)
  | FlagClear id fl => f' <- gff_clear_flags f id fl ;; Ok (mk g m f' mu sf, VNone)
  | FlagReset id fl => f' <- gff_reset_flags f id fl ;; Ok (mk g m f' mu sf, VNone)
  | NoteGet id n => '(p, w, v, e) <- sfx_get_note sf id n ;; Ok (s, VTuple [p; w; v; e])
  | NoteSet id n p w v e => sf' <- sfx_set_note sf id n p w v e ;; Ok (mk g m f mu sf', VNone)
  | SfxPropGet id => '(a, b, c, d) <- sfx_get_properties sf id ;; Ok (s, VTuple [a; b; c; d])
  | SfxPropSet id a b c d => sf' <- sfx_set_properties sf id a b c d ;; Ok (mk g m f mu sf', VNone)
  | ChanGet id ch => v <- music_get_channel mu id ch ;; Ok (s, VOptInt v)
  | ChanSet id ch pat => mu' <- music_set_channel mu id ch pat ;; Ok (mk g m f mu' sf, VNone)
  | MusPropGet id => '(b, e, st) <- music_get_properties mu id ;; Ok (s, VBools b e st)
  | MusPropSet id b e st => mu' <- music_set_properties mu id b e st ;; Ok (mk g m f mu' sf, VNone)
  end.

Fixpoint run_model (has_gfx : bool) (s : mem) (ops : list op) : result (mem * list val) :=
  match ops with
  | [] => Ok (s, [])
  | o :: r => '(s1, v) <- step_model has_gfx s o ;; '(s2, vs) <- run_model has_gfx s1 r ;; Ok (s2, v :: vs)
  end.
