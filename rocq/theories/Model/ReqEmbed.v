(* Model of the package embedding of `p8tool build --lua main.lua` (property C14):
   pico8/build/build.py  _evaluate_require (the depth-first loading of require()d files into the
   insertion-ordered dict package_lua, which doubles as the visited set), _prepend_package_lua
   (the text put in front of the main program) and the part of do_build / P8Formatter.to_file
   that turns the result into the __lua__ section.

   WHERE require looks for a file is Model/Require.v (property C12); this file is about WHAT is
   embedded.  Executable definitions only.

   The model is a Section over the pieces of the Lua text stack it uses, so that everything proved
   about it (Proofs/ReqEmbedProofs.v) holds for EVERY lexer / parser / walker / file map / load
   path; Model/ReqEmbedInst.v instantiates it with the lexer and parser models and the regenerated
   constants of build.py. *)
From PV Require Import Base.Prelude.

(* bytes.endswith(b'\n') *)
Fixpoint ends_with_nl (s : bytes) : bool :=
  match s with
  | [] => false
  | [c] => c =? 10
  | _ :: r => ends_with_nl r
  end.

(* x in [names] *)
Definition mem_name (n : bytes) (l : list bytes) : bool := existsb (zlist_eqb n) l.

Section Embed.
(* ---- the Lua text stack, abstractly ---- *)
Variable P : Type.                                      (* a lua.Lua object (token list + tree) *)
Variable parse_lines : list bytes -> result P.          (* Lua.from_lines(lines, version): lex + parse *)
Variable echo : P -> list bytes.                        (* Lua.to_lines() with the default LuaEchoWriter *)
Variable strip : P -> result P.                         (* the `if not use_game_loop:` block: take the game loop
                                                           functions out of the token stream, lex + parse again *)
Variable walk : P -> list (bytes * bool) * option err.  (* RequireWalker(tokens, root).walk(): the (require_path,
                                                           use_game_loop) pairs yielded, in order, then the
                                                           exception that ended the generator, if any *)
Variable file_lines : bytes -> list bytes.              (* iterating a file opened 'rb' *)
(* ---- names and files ---- *)
Variable check_name : bytes -> result unit.             (* require_path.decode('utf-8'), then the "./" and "/" test *)
Variable find : bytes -> bytes -> option (bytes * bytes).
   (* find file_path name = Some (reqd_filepath, contents): _locate_require_file over the file system, then
      open(reqd_filepath, 'rb'); None: no candidate is a file *)
(* ---- constants of _prepend_package_lua ---- *)
Variable preamble_package preamble_require : list bytes.   (* REQUIRE_LUA_PREAMBLE_PACKAGE / _REQUIRE *)
Variable header_line : bytes -> bytes.                     (* b'package._c["' + escaped_pth + b'"]=function()\n' *)
Variable end_line nl_line : bytes.                         (* b'end\n', b'\n' *)

Definition pkgs : Type := list (bytes * P).                (* package_lua, in insertion order *)
Definition names (pk : pkgs) : list bytes := map fst pk.

(* the body of the `if require_path not in package_lua:` block up to the recursive call *)
Definition load (file_path name : bytes) (gl : bool) : result (bytes * P) :=
  match find file_path name with
  | None => Err BuildError                                  (* require() file ... not found *)
  | Some (path, content) =>
    q <- parse_lines (file_lines content) ;;
    q' <- (if gl then Ok q else strip q) ;;
    Ok (path, q')
  end.

(* one iteration of `for (require_path, use_game_loop, require_token) in walker.walk():` *)
Definition step (rec : P -> bytes -> pkgs -> result pkgs) (file_path : bytes)
           (r : bytes * bool) (pk : pkgs) : result pkgs :=
  let '(name, gl) := r in
  _ <- check_name name ;;
  if mem_name name (names pk) then Ok pk
  else
    '(path, q) <- load file_path name gl ;;
    rec q path (pk ++ [(name, q)]).

Fixpoint fold_reqs (rec : P -> bytes -> pkgs -> result pkgs) (file_path : bytes)
         (rs : list (bytes * bool)) (pk : pkgs) : result pkgs :=
  match rs with
  | [] => Ok pk
  | r :: rest => pk' <- step rec file_path r pk ;; fold_reqs rec file_path rest pk'
  end.

(* _evaluate_require(ast, file_path, package_lua): the recursion depth is bounded by [fuel] *)
Fixpoint eval (fuel : nat) (p : P) (file_path : bytes) (pk : pkgs) : result pkgs :=
  match fuel with
  | O => Err OutOfFuel
  | S f =>
    pk' <- fold_reqs (eval f) file_path (fst (walk p)) pk ;;
    match snd (walk p) with
    | Some e => Err e                                       (* the walker raised after its last item *)
    | None => Ok pk'
    end
  end.

(* the lines one package contributes to package_header *)
Definition block (e : bytes * P) : list bytes :=
  let hdr := header_line (fst e) in
  let body := echo (snd e) in
  hdr :: body ++ (if ends_with_nl (last body hdr) then [] else [nl_line]) ++ [end_line].

(* new_code of _prepend_package_lua, for a non-empty package_lua *)
Definition prepend_lines (main : P) (pk : pkgs) : list bytes :=
  preamble_package ++ flat_map block pk ++ preamble_require ++ echo main.

(* _prepend_package_lua *)
Definition prepend (main : P) (pk : pkgs) : result P :=
  match pk with
  | [] => Ok main
  | _ => parse_lines (prepend_lines main pk)
  end.

(* the `if section == 'lua' and fn.endswith('.lua'):` branch of do_build: the Lua object of the result *)
Definition build_lua (fuel : nat) (main_path main_content : bytes) : result (P * pkgs) :=
  m <- parse_lines (file_lines main_content) ;;
  pk <- eval fuel m main_path [] ;;
  r <- prepend m pk ;;
  Ok (r, pk).

(* P8Formatter.to_file: the "sanity check" lexes and parses the written lines once more; the
   __lua__ section is the lines, plus a newline if the last one has none (or there is none) *)
Definition lua_section (r : P) : result bytes :=
  _ <- parse_lines (echo r) ;;
  let ls := echo r in
  Ok (concat ls ++ (if ends_with_nl (last ls []) then [] else [10])).

(* the code of OUT.p8 *)
Definition build_code (fuel : nat) (main_path main_content : bytes) : result bytes :=
  '(r, _) <- build_lua fuel main_path main_content ;;
  lua_section r.
End Embed.
