(* Model of the require() machinery of pico8/build/build.py.
   Part 1 (property C12): the require-string filter of _evaluate_require and the candidate
   list of _locate_require_file.  Regenerated and pinned (Proofs/RequireProofs.v):
   DEFAULT_LUA_PATH, the tests of the filter (as a list of atoms), the split and replace
   characters, os.path.sep.  Executable definitions only. *)
From PV Require Import Base.Prelude Model.Paths.

Section Locate.
Variable atoms : list (Z * bytes * bytes).   (* the `or`-ed tests of the filter, as regenerated *)
Variable path_sep : Z.                (* ';' of lua_path.split(';') *)
Variable placeholder : Z.             (* '?' of lookup_p.replace('?', p) *)
Variable default_path : bytes.        (* DEFAULT_LUA_PATH *)

(* sub in s (bytes containment) *)
Fixpoint contains (sub s : bytes) : bool :=
  starts_with sub s || match s with [] => false | _ :: r => contains sub r end.

(* one test of the filter (gen/kernels_files.py):
     (0,_,_)  not require_path               (1,c,_)  c in require_path
     (2,c,_)  require_path.startswith(c)     (3,c,d)  c in require_path.split(d)   (d one byte) *)
Definition eval_atom (req : bytes) (a : Z * bytes * bytes) : bool :=
  let '(k, c, d) := a in
  if k =? 0 then is_empty req
  else if k =? 1 then contains c req
  else if k =? 2 then starts_with c req
  else if k =? 3 then existsb (zlist_eqb c) (split_on (hd 0 d) req)
  else true.

(* True when _evaluate_require does NOT raise LuaBuildError for the require string *)
Definition require_filter (req : bytes) : bool := negb (existsb (eval_atom req) atoms).

(* lua_path: --lua-path argument, else PICO8_LUA_PATH, else the default *)
Definition effective_lua_path (arg env : option bytes) : bytes :=
  match arg with
  | Some p => p
  | None => match env with Some p => p | None => default_path end
  end.

Definition candidate (rel_path_base req lookup_p : bytes) : bytes :=
  let c := replace_char placeholder req lookup_p in
  if isabs c then c else join rel_path_base c.

(* every path _locate_require_file may hand to os.path.isfile, in order *)
Definition require_candidates (file_path lua_path req : bytes) : list bytes :=
  map (candidate (dirname file_path) req) (split_on path_sep lua_path).

Variable isfile : bytes -> bool.

Fixpoint first_file (cands : list bytes) : option bytes :=
  match cands with
  | [] => None
  | c :: r => if isfile c then Some c else first_file r
  end.

Definition locate_require_file (file_path lua_path req : bytes) : option bytes :=
  first_file (require_candidates file_path lua_path req).

(* the probes actually made: candidates up to and including the first existing file *)
Fixpoint probes (cands : list bytes) : list bytes :=
  match cands with
  | [] => []
  | c :: r => if isfile c then [c] else c :: probes r
  end.
End Locate.
