(* C20 - #include splices exactly the named file or cart tab at the include line. (stub, extended below) *)
From PV Require Import Base.Prelude Model.Paths Model.Include Model.FilesInst Spec.SpliceSpec Instances.HoldsC20.
