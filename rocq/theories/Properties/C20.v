(* C20 - #include splices exactly the named file or cart tab at the include line.
   Property theorems only; proofs live in Proofs/SpliceProofs.v and Proofs/SpliceRefine.v.

   Model: Model/Include.v (INCLUDE_LINE_RE.match as a scanning function, lines_for_tab,
   process_includes, file iteration) instantiated in Model/FilesInst.v with the regenerated
   constants; the path side (which file a NAME denotes) is the C12 model.  Reference:
   Spec/SpliceSpec.v (text lines, the directive, code tabs, the reference splice), written from
   the description of the feature.  The model follows the code after the `fix:` commit recorded in
   findings/known_C20.json (an included line without final newline now gets one; tabs are selected on text
   lines; the captured name is decoded as P8SCII); the three shapes are regenerated (include_newline_kind,
   include_cart_lines_kind, include_name_decode_kind) and pinned. *)
From PV Require Import Base.Prelude Model.Paths Model.Include Model.FilesInst Spec.SpliceSpec
  Instances.HoldsC20 Proofs.SpliceProofs Proofs.SpliceRefine.

(* the result is the concatenation, in order, of what each line of the cart expands to ... *)
Theorem C20_splice : forall cwd home fs filename lines out,
  process_includes_now cwd home fs filename lines = Ok out ->
  exists chunks, Forall2 (fun l c => expand_now cwd home fs filename l = Ok c) lines chunks /\ out = concat chunks.
Proof. exact splice_now. Qed.
Print Assumptions C20_splice.

Theorem C20_splice_complete : forall cwd home fs filename lines chunks,
  Forall2 (fun l c => expand_now cwd home fs filename l = Ok c) lines chunks ->
  process_includes_now cwd home fs filename lines = Ok (concat chunks).
Proof. exact splice_complete_now. Qed.
Print Assumptions C20_splice_complete.

(* ... where a line that is not an include line expands to itself, and an include line to the lines its
   target yields (a .lua file: the file's lines; a cart: the lines of its code, or of one tab), each
   ending in a newline, and NOT examined again (includes inside included carts are not expanded) *)
Theorem C20_expand : forall cwd home fs filename l,
  match match_include_line l with
  | None => expand_now cwd home fs filename l = Ok [l]
  | Some (path, ext, tab) =>
    match filename with
    | None => expand_now cwd home fs filename l = Err AssertionError
    | Some f =>
      match decode_name_now path with
      | Err e => expand_now cwd home fs filename l = Err e
      | Ok nm =>
        match resolve_include_now cwd home (fs_isfile fs) f (nm ++ ext) with
        | Err e => expand_now cwd home fs filename l = Err e
        | Ok p =>
          match fs_target T_files_p8.include_cart_lines_kind fs p ext with
          | None => expand_now cwd home fs filename l = Err OtherError
          | Some ls => expand_now cwd home fs filename l =
                       Ok (map (yielded 1) (if is_cart_ext ext then lines_for_tab ls tab else ls))
          end
        end
      end
    end
  end.
Proof. exact expand_now_cases. Qed.
Print Assumptions C20_expand.

(* tab selection: NAME:n is the n-th segment between "-->8" lines (empty beyond the last), no selector
   is the whole code including the separator lines; the lines offered are the TEXT lines of the cart's
   code (C20_expand: fs_target with include_cart_lines_kind = 1), so a "-->8" line inside a multi-line
   string or comment separates tabs as it does in PICO-8 *)
Theorem C20_tab : forall ls,
  lines_for_tab ls None = ls /\
  (forall n, 0 <= n -> lines_for_tab ls (Some n) = nth (Z.to_nat n) (split_at_tabs ls) []) /\
  (forall n, n < 0 -> lines_for_tab ls (Some n) = []).
Proof. exact lines_for_tab_spec. Qed.
Print Assumptions C20_tab.

(* a missing target fails the load: at the first include line whose target is not a file; and any line
   whose expansion fails makes the whole load fail; without a file name the assert fires *)
Theorem C20_missing : forall cwd home fs f pre l post chunks path ext tab nm,
  Forall2 (fun l c => expand_now cwd home fs (Some f) l = Ok c) pre chunks ->
  match_include_line l = Some (path, ext, tab) ->
  decode_name_now path = Ok nm ->
  fs_isfile fs (include_full_path cwd f (nm ++ ext)) = false ->
  process_includes_now cwd home fs (Some f) (pre ++ l :: post) = Err IncludeNotFound \/
  process_includes_now cwd home fs (Some f) (pre ++ l :: post) = Err IncludeOutside.
Proof. exact missing_now. Qed.
Print Assumptions C20_missing.

Theorem C20_error : forall cwd home fs filename lines l e,
  In l lines -> expand_now cwd home fs filename l = Err e ->
  exists e', process_includes_now cwd home fs filename lines = Err e'.
Proof. exact error_now. Qed.
Print Assumptions C20_error.

Theorem C20_no_filename : forall cwd home fs pre l post chunks path ext tab,
  Forall2 (fun l c => expand_now cwd home fs None l = Ok c) pre chunks ->
  match_include_line l = Some (path, ext, tab) ->
  process_includes_now cwd home fs None (pre ++ l :: post) = Err AssertionError.
Proof. exact nofile_now. Qed.
Print Assumptions C20_no_filename.

(* the regex recogniser reads every line the description defines the way the description does
   (the line as the cart reader hands it over: with or without its "\n") *)
Theorem C20_recogniser : forall l nl, is_term nl ->
  match classify l with
  | Plain => match_include_line (l ++ nl) = None
  | Include name k tab =>
    exists base, match_include_line (l ++ nl) = Some (base, ext_of k, tab) /\ name = base ++ ext_of k
  | Undefined => True
  end.
Proof. exact recogniser_agrees. Qed.
Print Assumptions C20_recogniser.

(* C20_in_place, on code TEXT: for every cart (any number of lines, include lines at any positions),
   every directory content and every file-system view describing the same files (fs_agrees: the name in the
   line decodes - as P8SCII - to a file name; a named text file is read as its bytes; a named cart's reader
   returns its code, in chunks of any shape), whenever the
   description defines the result the model produces exactly the reference lines - so no line of the
   cart is merged with an included line, with or without final newline in the included code - and
   fails when the description says a file is missing *)
Theorem C20_in_place : forall cwd home fs f content bodies,
  fs_agrees cwd home fs f content ->
  Forall no_nl bodies ->
  let hs := map (fun b => b ++ [10]) bodies in
  let impl := model_outcome (process_includes_now cwd home fs (Some f) hs) in
  text_lines (concat hs) = bodies /\
  match ref_splice content bodies with
  | SpOk ls => exists t, impl = Some t /\ text_lines t = ls
  | SpMissing => impl = None
  | SpUndefined => True
  end.
Proof. exact refines_now. Qed.
Print Assumptions C20_in_place.

(* the same for a cart whose last code line has no final newline (a .p8 file ending inside its code) *)
Theorem C20_in_place_unterminated_last : forall cwd home fs f content init last,
  fs_agrees cwd home fs f content ->
  Forall no_nl init -> no_nl last -> last <> [] ->
  let hs := map (fun b => b ++ [10]) init ++ [last] in
  let impl := model_outcome (process_includes_now cwd home fs (Some f) hs) in
  text_lines (concat hs) = init ++ [last] /\
  match ref_splice content (init ++ [last]) with
  | SpOk ls => exists t, impl = Some t /\ text_lines t = ls
  | SpMissing => impl = None
  | SpUndefined => True
  end.
Proof. exact refines_last_now. Qed.
Print Assumptions C20_in_place_unterminated_last.

(* ... hence the instance predicate the monitor evaluates on the implementation holds of the model *)
Theorem C20_model_holds : forall cwd home fs f files bodies,
  fs_agrees cwd home fs f (lookup_content files) ->
  Forall no_nl bodies ->
  let hs := map (fun b => b ++ [10]) bodies in
  holds_C20 (concat hs) files (model_outcome (process_includes_now cwd home fs (Some f) hs)) = true.
Proof. exact holds_now. Qed.
Print Assumptions C20_model_holds.

(* iterating over a text file yields its lines; they are one-line chunks *)
Theorem C20_file_lines : forall b, map strip_nl (file_lines b) = text_lines b /\ Forall line_like (file_lines b).
Proof. exact (fun b => conj (file_lines_text b) (file_lines_line_like b)). Qed.
Print Assumptions C20_file_lines.

(* with `yield line` at the two sites (the code before the fix) C20_in_place is false: an included
   file without final newline was glued to the next line of the cart (x=1 / a=bc=d); today's model
   gives x=1 / a=b / c=d *)
Theorem C20_glue_variant_refuted :
  holds_C20 (concat (map (fun b => b ++ [10]) g_host)) g_files (model_outcome (g_run 0)) = false /\
  model_outcome (g_run 0) = Some [120; 61; 49; 10; 97; 61; 98; 99; 61; 100; 10] /\
  holds_C20 (concat (map (fun b => b ++ [10]) g_host)) g_files (model_outcome (g_run T_files_p8.include_newline_kind)) = true /\
  model_outcome (g_run T_files_p8.include_newline_kind) = Some [120; 61; 49; 10; 97; 61; 98; 10; 99; 61; 100; 10].
Proof. exact glue_variant_refuted. Qed.
Print Assumptions C20_glue_variant_refuted.

(* selecting the tab on the reader's chunks (the code before the second fix) is false as well: the
   cart  s=[[ / -->8 / ]] / t=2 / -->8 / u=3  has the tabs {s=[[}, {]] t=2}, {u=3}; `#include m.p8:1` gave u=3 *)
Theorem C20_tab_variant_refuted :
  concat m_chunks = m_code /\
  holds_C20 (concat (map (fun b => b ++ [10]) m_host)) m_files (model_outcome (m_run 0)) = false /\
  model_outcome (m_run 0) = Some [117; 61; 51; 10] /\
  holds_C20 (concat (map (fun b => b ++ [10]) m_host)) m_files (model_outcome (m_run T_files_p8.include_cart_lines_kind)) = true /\
  model_outcome (m_run T_files_p8.include_cart_lines_kind) = Some [93; 93; 10; 116; 61; 50; 10].
Proof. exact tab_variant_refuted. Qed.
Print Assumptions C20_tab_variant_refuted.

(* decoding the captured name as UTF-8 (the code before the third fix) is false as well: `#include <0x86>.lua`,
   the P8SCII spelling of a file named U+25CF.lua, raised UnicodeDecodeError; today's model includes the file *)
Theorem C20_decode_variant_refuted :
  u_run 0 = Err UnicodeError /\
  holds_C20 (concat (map (fun b => b ++ [10]) u_host)) u_files (model_outcome (u_run 0)) = false /\
  holds_C20 (concat (map (fun b => b ++ [10]) u_host)) u_files (model_outcome (u_run T_files_p8.include_name_decode_kind)) = true /\
  model_outcome (u_run T_files_p8.include_name_decode_kind) = Some [118; 61; 49; 10].
Proof. exact decode_variant_refuted. Qed.
Print Assumptions C20_decode_variant_refuted.

(* non-vacuity: a line the description reads as an include of tab 2 of a .p8.png cart in a sub-directory,
   a plain line, an undefined one; a three-tab code *)
Example C20_nonvacuous :
  classify [32; 35; 105; 110; 99; 108; 117; 100; 101; 9; 115; 47; 116; 46; 112; 56; 46; 112; 110; 103; 58; 50; 32] =
    Include [115; 47; 116; 46; 112; 56; 46; 112; 110; 103] 2 (Some 2)       (* " #include\ts/t.p8.png:2 " *)
  /\ classify [120; 61; 49] = Plain
  /\ classify [35; 105; 110; 99; 108; 117; 100; 101; 32; 97; 46; 116; 120; 116] = Undefined   (* #include a.txt *)
  /\ split_tabs (text_lines [97; 10; 45; 45; 62; 56; 10; 98; 10; 45; 45; 62; 56; 10; 99]) = [[[97]]; [[98]]; [[99]]].
Proof. repeat split; vm_compute; reflexivity. Qed.
