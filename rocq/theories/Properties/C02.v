(* C02 - luamin renaming is a consistent injection that respects reserved names.
   Model: Model/NameFactory.v (MinifyNameFactory of pico8/lua/lua.py, after the two fix: commits
   for S2 and S3; every writer name and label goes through get_short_name of one factory).
   preserved_names, lua_keywords, pico8_builtins, name_chars and the _name_for_id kernels are
   regenerated from the repository on every run; the decidable side conditions on them
   (chars_ok, chars_ident_ok, preserved_ok) are recomputed by vm_compute in
   Proofs/NameFactoryProofs.v, where the source texts of get_short_name, of the writer's two
   calls and of the luamin / build command-line wiring are pinned.
   `observed names outs n o` = some request of identifier n was answered o
   (In (n, o) (combine names outs)); the theorems hold for request sequences of any length,
   every configuration and every keep file. *)
From PV Require Import Base.Prelude Generated.T_luanames Generated.T_lexer Model.NameFactory
  Instances.HoldsC02 Proofs.NameFactoryProofs Proofs.HoldsC02Proofs.

(* 1. the enumeration of short names never repeats a name (all ids, no bound) *)
Theorem C02_name_for_id_injective :
  forall i j, 0 <= i -> 0 <= j -> name_for_id i = name_for_id j -> i = j.
Proof. exact name_for_id_injective. Qed.
Print Assumptions C02_name_for_id_injective.

(* ... is total (the logarithmic fuel never runs out, no IndexError) and yields non-empty
   names made of characters that may start a Lua name *)
Theorem C02_name_for_id_identifier :
  forall id, 0 <= id -> exists n, name_for_id id = Ok n /\ n <> [] /\ Forall (fun c => ident_start c = true) n.
Proof. exact name_for_id_total_identifier. Qed.
Print Assumptions C02_name_for_id_identifier.

(* 2. consistent: one input identifier, one output identifier *)
Theorem C02_consistent :
  forall cfg names outs n o1 o2, run_factory cfg names = Ok outs ->
    observed names outs n o1 -> observed names outs n o2 -> o1 = o2.
Proof. exact consistent. Qed.
Print Assumptions C02_consistent.

(* 3. injective: two different identifiers never get the same output identifier, whether kept
   unchanged or generated *)
Theorem C02_injective :
  forall cfg names outs, run_factory cfg names = Ok outs ->
    forall n1 n2 o, observed names outs n1 o -> observed names outs n2 o -> n1 = n2.
Proof. exact injective. Qed.
Print Assumptions C02_injective.

(* 4. keywords, builtins, keep-file names and (keep_all) all names are left as written *)
Theorem C02_kept_unchanged :
  forall cfg names outs n o, run_factory cfg names = Ok outs -> observed names outs n o ->
    (keep_all cfg = true \/ In n lua_keywords \/ In n pico8_builtins \/
     (exists ks, names_to_keep cfg = Some ks /\ In n ks)) -> o = n.
Proof. exact kept_unchanged. Qed.
Print Assumptions C02_kept_unchanged.

(* 5. a renamed identifier never becomes a keyword, a builtin or a keep-file name; it is a name
   of the enumeration *)
Theorem C02_generated_not_reserved :
  forall cfg names st' outs n o, run_factory_st cfg names = Ok (st', outs) ->
    observed names outs n o -> ~ is_kept cfg n ->
    ~ In o lua_keywords /\ ~ In o pico8_builtins /\
    (forall ks, names_to_keep cfg = Some ks -> ~ In o ks) /\
    exists id, 0 <= id < next_id st' /\ name_for_id id = Ok o.
Proof. exact generated_not_preserved. Qed.
Print Assumptions C02_generated_not_reserved.

(* 2-5 in the positional form of DESIGN.md 8 C02 *)
Theorem C02_renaming :
  forall cfg names outs, run_factory cfg names = Ok outs ->
    length outs = length names /\
    (forall i j, (i < length names)%nat -> (j < length names)%nat ->
       (nth i names [] = nth j names [] <-> nth i outs [] = nth j outs [])) /\
    (forall i, (i < length names)%nat -> is_kept cfg (nth i names []) -> nth i outs [] = nth i names []) /\
    (forall i, (i < length names)%nat -> ~ is_kept cfg (nth i names []) -> ~ is_kept cfg (nth i outs [])).
Proof. exact renaming. Qed.
Print Assumptions C02_renaming.

(* 6. get_short_name always returns (fuel len(PRESERVED_NAMES)+len(keep file)+1 for the
   `while True` loop suffices by pigeonhole; never OutOfFuel, never any other error), so does a
   whole run *)
Theorem C02_short_name_terminates :
  forall cfg st n, 0 <= next_id st -> exists st' s, get_short_name cfg st n = Ok (st', s).
Proof. exact get_short_name_total. Qed.
Print Assumptions C02_short_name_terminates.

Theorem C02_run_total :
  forall cfg names, exists outs, run_factory cfg names = Ok outs /\ length outs = length names.
Proof. exact run_factory_total. Qed.
Print Assumptions C02_run_total.

(* 7. `p8tool luamin` and `p8tool build --lua-minify` both hand --keep-all-names and
   --keep-names-from-file to the factory (wiring pinned in Proofs/NameFactoryProofs.v) *)
Theorem C02_cli_configs : forall ka kf,
  luamin_config ka kf = mk_config ka kf /\ build_minify_config ka kf = mk_config ka kf.
Proof. exact cli_configs. Qed.
Print Assumptions C02_cli_configs.

(* 8. the instance predicate evaluated by the monitor on the implementation's real renaming
   (Instances/HoldsC02.v: Base/ only) is equivalent to the property on one observation, and
   the model satisfies it for all request sequences, configurations and keep files *)
Theorem C02_monitor_sound :
  forall keep_all keep reserved names outs,
    holds_C02 keep_all keep reserved names outs = true <-> C02_spec keep_all keep reserved names outs.
Proof. exact holds_C02_iff. Qed.
Print Assumptions C02_monitor_sound.

Theorem C02_model_holds :
  forall cfg names outs, run_factory cfg names = Ok outs ->
    holds_C02 (keep_all cfg) (keep_list cfg) preserved_names names outs = true.
Proof. exact model_satisfies_holds. Qed.
Print Assumptions C02_model_holds.

(* ---------- non-vacuity ---------- *)
Example C02_ids : map name_for_id [0; 25; 26; 675; 676; 17575; 17576] =
  map (fun s => Ok (unBS s)) ["a"%bs; "z"%bs; "ba"%bs; "zz"%bs; "baa"%bs; "zzz"%bs; "baaa"%bs].
Proof. vm_compute. reflexivity. Qed.

(* default configuration: `t` (builtin) and `end` stay, the candidate `t` (id 19) is skipped *)
Example C02_run_default :
  run_factory (mk_config false None)
    (map unBS ["foo"%bs; "a"%bs; "t"%bs; "foo"%bs; "end"%bs; "ba"%bs]) =
  Ok (map unBS ["a"%bs; "b"%bs; "t"%bs; "a"%bs; "end"%bs; "c"%bs])
  /\ (exists st outs, run_factory_st (mk_config false None) (map (fun i => [i]) (upto 20)) = Ok (st, outs)
                      /\ next_id st = 21 /\ ~ In (unBS "t"%bs) outs).
Proof.
  split; [vm_compute; reflexivity|]. eexists. eexists. split; [vm_compute; reflexivity|].
  split; [reflexivity|]. cbv. intuition discriminate.
Qed.

(* a keep file with comments, blanks and the would-be generated names a, b: they are kept and
   skipped by the enumeration (the witness of S2 before its fix) *)
Example C02_keepfile :
  run_factory (mk_config false (Some (unBS "a
# c
  b
"%bs))) (map unBS ["foo"%bs; "a"%bs; "x"%bs; "b"%bs; "foo"%bs]) =
  Ok (map unBS ["c"%bs; "a"%bs; "d"%bs; "b"%bs; "c"%bs]).
Proof. vm_compute. reflexivity. Qed.

Example C02_keep_all :
  run_factory (build_minify_config true None) (map unBS ["foo"%bs; "x"%bs]) = Ok (map unBS ["foo"%bs; "x"%bs]).
Proof. vm_compute. reflexivity. Qed.
