(* C02 - luamin renaming is a consistent injection that respects reserved names.
   Model: Model/NameFactory.v (MinifyNameFactory of pico8/lua/lua.py; every writer name and
   label goes through get_short_name of one factory).  preserved_names, lua_keywords,
   pico8_builtins, name_chars and the _name_for_id kernels are regenerated from /repo on every
   run; the decidable side conditions on them (chars_ok, chars_ident_ok, preserved_ok) are
   recomputed by vm_compute in Proofs/NameFactoryProofs.v.
   `observed names outs n o` = some request of identifier n was answered o
   (In (n, o) (combine names outs)); the theorems hold for request sequences of any length. *)
From PV Require Import Base.Prelude Generated.T_luanames Generated.T_lexer Model.NameFactory
  Proofs.NameFactoryProofs.

(* 1. the enumeration of short names never repeats a name (all ids, no bound) *)
Theorem C02_name_for_id_injective :
  forall i j, 0 <= i -> 0 <= j -> name_for_id i = name_for_id j -> i = j.
Proof. exact name_for_id_injective. Qed.
Print Assumptions C02_name_for_id_injective.

(* ... is total (the logarithmic fuel never runs out, no IndexError) and yields non-empty
   names made of characters that may start a Lua name *)
Theorem C02_name_for_id_identifier :
  forall id, 0 <= id -> exists n, name_for_id id = Ok n /\ n <> [] /\ Forall (fun c => ident_start c = true) n.
Proof. exact name_for_id_total_identifier. Qed.
Print Assumptions C02_name_for_id_identifier.

(* 2. consistent: one input identifier, one output identifier (any configuration) *)
Theorem C02_consistent :
  forall cfg names outs n o1 o2, run_factory cfg names = Ok outs ->
    observed names outs n o1 -> observed names outs n o2 -> o1 = o2.
Proof. exact consistent. Qed.
Print Assumptions C02_consistent.

(* 3. keywords, builtins, keep-file names and (keep_all) all names are left as written *)
Theorem C02_kept_unchanged :
  forall cfg names outs n o, run_factory cfg names = Ok outs -> observed names outs n o ->
    (keep_all cfg = true \/ In n lua_keywords \/ In n pico8_builtins \/
     (exists ks, names_to_keep cfg = Some ks /\ In n ks)) -> o = n.
Proof. exact kept_unchanged. Qed.
Print Assumptions C02_kept_unchanged.

(* 4. a renamed identifier never becomes a keyword or a builtin; it is a name of the enumeration *)
Theorem C02_generated_not_preserved :
  forall cfg names st' outs n o, run_factory_st cfg names = Ok (st', outs) ->
    observed names outs n o -> ~ is_kept cfg n ->
    ~ In o lua_keywords /\ ~ In o pico8_builtins /\
    exists id, 0 <= id < next_id st' /\ name_for_id id = Ok o.
Proof. exact generated_not_preserved. Qed.
Print Assumptions C02_generated_not_preserved.

(* 4b (partial, S2). ... nor a keep-file name, provided no keep-file name is a name of the
   enumeration below the final counter *)
Theorem C02_generated_not_in_keepfile_partial :
  forall cfg names st' outs ks, run_factory_st cfg names = Ok (st', outs) ->
    names_to_keep cfg = Some ks ->
    (forall k id, In k ks -> 0 <= id < next_id st' -> name_for_id id <> Ok k) ->
    forall n o, observed names outs n o -> ~ is_kept cfg n -> ~ In o ks.
Proof. exact generated_not_in_keepfile_partial. Qed.
Print Assumptions C02_generated_not_in_keepfile_partial.

(* 5 (partial, S2). injective - two different identifiers never get the same output, kept or
   generated - under keepfile_disjoint: no keep-file name that is itself requested equals
   name_for_id id for an id below the final counter *)
Theorem C02_injective_partial :
  forall cfg names st' outs, run_factory_st cfg names = Ok (st', outs) ->
    (forall ks k id, names_to_keep cfg = Some ks -> In k ks -> In k names ->
                     0 <= id < next_id st' -> name_for_id id <> Ok k) ->
    forall n1 n2 o, observed names outs n1 o -> observed names outs n2 o -> n1 = n2.
Proof. exact injective_partial. Qed.
Print Assumptions C02_injective_partial.

(* without a keep file (default configuration, with or without keep_all): unrestricted *)
Theorem C02_injective_default :
  forall cfg names outs, names_to_keep cfg = None -> run_factory cfg names = Ok outs ->
    forall n1 n2 o, observed names outs n1 o -> observed names outs n2 o -> n1 = n2.
Proof. exact injective_no_keepfile. Qed.
Print Assumptions C02_injective_default.

(* with keep_all (any keep file): unrestricted *)
Theorem C02_injective_keep_all :
  forall cfg names outs, keep_all cfg = true -> run_factory cfg names = Ok outs ->
    forall n1 n2 o, observed names outs n1 o -> observed names outs n2 o -> n1 = n2.
Proof. exact injective_keep_all. Qed.
Print Assumptions C02_injective_keep_all.

(* the unrestricted statement is false for the faithful model: keep file "a", requests foo, a *)
Theorem C02_keepfile_collision_refuted :
  exists cfg names outs n1 n2 o,
    run_factory cfg names = Ok outs /\ observed names outs n1 o /\ observed names outs n2 o /\ n1 <> n2.
Proof. exact keepfile_collision_refuted. Qed.
Print Assumptions C02_keepfile_collision_refuted.

(* 6. get_short_name always returns (fuel len(PRESERVED_NAMES)+1 for the `while True` loop
   suffices by pigeonhole; never OutOfFuel, never any other error), so does a whole run *)
Theorem C02_short_name_terminates :
  forall cfg st n, 0 <= next_id st -> exists st' s, get_short_name cfg st n = Ok (st', s).
Proof. exact get_short_name_total. Qed.
Print Assumptions C02_short_name_terminates.

Theorem C02_run_total :
  forall cfg names, exists outs, run_factory cfg names = Ok outs /\ length outs = length names.
Proof. exact run_factory_total. Qed.
Print Assumptions C02_run_total.

(* S3 (refuted for the faithful model of the command-line wiring): `build --lua-minify
   --keep-all-names` does not keep the names; `luamin` passes the options on *)
Theorem C02_build_keep_options_refuted :
  exists names outs n o,
    run_factory (build_minify_config true None) names = Ok outs /\ observed names outs n o /\ o <> n.
Proof. exact build_keep_options_refuted. Qed.
Print Assumptions C02_build_keep_options_refuted.

Theorem C02_luamin_config : forall ka kf, luamin_config ka kf = mk_config ka kf.
Proof. exact luamin_config_spec. Qed.
Print Assumptions C02_luamin_config.

(* ---------- non-vacuity ---------- *)
Example C02_ids : map name_for_id [0; 25; 26; 675; 676; 17575; 17576] =
  map (fun s => Ok (unBS s)) ["a"%bs; "z"%bs; "ba"%bs; "zz"%bs; "baa"%bs; "zzz"%bs; "baaa"%bs].
Proof. vm_compute. reflexivity. Qed.

(* default configuration: `t` (builtin) and `end` stay, the candidate `t` (id 19) is skipped *)
Example C02_run_default :
  run_factory (mk_config false None)
    (map unBS ["foo"%bs; "a"%bs; "t"%bs; "foo"%bs; "end"%bs; "ba"%bs]) =
  Ok (map unBS ["a"%bs; "b"%bs; "t"%bs; "a"%bs; "end"%bs; "c"%bs])
  /\ (exists st outs, run_factory_st (mk_config false None) (map (fun i => [i]) (upto 20)) = Ok (st, outs)
                      /\ next_id st = 21 /\ ~ In (unBS "t"%bs) outs).
Proof.
  split; [vm_compute; reflexivity|]. eexists. eexists. split; [vm_compute; reflexivity|].
  split; [reflexivity|]. cbv. intuition discriminate.
Qed.

(* the hypothesis of C02_injective_partial is satisfiable with a non-trivial keep file *)
Example C02_partial_hypothesis_satisfiable :
  let cfg := mk_config false (Some (unBS "foo
# c
  bar
"%bs)) in
  let names := map unBS ["foo"%bs; "x"%bs; "bar"%bs; "x"%bs; "t"%bs] in
  exists st' outs, run_factory_st cfg names = Ok (st', outs)
    /\ outs = map unBS ["foo"%bs; "a"%bs; "bar"%bs; "a"%bs; "t"%bs]
    /\ keepfile_disjoint cfg names (next_id st').
Proof.
  cbv zeta. eexists. eexists. split; [vm_compute; reflexivity|]. split; [reflexivity|].
  intros ks k id Hks Hk _ Hid. cbn [next_id] in Hid. assert (id = 0) by lia. subst id.
  vm_compute in Hks. injection Hks as <-.
  destruct Hk as [<-|[<-|[]]]; vm_compute; discriminate.
Qed.
