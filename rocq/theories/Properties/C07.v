(* C07 - the lexer agrees with the PICO-8/Lua lexical grammar.  Property theorems only. *)
From PV Require Import Base.Prelude Generated.T_lexer Model.Lexer Spec.LuaLex Proofs.LexerProofs.

Theorem C07_symbols_longest : forall s, first_match symbols s = longest_match symbols s.
Proof. exact symbols_longest. Qed.
Print Assumptions C07_symbols_longest.
