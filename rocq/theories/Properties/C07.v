(* C07 - the lexer agrees with the PICO-8/Lua lexical grammar.  Property theorems only; proofs live in
   Proofs/Lexer{Proofs,Inv,Spec,Str,Num,Agree,Main}.v.
   Model: Model/Lexer.v (mirror of pico8/lua/lexer.py over the REGENERATED matcher table, symbol list,
   keyword list and escape tables of Generated/T_lexer.v).  Reference: Spec/LuaLex.v.  holds_C07 /
   tok_diff / diff_C07: Instances/HoldsC07.v - the very predicate the extracted monitor evaluates on the
   implementation's tokens; [observe] computes from a model token what the harness observes of a real one. *)
From PV Require Import Base.Prelude Generated.T_lexer Model.Lexer Spec.LuaLex Instances.HoldsC07
  Proofs.LexerProofs Proofs.LexerInv Proofs.LexerSpec Proofs.LexerNum Proofs.LexerAgree Proofs.LexerMain
  Proofs.LexerChunk Proofs.EchoProofs Proofs.LexerAppendLf Proofs.LexerChunkNl.

(* THE property, for every byte string given as one chunk: if the source is in the dialect (the reference
   lexer is defined on it) the model lexes it and its token list passes the monitor predicate - same
   token boundaries, same class for every token, same decoded string bytes (TokString.value), same
   numeric value (TokNumber.value, exact), same quote / long-bracket level, same line and column;
   if the model raises, the source is outside the dialect. *)
Theorem C07_lex_agrees : forall src, Forall byte src ->
  match model_lex [src] with
  | Ok ts => holds_C07 src (map observe ts) = true
  | Err _ => holds_C07_error src = true
  end.
Proof. exact model_holds_C07. Qed.
Print Assumptions C07_lex_agrees.

(* tokenisation does not depend on whether the text arrives as one chunk (.p8.png path) or split after line
   feeds (.p8 path): same token list, same error - EVERY input (also outside the dialect), every chunk list
   whose chunks, except the last, end with a line feed; every single-line matcher of the regenerated table is
   shown not to consume or look past a line feed, the three multi-line scanners to be compositional at one *)
Theorem C07_chunking : forall ls, Forall ends_lf (removelast ls) -> model_lex ls = model_lex [concat ls].
Proof. exact model_lex_chunking. Qed.
Print Assumptions C07_chunking.

(* hence THE property on the .p8 path as well *)
Theorem C07_lex_agrees_chunks : forall ls, Forall ends_lf (removelast ls) -> Forall byte (concat ls) ->
  match model_lex ls with
  | Ok ts => holds_C07 (concat ls) (map observe ts) = true
  | Err _ => holds_C07_error (concat ls) = true
  end.
Proof. exact model_holds_C07_chunks. Qed.
Print Assumptions C07_lex_agrees_chunks.

(* the same, token by token *)
Theorem C07_lex_agrees_tokens : forall src ss, Forall byte src -> spec_lex src = Some ss ->
  exists ts, model_lex [src] = Ok ts /\ Forall2 (fun s t => tok_diff s (observe t) = 0) ss ts.
Proof. exact lex_agrees. Qed.
Print Assumptions C07_lex_agrees_tokens.

(* one token: whatever the reference reads at the head of [s], the model reads the same extent from the
   Normal state (in one or two calls of _process_token), with the same observable fields, at any position *)
Theorem C07_step_agrees : forall s t rest l col,
  Forall byte s -> crlf_only s = true -> spec_step s = Some (t, rest) -> s_raw t <> [] ->
  exists tk, Step l col s tk rest /\ t_ext tk = s_raw t /\
             tok_diff (at_pos t l col) (observe tk) = 0 /\ last (s_raw t) 0 <> 13.
Proof. exact step_agrees. Qed.
Print Assumptions C07_step_agrees.

(* first match in the regenerated table order = longest match, for every input *)
Theorem C07_symbols_longest : forall s, first_match symbols s = longest_match symbols s.
Proof. exact symbols_longest. Qed.
Print Assumptions C07_symbols_longest.

(* ... and the regenerated symbol set is the reference set of the dialect *)
Theorem C07_symbols_same_set : forall s, first_match symbols s = longest_match spec_symbols s.
Proof. exact symbols_longest_spec. Qed.
Print Assumptions C07_symbols_same_set.

(* TokNumber.value on every numeral of the dialect (either letter case, empty integer part, fractions,
   exponents) is the reference value, as an exact fraction *)
Theorem C07_number_value : forall d n den,
  spec_numeral d = Some (n, den) -> tok_value d = Ok (n, den) /\ 0 < den.
Proof. exact number_value_agrees. Qed.
Print Assumptions C07_number_value.

(* nothing dropped, nothing duplicated: the extents of the tokens concatenate to the input, any chunking *)
Theorem C07_cover : forall chunks ts, model_lex chunks = Ok ts -> concat (map t_ext ts) = concat chunks.
Proof. exact model_lex_cover. Qed.
Print Assumptions C07_cover.

(* every token carries the line/column reached after the extents of the tokens before it, any chunking *)
Theorem C07_positions : forall chunks ts i t,
  model_lex chunks = Ok ts -> nth_error ts i = Some t ->
  (t_line t, t_col t) = advance (0, 0) (concat (map t_ext (firstn i ts))).
Proof. exact model_lex_positions. Qed.
Print Assumptions C07_positions.

(* ... and that position is the one Lua's line counting rule gives, on the dialect's line ends *)
Theorem C07_positions_lua : forall bs l c, crlf_only bs = true -> spec_advance l c bs = advance (l, c) bs.
Proof. exact spec_advance_eq. Qed.
Print Assumptions C07_positions_lua.

(* Lua.get_token_count (stats) on a source of the dialect = its counting rule applied to the reference tokens:
   every significant token counts 1, except  : . ) ] }  local end  (0) and numbers whose text contains 'e' (2) *)
Theorem C07_token_count : forall src ss, Forall byte src -> spec_lex src = Some ss ->
  exists ts, model_lex [src] = Ok ts /\ token_count ts = spec_token_count_e ss.
Proof. exact token_count_spec. Qed.
Print Assumptions C07_token_count.

(* non-vacuity: sources of the dialect exercising the former defects; the reference is defined on them *)
Example C07_nonvacuous_keyword_glyph :
  option_map (map (fun t => (skind_code (s_kind t), s_raw t))) (spec_lex (bs_ "end" ++ [128] ++ bs_ " end"))
  = Some [(5, bs_ "end" ++ [128]); (0, bs_ " "); (7, bs_ "end")].
Proof. vm_compute. reflexivity. Qed.

Example C07_nonvacuous_numbers :
  option_map (map (fun t => (s_num t, s_den t))) (spec_lex (bs_ "0XA 0x.8 0B11 1e-2 >>>"))
  = Some [(10, 1); (0, 1); (8, 16); (0, 1); (3, 1); (0, 1); (1, 100); (0, 1); (0, 1)].
Proof. vm_compute. reflexivity. Qed.

(* a numeral ends where Lua 5.2's read_numeral stops: a keyword or a name may follow it directly; a run
   that is no numeral (9d, 1a) stays undefined *)
Example C07_nonvacuous_numeral_then_word :
  option_map (map (fun t => (skind_code (s_kind t), s_raw t))) (spec_lex (bs_ "x<1then 0x1g 3x"))
  = Some [(5, bs_ "x"); (8, bs_ "<"); (4, bs_ "1"); (7, bs_ "then"); (0, bs_ " "); (4, bs_ "0x1"); (5, bs_ "g");
          (0, bs_ " "); (4, bs_ "3"); (5, bs_ "x")]
  /\ spec_lex (bs_ "for i=1,9do") = None /\ spec_lex (bs_ "1and") = None.
Proof. vm_compute. auto. Qed.

Example C07_model_on_examples :
  match model_lex [bs_ "x=[[" ++ [10] ++ bs_ "k]] --c" ++ [13; 10] ++ bs_ "y='\x41'"] with
  | Ok ts => map (fun t => (kind_code (t_kind t), tok_str_value t, t_line t, t_col t)) ts
  | Err _ => []
  end = [(5, bs_ "x", 0, 0); (8, bs_ "=", 0, 1); (3, bs_ "k", 0, 2); (0, bs_ " ", 1, 3); (2, bs_ "--c", 1, 4);
         (1, [13; 10], 1, 7); (5, bs_ "y", 2, 0); (8, bs_ "=", 2, 1); (3, bs_ "A", 2, 2)].
Proof. vm_compute. reflexivity. Qed.

(* chunking beyond line-feed-terminated chunks (build.py puts a separate one-byte newline line after a package file
   that has no final newline): if the text up to the end of a line [x] is in the dialect, the line feed that follows
   may come as a chunk of its own - same tokens, same positions, same error *)
Theorem C07_chunking_sep_newline : forall A x B,
  Forall ends_lf A -> Forall byte (concat A ++ x) -> spec_lex (concat A ++ x) <> None ->
  model_lex (A ++ x :: [10] :: B) = model_lex (A ++ (x ++ [10]) :: B).
Proof. exact model_lex_sep_newline. Qed.
Print Assumptions C07_chunking_sep_newline.

(* the state-level statement it rests on, for EVERY text (also outside the dialect): if the lexer is back in its
   Normal state at the end of [s] and [s] does not end with a carriage return, lexing a line feed as a chunk of
   its own reaches the very state that lexing [s ++ LF] reaches *)
Theorem C07_line_feed_chunk : forall s st st',
  state_lf (l_state st) -> state_q (l_state st) ->
  pl st s = Ok st' -> l_state st' = Normal -> last s 0 <> 13 ->
  pl st (s ++ [10]) = pl st' [10].
Proof. exact pl_split_lf. Qed.
Print Assumptions C07_line_feed_chunk.

(* non-vacuity, and the two side conditions are needed: an open string / a final carriage return change the tokens *)
Example C07_sep_newline_examples :
  model_lex [bs_ "a=1" ++ [10]; bs_ "return a"; [10]; bs_ "end" ++ [10]]
    = model_lex [bs_ "a=1" ++ [10]; bs_ "return a" ++ [10]; bs_ "end" ++ [10]]
  /\ (match model_lex [bs_ "a=1" ++ [10]; bs_ "return a"; [10]; bs_ "end" ++ [10]] with Ok ts => length ts | Err _ => O end) = 10%nat
  /\ model_lex [bs_ "s=""a\"; [10]; bs_ "b"""] <> model_lex [bs_ "s=""a\" ++ [10]; bs_ "b"""]
  /\ model_lex [bs_ "a" ++ [13]; [10]] <> model_lex [bs_ "a" ++ [13; 10]].
Proof. vm_compute. repeat split; try reflexivity; discriminate. Qed.
