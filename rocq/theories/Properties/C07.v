(* C07 - the lexer agrees with the PICO-8/Lua lexical grammar.  Property theorems only; proofs live in
   Proofs/LexerProofs.v, Proofs/LexerInv.v. *)
From PV Require Import Base.Prelude Generated.T_lexer Model.Lexer Spec.LuaLex Proofs.LexerProofs Proofs.LexerInv.

(* first match in the regenerated table order = longest match, for every input *)
Theorem C07_symbols_longest : forall s, first_match symbols s = longest_match symbols s.
Proof. exact symbols_longest. Qed.
Print Assumptions C07_symbols_longest.

(* ... and the regenerated symbol set is the reference set of the dialect *)
Theorem C07_symbols_same_set : forall s, first_match symbols s = longest_match spec_symbols s.
Proof. exact symbols_longest_spec. Qed.
Print Assumptions C07_symbols_same_set.

(* nothing dropped, nothing duplicated: the extents of the tokens concatenate to the input, any chunking *)
Theorem C07_cover : forall chunks ts, model_lex chunks = Ok ts -> concat (map t_ext ts) = concat chunks.
Proof. exact model_lex_cover. Qed.
Print Assumptions C07_cover.

(* every token carries the line/column reached after the extents of the tokens before it, any chunking *)
Theorem C07_positions : forall chunks ts i t,
  model_lex chunks = Ok ts -> nth_error ts i = Some t ->
  (t_line t, t_col t) = advance (0, 0) (concat (map t_ext (firstn i ts))).
Proof. exact model_lex_positions. Qed.
Print Assumptions C07_positions.
