(* C04, last clause - converting a cart .p8 -> .p8.png -> .p8 preserves its code and data regions - at the
   model level.  Property theorem only; the proof (Proofs/ChainProofs.v) composes C03's .p8 round trip
   (abstract Lua object; lexer-stack facts as hypotheses, as in Properties/C03.v) with C04_cart_roundtrip.
   Kept apart from Properties/C04.v so that the cone of the other C04 theorems does not depend on the .p8 stack. *)
From PV Require Import Base.Prelude Spec.P8Format Spec.P8FileSpec Model.P8File
  Proofs.P8FileWrite Proofs.P8FileRoundtrip Model.Compress Model.P8Png Proofs.CompressProofs Proofs.P8PngProofs
  Proofs.ChainProofs.

Section C04Chain.
Variable lua : Type.
Variable lua_from_lines : list (list Z) -> result lua.   (* Lua.from_lines: lexer + parser *)
Variable lua_to_lines : lua -> list (list Z).            (* Lua.to_lines(): chunks of the echo writer *)
Variable lua_empty : lua.

(* c0 -> file1 (.p8) -> c1 -> pixel rows (.p8.png, any 160x205 RGBA label image) -> c2 -> file2 (.p8) -> c3:
   every step succeeds, the image keeps the label's upper six bits, and whatever Lua object the last reading
   builds, c3 has the regions and version of c1 (= c0 with the one unrepresentable music bit cleared); the text
   handed to the lexer at each stage is the previous echo with the normalisations of the two readers
   (supply_nl; CR -> space and a final newline for plain storage) *)
Theorem C04_p8_png_p8 : forall (c0 : P8File.cart lua) l0 l1 img l2 l20,
  P8FileWrite.wf_cart lua lua_to_lines c0 ->
  lua_from_lines (lua_to_lines (P8File.c_lua c0)) = Ok l0 ->
  ended_flag (lua_to_lines (P8File.c_lua c0)) = ends_with_nl (code_text lua lua_to_lines c0) ->
  code_in_format (code_text lua lua_to_lines c0) = true ->
  lua_from_lines (code_lines lua lua_to_lines c0) = Ok l1 ->
  let c1 := norm_cart lua c0 l1 in
  let t1 := concat (lua_to_lines l1) in
  P8File.c_version c0 < 256 -> wf_img img ->
  Forall byte t1 -> fits t1 -> no_nul t1 -> clean t1 = true -> t1 <> [58; 99; 58] ->
  lua_from_lines [norm_code t1 (is_compressed t1)] = Ok l2 ->
  let c2 : P8File.cart lua :=
    {| P8File.c_version := P8File.c_version c0; P8File.c_lua := l2; P8File.c_gfx := P8File.c_gfx c0;
       P8File.c_label := None; P8File.c_gff := P8File.c_gff c0; P8File.c_map := P8File.c_map c0;
       P8File.c_sfx := P8File.c_sfx c0; P8File.c_music := music_norm (P8File.c_music c0) |} in
  Forall (Forall byte) (lua_to_lines l2) ->
  lua_from_lines (lua_to_lines l2) = Ok l20 ->
  ended_flag (lua_to_lines l2) = ends_with_nl (code_text lua lua_to_lines c2) ->
  code_in_format (code_text lua lua_to_lines c2) = true ->
  exists file1 rows file2,
    write_p8 lua lua_from_lines lua_to_lines c0 = Ok file1 /\
    read_p8 lua lua_from_lines lua_empty file1 = Ok c1 /\
    write_png_pixels (png_cart_of lua lua_to_lines c1) 4 img = Ok rows /\ upper6 rows = upper6 img /\
    (pc' <- read_png_pixels 160 205 4 rows ;; game_of_png lua lua_from_lines pc') = Ok c2 /\
    write_p8 lua lua_from_lines lua_to_lines c2 = Ok file2 /\
    read_p8 lua lua_from_lines lua_empty file2 =
      (l3 <- lua_from_lines (code_lines lua lua_to_lines c2) ;; Ok (norm_cart lua c2 l3)) /\
    concat (code_lines lua lua_to_lines c2) = supply_nl (concat (lua_to_lines l2)) /\
    forall l3, let c3 := norm_cart lua c2 l3 in
      P8File.c_gfx c3 = P8File.c_gfx c1 /\ P8File.c_map c3 = P8File.c_map c1 /\
      P8File.c_gff c3 = P8File.c_gff c1 /\ P8File.c_music c3 = P8File.c_music c1 /\
      P8File.c_sfx c3 = P8File.c_sfx c1 /\ P8File.c_version c3 = P8File.c_version c1.
Proof. exact (chain lua lua_from_lines lua_to_lines lua_empty). Qed.
End C04Chain.
Print Assumptions C04_p8_png_p8.
