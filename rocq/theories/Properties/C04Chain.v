(* C04, last clause - converting a cart .p8 -> .p8.png -> .p8 preserves its code and data regions - at the
   model level.  Property theorem only; the proof (Proofs/ChainProofs.v) composes C03's .p8 round trip
   (abstract Lua object; lexer-stack facts as hypotheses, as in Properties/C03.v) with C04_cart_roundtrip.
   Kept apart from Properties/C04.v so that the cone of the other C04 theorems does not depend on the .p8 stack. *)
From PV Require Import Base.Prelude Spec.P8Format Spec.P8FileSpec Model.P8File
  Proofs.P8FileWrite Proofs.P8FileRoundtrip Model.Compress Model.P8Png Proofs.CompressProofs Proofs.P8PngProofs
  Proofs.ChainProofs
  Generated.T_lexer Model.Lexer Model.EchoWriter Proofs.LexerChunk Proofs.EchoStable Proofs.P8FileLua Proofs.ChainLexer.

Section C04Chain.
Variable lua : Type.
Variable lua_from_lines : list (list Z) -> result lua.   (* Lua.from_lines: lexer + parser *)
Variable lua_to_lines : lua -> list (list Z).            (* Lua.to_lines(): chunks of the echo writer *)
Variable lua_empty : lua.

(* c0 -> file1 (.p8) -> c1 -> pixel rows (.p8.png, any 160x205 RGBA label image) -> c2 -> file2 (.p8) -> c3:
   every step succeeds, the image keeps the label's upper six bits, and whatever Lua object the last reading
   builds, c3 has the regions and version of c1 (= c0 with the one unrepresentable music bit cleared); the text
   handed to the lexer at each stage is the previous echo with the normalisations of the two readers
   (supply_nl; CR -> space and a final newline for plain storage) *)
Theorem C04_p8_png_p8 : forall (c0 : P8File.cart lua) l0 l1 img l2 l20,
  P8FileWrite.wf_cart lua lua_to_lines c0 ->
  lua_from_lines (lua_to_lines (P8File.c_lua c0)) = Ok l0 ->
  ended_flag (lua_to_lines (P8File.c_lua c0)) = ends_with_nl (code_text lua lua_to_lines c0) ->
  code_in_format (code_text lua lua_to_lines c0) = true ->
  lua_from_lines (code_lines lua lua_to_lines c0) = Ok l1 ->
  let c1 := norm_cart lua c0 l1 in
  let t1 := concat (lua_to_lines l1) in
  P8File.c_version c0 < 256 -> wf_img img ->
  Forall byte t1 -> fits t1 -> no_nul t1 -> clean t1 = true -> t1 <> [58; 99; 58] ->
  lua_from_lines [norm_code t1 (is_compressed t1)] = Ok l2 ->
  let c2 : P8File.cart lua :=
    {| P8File.c_version := P8File.c_version c0; P8File.c_lua := l2; P8File.c_gfx := P8File.c_gfx c0;
       P8File.c_label := None; P8File.c_gff := P8File.c_gff c0; P8File.c_map := P8File.c_map c0;
       P8File.c_sfx := P8File.c_sfx c0; P8File.c_music := music_norm (P8File.c_music c0) |} in
  Forall (Forall byte) (lua_to_lines l2) ->
  lua_from_lines (lua_to_lines l2) = Ok l20 ->
  ended_flag (lua_to_lines l2) = ends_with_nl (code_text lua lua_to_lines c2) ->
  code_in_format (code_text lua lua_to_lines c2) = true ->
  exists file1 rows file2,
    write_p8 lua lua_from_lines lua_to_lines c0 = Ok file1 /\
    read_p8 lua lua_from_lines lua_empty file1 = Ok c1 /\
    write_png_pixels (png_cart_of lua lua_to_lines c1) 4 img = Ok rows /\ upper6 rows = upper6 img /\
    (pc' <- read_png_pixels 160 205 4 rows ;; game_of_png lua lua_from_lines pc') = Ok c2 /\
    write_p8 lua lua_from_lines lua_to_lines c2 = Ok file2 /\
    read_p8 lua lua_from_lines lua_empty file2 =
      (l3 <- lua_from_lines (code_lines lua lua_to_lines c2) ;; Ok (norm_cart lua c2 l3)) /\
    concat (code_lines lua lua_to_lines c2) = supply_nl (concat (lua_to_lines l2)) /\
    forall l3, let c3 := norm_cart lua c2 l3 in
      P8File.c_gfx c3 = P8File.c_gfx c1 /\ P8File.c_map c3 = P8File.c_map c1 /\
      P8File.c_gff c3 = P8File.c_gff c1 /\ P8File.c_music c3 = P8File.c_music c1 /\
      P8File.c_sfx c3 = P8File.c_sfx c1 /\ P8File.c_version c3 = P8File.c_version c1.
Proof. exact (chain lua lua_from_lines lua_to_lines lua_empty). Qed.
End C04Chain.
Print Assumptions C04_p8_png_p8.

(* The same with the Lua object instantiated by the lexer model (Model/Lexer.v, regenerated tables) and the echo
   writer (Model/EchoWriter.v), every lexer-stack hypothesis discharged (Proofs/ChainLexer.v, from C06's fixed-point
   theorems C06_echo_idempotent(_lf), C06_echo_chunks_nonempty, C06_echo_chunks_end_lf): for every cart whose Lua
   object came out of the lexer and whose code text contains no carriage return, has no line reading as a section
   header, no NUL byte and fits the cartridge: the .p8 is written and read back, the .p8.png pixel rows are written
   over any 160x205 RGBA label image (upper six bits kept) and read back, the second .p8 is written and read
   back - each of the three readings re-lexes successfully (no hypothesis) - and the final cart has the data
   regions and version of the first reading; its code text is the original echoed text with a final newline
   supplied (plain storage in the image adds one more newline). *)
Theorem C04_p8_png_p8_lexer : forall (c0 : lex_cart) img,
  P8FileWrite.wf_cart (list tok) echo c0 -> from_lexer c0 ->
  let T0 := concat (echo (P8File.c_lua c0)) in
  let t1 := supply_nl T0 in
  no_cr T0 = true -> code_in_format T0 = true ->
  P8File.c_version c0 < 256 -> wf_img img -> fits t1 -> no_nul T0 ->
  exists l1 l2 l3 file1 rows file2,
    let c1 := norm_cart (list tok) c0 l1 in
    let c2 := cart2 c0 l2 in
    let c3 := norm_cart (list tok) c2 l3 in
    lex_write c0 = Ok file1 /\ lex_read file1 = Ok c1 /\
    write_png_pixels (png_cart_of (list tok) echo c1) 4 img = Ok rows /\ upper6 rows = upper6 img /\
    (pc' <- read_png_pixels 160 205 4 rows ;; game_of_png (list tok) model_lex pc') = Ok c2 /\
    lex_write c2 = Ok file2 /\ lex_read file2 = Ok c3 /\
    concat (echo l1) = t1 /\
    concat (echo l2) = t1 ++ (if is_compressed t1 then [] else [10]) /\
    concat (echo l3) = concat (echo l2) /\
    P8File.c_gfx c3 = P8File.c_gfx c1 /\ P8File.c_map c3 = P8File.c_map c1 /\
    P8File.c_gff c3 = P8File.c_gff c1 /\ P8File.c_music c3 = P8File.c_music c1 /\
    P8File.c_sfx c3 = P8File.c_sfx c1 /\ P8File.c_version c3 = P8File.c_version c1.
Proof. exact chain_lexer. Qed.
Print Assumptions C04_p8_png_p8_lexer.

(* With carriage returns in the code the .p8.png reader lexes a DIFFERENT text (CR replaced by a space): that the
   lexer accepts it, and the side conditions on what it yields, stay hypotheses; everything else is discharged
   (no newline token of the first cart may be a lone CR - always so for sources of the reference dialect). *)
Theorem C04_p8_png_p8_lexer_cr : forall (c0 : lex_cart) img l2,
  P8FileWrite.wf_cart (list tok) echo c0 -> from_lexer c0 -> no_lone_cr_newline (P8File.c_lua c0) ->
  let T0 := concat (echo (P8File.c_lua c0)) in
  let t1 := supply_nl T0 in
  code_in_format T0 = true ->
  P8File.c_version c0 < 256 -> wf_img img -> fits t1 -> no_nul T0 ->
  model_lex [norm_code t1 (is_compressed t1)] = Ok l2 ->
  Forall (Forall byte) (echo l2) -> no_lone_cr_newline l2 -> code_in_format (concat (echo l2)) = true ->
  exists l1 l3 file1 rows file2,
    let c1 := norm_cart (list tok) c0 l1 in
    let c2 := cart2 c0 l2 in
    let c3 := norm_cart (list tok) c2 l3 in
    lex_write c0 = Ok file1 /\ lex_read file1 = Ok c1 /\ concat (echo l1) = t1 /\
    write_png_pixels (png_cart_of (list tok) echo c1) 4 img = Ok rows /\ upper6 rows = upper6 img /\
    (pc' <- read_png_pixels 160 205 4 rows ;; game_of_png (list tok) model_lex pc') = Ok c2 /\
    lex_write c2 = Ok file2 /\ lex_read file2 = Ok c3 /\ concat (echo l3) = supply_nl (concat (echo l2)) /\
    P8File.c_gfx c3 = P8File.c_gfx c1 /\ P8File.c_map c3 = P8File.c_map c1 /\
    P8File.c_gff c3 = P8File.c_gff c1 /\ P8File.c_music c3 = P8File.c_music c1 /\
    P8File.c_sfx c3 = P8File.c_sfx c1 /\ P8File.c_version c3 = P8File.c_version c1.
Proof. exact chain_lexer_cr. Qed.
Print Assumptions C04_p8_png_p8_lexer_cr.

(* non-vacuity: a concrete cart lexed from a two-line program with a string, a comment with glyph bytes and no
   final newline, and a blank label image, meet every hypothesis of C04_p8_png_p8_lexer *)
Definition ex_src : list Z := [45; 45; 32; 128; 255; 10] ++ unBS "s=""a\65"" print(s)"%bs.
Definition ex_toks : list tok := match model_lex [ex_src] with Ok ts => ts | Err _ => [] end.
Definition ex_cart : lex_cart :=
  {| P8File.c_version := 41; P8File.c_lua := ex_toks;
     P8File.c_gfx := repeat 7 (Z.to_nat 8192); P8File.c_label := None;
     P8File.c_gff := repeat 255 256; P8File.c_map := repeat 3 (Z.to_nat 4096); P8File.c_sfx := repeat 9 4352;
     P8File.c_music := repeat 200 256 |}.
Definition ex_img : list (list Z) := repeat (repeat 0 640) 205.

Example C04_chain_lexer_nonvacuous :
  let T0 := concat (echo (P8File.c_lua ex_cart)) in
  (P8FileWrite.wf_cart (list tok) echo ex_cart /\ from_lexer ex_cart) /\
  (no_cr T0 = true /\ code_in_format T0 = true /\ P8File.c_version ex_cart < 256) /\
  (wf_img ex_img /\ fits (supply_nl T0) /\ no_nul T0) /\
  T0 = [45; 45; 32; 128; 255; 10] ++ unBS "s=""aA"" print(s)"%bs.
Proof.
  cbv zeta. split; [split|split; [|split]].
  - unfold P8FileWrite.wf_cart. cbn [P8File.c_version P8File.c_gfx P8File.c_gff P8File.c_map P8File.c_sfx P8File.c_music
      P8File.c_label P8File.c_lua ex_cart].
    split; [lia|]. split; [apply repeat_length|]. split; [apply repeat_length|]. split; [apply repeat_length|].
    split; [apply repeat_length|]. split; [apply repeat_length|].
    split; [apply all_bytes_Forall; vm_compute; reflexivity|]. split; [apply all_bytes_Forall; vm_compute; reflexivity|].
    split; [apply all_bytes_Forall; vm_compute; reflexivity|]. split; [apply all_bytes_Forall; vm_compute; reflexivity|].
    split; [apply all_bytes_Forall; vm_compute; reflexivity|]. split; [exact I|].
    apply Forall_concat_bytes, all_bytes_Forall. vm_compute. reflexivity.
  - exists [ex_src]. split; [constructor | vm_compute; reflexivity].
  - split; [vm_compute; reflexivity|]. split; [vm_compute; reflexivity | vm_compute; reflexivity].
  - split; [|split].
    + split; [apply repeat_length|]. unfold ex_img, wf_rows. apply Forall_forall. intros r Hr. apply repeat_spec in Hr. subst r.
      split; [apply repeat_length | apply all_bytes_Forall; vm_compute; reflexivity].
    + eexists. split; [vm_compute; reflexivity|]. left. vm_compute. discriminate.
    + unfold no_nul. apply Forall_forall. intros x Hx. vm_compute in Hx. intuition lia.
  - vm_compute. reflexivity.
Qed.
