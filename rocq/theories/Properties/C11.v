(* C11 - a failed cart write never damages the file already at the destination.
   Property theorems only; proofs live in Proofs/FsProofs.v.
   Level: proof for the protocol model and for the soundness of the trace monitor; what CPython and
   the OS do when an exception propagates is observed (every fault index), not proved. *)
From PV Require Import Base.Prelude Spec.BuildSpec Spec.FsSem Instances.HoldsC11 Model.FsProto Model.FsProtoInst Proofs.FsProofs.

(* Monitor soundness: if [safe dest tr] holds of a trace, then after EVERY prefix of it in which the
   encoder has not finished, from every file system, the destination holds exactly what it held
   before (its bytes, or its absence). *)
Theorem C11_monitor_sound : forall dest (tr : list (op bytes)),
  safe dest tr = true ->
  forall fs tr', (exists r, tr = tr' ++ r) -> encoder_done tr' = false ->
  exec fs tr' dest = fs dest.
Proof. exact safe_sound. Qed.
Print Assumptions C11_monitor_sound.

(* the same for the predicate evaluated on recorded runs (data replaced by lengths) *)
Theorem C11_holds_sound : forall dest (tr : list (op bytes)) dest_same,
  holds_C11 dest (map (op_map zlen) tr) dest_same = true ->
  (forall fs tr', (exists r, tr = tr' ++ r) -> encoder_done tr' = false -> exec fs tr' dest = fs dest)
  /\ (encoder_done tr = false -> dest_same = true).
Proof. exact holds_C11_sound. Qed.
Print Assumptions C11_holds_sound.

(* The model of file.to_file + formatter write sequence, for EVERY formatter (also an unrecognised
   extension), destination, label source, chunk list and fault index k: the trace is safe; a failed
   write leaves every path - the destination included - exactly as it was; an unfaulted write stores
   the concatenated chunks under the destination and changes no other path. *)
Theorem C11_model_safe : forall fmt dest ex lbl (chunks : list bytes) k fs,
  safe dest (to_file_trace (@concat Z) fmt dest ex lbl chunks (Some k)) = true
  /\ (forall p, exec fs (to_file_trace (@concat Z) fmt dest ex lbl chunks (Some k)) p = fs p)
  /\ safe dest (to_file_trace (@concat Z) fmt dest ex lbl chunks None) = true
  /\ (forall f, fmt = Some f ->
      forall p, exec fs (to_file_trace (@concat Z) fmt dest ex lbl chunks None) p
                = upd fs dest (Some (concat chunks)) p).
Proof. exact to_file_model_safe. Qed.
Print Assumptions C11_model_safe.

(* crash consistency of the model: the destination is intact at every point before the encoder returns *)
Theorem C11_model_prefix_intact : forall fmt dest ex lbl (chunks : list bytes) fail fs tr',
  (exists r, to_file_trace (@concat Z) fmt dest ex lbl chunks fail = tr' ++ r) ->
  encoder_done tr' = false -> exec fs tr' dest = fs dest.
Proof. exact to_file_prefix_intact. Qed.
Print Assumptions C11_model_prefix_intact.

(* tool.py process_game_files (writep8 / luamin / luafmt, with or without --overwrite): safe for the
   output name it computes, and a failed write leaves every path as it was *)
Theorem C11_cli_safe : forall exts overwrite fname incs loads out_exists (chunks : list bytes) fail,
  safe (out_fname overwrite fname)
       (process_one_trace (@concat Z) exts overwrite fname incs loads out_exists chunks fail) = true.
Proof. exact (@process_one_safe bytes (@concat Z)). Qed.
Print Assumptions C11_cli_safe.

Theorem C11_cli_fail_untouched : forall exts overwrite fname incs loads out_exists (chunks : list bytes) k fs p,
  exec fs (process_one_trace (@concat Z) exts overwrite fname incs loads out_exists chunks (Some k)) p = fs p.
Proof. exact process_one_fail_exec. Qed.
Print Assumptions C11_cli_fail_untouched.

(* `luafmt --overwrite x.p8` writes over its input: the protected destination is the input itself *)
Theorem C11_luafmt_overwrite_dest : forall fname, ends_with fname ".p8"%bs = true -> out_fname true fname = fname.
Proof. exact out_fname_overwrite. Qed.
Print Assumptions C11_luafmt_overwrite_dest.

(* build.do_build: OUT is read first (when it exists), like every source; then the same protocol *)
Theorem C11_build_safe : forall exts out out_exists sources writes (chunks : list bytes) fail,
  safe out (build_trace (@concat Z) exts out out_exists sources writes chunks fail) = true.
Proof. exact (@build_trace_safe bytes (@concat Z)). Qed.
Print Assumptions C11_build_safe.

Theorem C11_build_fail_untouched : forall exts out out_exists sources writes (chunks : list bytes) k fs p,
  exec fs (build_trace (@concat Z) exts out out_exists sources writes chunks (Some k)) p = fs p.
Proof. exact build_fail_exec. Qed.
Print Assumptions C11_build_fail_untouched.

(* The stronger monitor: if [quiet] accepts a trace (of a whole command, possibly writing several carts),
   then from the moment any encoder starts (OpenTemp) until it is done, NO path of the file system changes -
   for every prefix, whatever happened before. *)
Theorem C11_quiet_sound : forall (tr : list (op bytes)), quiet tr = true ->
  forall fs a h b r, tr = a ++ OpenTemp h :: b ++ r -> encoder_done b = false ->
  forall p, exec fs (a ++ OpenTemp h :: b) p = exec fs a p.
Proof. exact quiet_sound. Qed.
Print Assumptions C11_quiet_sound.

(* the models are quiet: to_file; process_game_files over a whole argument list (the fault index counts the
   writes of the whole command; an exception ends the command); build *)
Theorem C11_model_quiet : forall fmt dest ex lbl (chunks : list bytes) fail,
  quiet (to_file_trace (@concat Z) fmt dest ex lbl chunks fail) = true.
Proof. exact (@to_file_quiet bytes (@concat Z)). Qed.
Print Assumptions C11_model_quiet.

Theorem C11_cli_many_quiet : forall exts overwrite (files : list (cart_in (D:=bytes))) fail,
  quiet (process_many_trace (@concat Z) exts overwrite files fail) = true.
Proof. exact (@process_many_quiet bytes (@concat Z)). Qed.
Print Assumptions C11_cli_many_quiet.

Theorem C11_build_quiet : forall exts out oex sources writes (chunks : list bytes) fail,
  quiet (build_trace (@concat Z) exts out oex sources writes chunks fail) = true.
Proof. exact (@build_quiet bytes (@concat Z)). Qed.
Print Assumptions C11_build_quiet.

(* Limit, stated rather than hidden: the final copy is not atomic.  After the encoder has returned,
   between open(filename,'wb+') and the end of finalfh.write the destination is truncated; a failure
   of that last write (disk full) is not a failure of "producing the cart" in the property's sense. *)
Theorem C11_final_copy_window_observation :
  exists (fs : filesys) dest chunks tr',
    (exists r, to_file_trace (@concat Z) (Some FmtP8) dest true None chunks None = tr' ++ r)
    /\ fs dest = Some [1] /\ exec fs tr' dest = Some [].
Proof. exact to_file_copy_window. Qed.
Print Assumptions C11_final_copy_window_observation.

(* ---------- non-vacuity ---------- *)
(* a faulted .p8.png write over an existing file: label read from the destination, two chunks written, fault *)
Example C11_nonvacuous_trace :
  to_file_trace_now "a.p8.png"%bs true None [8; 25; 13] (Some 2%nat)
  = [OpenTemp 1; OpenRead ("a.p8.png"%bs : bytes); Write 1 8; Write 1 25; Close 1; Raise].
Proof. vm_compute. reflexivity. Qed.

(* the direct-write mutation named in the property is rejected by the monitor *)
Example C11_direct_write_rejected :
  holds_C11 "a.p8"%bs [OpenWrite ("a.p8"%bs : bytes) 1; Write 1 42; Close 1; Raise] false = false
  /\ safe ("a.p8"%bs : bytes) [OpenWrite ("a.p8"%bs : bytes) 1; Write 1 42; Close 1; Raise (D:=Z)] = false.
Proof. split; vm_compute; reflexivity. Qed.

Example C11_quiet_rejects_direct_write :
  holds_C11_quiet [OpenTemp 1; Write 1 5; OpenWrite ("b.p8"%bs : bytes) 2; Write 1 5; EncoderDone] = false.
Proof. vm_compute. reflexivity. Qed.

Example C11_ok_trace_accepted :
  holds_C11 "a.p8"%bs (to_file_trace_now "a.p8"%bs true None [8; 25] None) false = true.
Proof. vm_compute. reflexivity. Qed.
