(* C18 - raw cart-memory writes land at the addressed bytes and only there.
   Property theorems only; proofs live in Proofs/MemmapProofs.v. *)
From PV Require Import Base.Prelude Model.Memmap Spec.FlatMem Proofs.MemmapProofs.

(* every in-range write: succeeds, keeps every region's size, and the concatenated
   memory is exactly the old memory with [data] spliced in at [addr] - so every other
   byte is unchanged; no bound on data, contents or alignment *)
Theorem C18_write : forall st data addr,
  wf_regions st -> 0 <= addr -> addr + zlen data <= data_end ->
  exists st', write_cart_data st data addr = Ok st' /\ wf_regions st' /\
              flat st' = flat_write (flat st) addr data.
Proof. exact write_cart_data_ok. Qed.
Print Assumptions C18_write.

(* a write that would pass 0x4300 is rejected; the model is functional, so "nothing is
   modified" is the absence of a new state *)
Theorem C18_reject : forall st data addr,
  addr + zlen data > data_end -> write_cart_data st data addr = Err ValueError.
Proof. exact write_cart_data_reject. Qed.
Print Assumptions C18_reject.

(* histories: any sequence of in-range writes equals the same sequence on flat memory *)
Theorem C18_history : forall ws st,
  wf_regions st ->
  Forall (fun w => 0 <= fst w /\ fst w + zlen (snd w) <= data_end) ws ->
  exists st', write_many st ws = Ok st' /\ wf_regions st' /\
              flat st' = flat_write_many (flat st) ws.
Proof. exact write_many_ok. Qed.
Print Assumptions C18_history.

(* non-vacuity: the hypotheses are met by a concrete boundary-aligned write *)
Example C18_nonvacuous :
  let st := [repeat 0 (Z.to_nat 8192); repeat 1 (Z.to_nat 4096); repeat 2 (Z.to_nat 256);
             repeat 3 (Z.to_nat 256); repeat 4 (Z.to_nat 4352)] in
  wf_regions st /\ 0 <= 8188 /\ 8188 + zlen [9; 9; 9; 9] <= data_end.
Proof.
  cbv zeta. unfold wf_regions, region_sizes, data_end, zlen. cbn [map length].
  rewrite !repeat_length. rewrite !Z2Nat.id by lia. split; [reflexivity | lia].
Qed.
(* the same read byte by byte (no reference to [flat_write]): after an in-range write the
   bytes at addr .. addr+len-1 of the image are the data, every other byte of the image
   keeps its value and every region keeps its size *)
Theorem C18_bytes : forall st data addr,
  wf_regions st -> 0 <= addr -> addr + zlen data <= data_end ->
  exists st', write_cart_data st data addr = Ok st' /\ map zlen st' = map zlen st /\
    (forall i, (Z.to_nat addr <= i < Z.to_nat addr + length data)%nat ->
               nth_error (flat st') i = nth_error data (i - Z.to_nat addr)) /\
    (forall i, (i < Z.to_nat addr \/ Z.to_nat addr + length data <= i)%nat ->
               nth_error (flat st') i = nth_error (flat st) i).
Proof. exact write_cart_data_bytes. Qed.
Print Assumptions C18_bytes.
(* histories read byte by byte: after any sequence of in-range writes, byte i of the image is
   the byte the LAST write covering i put there, or its old value when no write covered it
   ([byte_after], Spec/FlatMem.v) *)
Theorem C18_history_bytes : forall ws st,
  wf_regions st ->
  Forall (fun w => 0 <= fst w /\ fst w + zlen (snd w) <= data_end) ws ->
  exists st', write_many st ws = Ok st' /\ wf_regions st' /\
    forall i, nth_error (flat st') i = byte_after ws (nth_error (flat st) i) i.
Proof. exact write_many_bytes. Qed.
Print Assumptions C18_history_bytes.
(* non-vacuity of [byte_after]: two overlapping writes; the later one wins where both cover,
   the earlier one where only it covers, the old value elsewhere *)
Example C18_history_bytes_nonvacuous :
  let ws := [(2, [7; 8; 9]); (3, [5])] in
  byte_after ws (Some 0) 2%nat = Some 7 /\ byte_after ws (Some 0) 3%nat = Some 5 /\
  byte_after ws (Some 0) 4%nat = Some 9 /\ byte_after ws (Some 0) 5%nat = Some 0.
Proof. cbv zeta. repeat split; reflexivity. Qed.
