(* C05 - code compression is lossless and emits only well-formed :c: streams; decoders agree.
   Property theorems only; proofs live in Proofs/CompressProofs.v.
   Model: Model/Compress.v (picotool's compress.py after the two `fix:` commits on decompress_code,
   over the regenerated table, constants and packing kernels of Generated/K_compress.v).
   Format: Spec/PxcFormat.v (written from the format description, independent of picotool). *)
From PV Require Import Base.Prelude Spec.PxcFormat Generated.K_compress Model.Compress
  Instances.HoldsC05 Proofs.CompressProofs.

(* every text (any length, any bytes): compress_code succeeds, emits bytes, and the whole stream -
   including the part that encodes the appended compatibility suffix - is well formed: every
   back-reference has length 3..17 and a non-zero offset inside the output produced before it *)
Theorem C05_compress_wf : forall text, Forall byte text ->
  exists s, compress_code text = Ok s /\ Forall byte s /\ wf_stream s.
Proof. exact compress_wf. Qed.
Print Assumptions C05_compress_wf.

(* lossless: the independent decoder recovers the text with the suffix picotool appended, and its first
   len(text) bytes - what the length header asks for - are exactly the text, whatever follows the
   stream in the code area *)
Theorem C05_lossless : forall text, Forall byte text ->
  exists s sfx, compress_code text = Ok s /\ with_suffix text = Ok (text ++ sfx) /\
                pxc_decode_all s = Some (text ++ sfx) /\
                forall pad, pxc_decode (zlen text) (s ++ pad) = Some text.
Proof. exact lossless. Qed.
Print Assumptions C05_lossless.

(* header + stream + arbitrary padding through picotool's own decompress_code: exactly the text, for
   every text below 64 KiB that the reader's post-processing leaves alone (no NUL at either end, does
   not itself end with a compatibility suffix) *)
Theorem C05_header_roundtrip : forall text m0 m1 m2 m3,
  Forall byte text -> zlen text < 65536 -> clean text = true ->
  exists s, compress_code text = Ok s /\ forall pad, exists cs,
    decompress_code (m0 :: m1 :: m2 :: m3 :: zlen text / 256 :: zlen text mod 256 :: 0 :: 0 :: s ++ pad)
    = Ok (zlen text, text, cs).
Proof. exact header_roundtrip. Qed.
Print Assumptions C05_header_roundtrip.

(* picotool's decompressor against the format, on EVERY stream (not only picotool's own): whenever the
   format defines the first n bytes of s - overlapping references, references into a suffix, blocks cut by
   the length, any producer - decompress_code computes exactly those bytes before its post-processing *)
Theorem C05_decoder_agrees : forall m0 m1 m2 m3 hi lo s n out,
  byte hi -> byte lo -> n = hi * 256 + lo -> pxc_decode n s = Some out ->
  exists cs, decompress_code (m0 :: m1 :: m2 :: m3 :: hi :: lo :: 0 :: 0 :: s) = dc_finish n out cs.
Proof. exact decompress_agrees. Qed.
Print Assumptions C05_decoder_agrees.

(* ... and the post-processing is the identity on carried text *)
Theorem C05_decoder_agrees_clean : forall n out cs, clean out = true -> dc_finish n out cs = Ok (n, out, cs).
Proof. exact dc_finish_clean. Qed.
Print Assumptions C05_decoder_agrees_clean.

(* the extracted monitor's predicates hold of the model for every input *)
Theorem C05_holds_stream : forall text, Forall byte text ->
  exists s, compress_code text = Ok s /\ holds_C05_stream text s = true.
Proof. exact holds_stream_model. Qed.
Print Assumptions C05_holds_stream.

Theorem C05_holds_agree : forall m0 m1 m2 m3 hi lo s n,
  byte hi -> byte lo -> n = hi * 256 + lo ->
  match decompress_code (m0 :: m1 :: m2 :: m3 :: hi :: lo :: 0 :: 0 :: s) with
  | Ok (cl, code, _) => holds_C05_agree n s false cl code = true
  | Err _ => holds_C05_agree n s true 0 [] = true
  end.
Proof. exact holds_agree_model. Qed.
Print Assumptions C05_holds_agree.

(* the suffix-recursive window scan the theorems above are about computes, for every data and position, what the
   source's two index loops compute when each test and update is the regenerated kernel
   (frb_outer, frb_inner, frb_better, frb_new_len, frb_max_len, frb_hist, frb_i0, frb_offset) *)
Theorem C05_scan_is_source_loops : forall dat pos, 0 <= pos <= zlen dat ->
  find_repeatable_block dat pos = find_repeatable_block_ref dat pos.
Proof. exact find_repeatable_block_ref_eq. Qed.
Print Assumptions C05_scan_is_source_loops.

(* the `clean` hypothesis cannot be dropped: by design of the compatibility suffix a text that ends with
   it is not carried (domain limit of the property, not a defect) *)
Theorem C05_suffix_not_carried : exists text, Forall byte text /\ clean text = false /\
  exists s, compress_code text = Ok s /\
    decompress_code (58 :: 99 :: 58 :: 0 :: zlen text / 256 :: zlen text mod 256 :: 0 :: 0 :: s) <> Ok (zlen text, text, 8 + zlen s).
Proof. exact suffix_not_carried. Qed.
Print Assumptions C05_suffix_not_carried.

(* non-vacuity *)
Example C05_clean_nonvacuous : clean "function _update60() x=1 end"%bs = true.
Proof. vm_compute. reflexivity. Qed.

(* an overlapping reference (offset 1, length 5 after "a") is well formed and decodes byte by byte *)
Example C05_overlap_defined : pxc_decode 6 [13; 60; 49] = Some (unBS "aaaaaa"%bs).
Proof. vm_compute. reflexivity. Qed.

Example C05_overlap_agrees :
  decompress_code (58 :: 99 :: 58 :: 0 :: 0 :: 6 :: 0 :: 0 :: [13; 60; 49]) = Ok (6, unBS "aaaaaa"%bs, 11).
Proof. vm_compute. reflexivity. Qed.

(* a block that runs past the header length (the text mentions _update60, its tail repeats into the
   appended suffix) comes back cut at the header length *)
Definition straddle_text : list Z := unBS "_update60 abc"%bs ++ [10] ++ unBS "if( abc"%bs.
Example C05_straddle :
  (s <- compress_code straddle_text ;; decompress_code (58 :: 99 :: 58 :: 0 :: 0 :: 21 :: 0 :: 0 :: s))
  = Ok (21, straddle_text, 27).
Proof. vm_compute. reflexivity. Qed.
