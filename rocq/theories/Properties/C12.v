(* C12 - require() and #include never read files outside the permitted directories.
   Property theorems only; proofs live in Proofs/PathProofs.v, IncludeProofs.v, RequireProofs.v.

   Locations and "under" are the reference notions of Spec/PathSpec.v (POSIX resolution
   without symbolic links).  The unrestricted containment statements are FALSE of today's
   code (lemmas *_refuted, replayed on the implementation by the harness; known findings in
   findings/known_C12.json); what is proved is containment under the spelled-out excluding
   hypotheses, and unconditional containment for the model of the candidate patches. *)
From PV Require Import Base.Prelude Model.Paths Model.Include Model.Require Model.FilesInst
  Spec.PathSpec Proofs.PathProofs Proofs.IncludeProofs Proofs.RequireProofs Instances.HoldsC12.

(* the posixpath model computes reference locations: abspath / normpath do not move a path *)
Theorem C12_abspath_location : forall cwd p,
  absolute cwd = true ->
  locate cwd (abspath cwd p) = locate cwd p /\ locate cwd (normpath p) = locate cwd p /\
  Forall not_parent (components (abspath cwd p)).
Proof.
  intros cwd p H. split; [apply locate_abspath; exact H|]. split; [apply locate_normpath|].
  apply abspath_no_parent. exact H.
Qed.
Print Assumptions C12_abspath_location.

(* #include, today's code: a resolved include lies under the include root PROVIDED the text that
   follows the root in the resolved path starts at a separator (sep_aligned); the code only
   checks the textual prefix (second conjunct) *)
Theorem C12_include_contained_partial : forall cwd home isfile cart inc p,
  absolute cwd = true ->
  resolve_include_now cwd home isfile cart inc = Ok p ->
  (exists rest, p = inc_root_now cwd home cart ++ rest) /\
  (sep_aligned (inc_root_now cwd home cart) p -> under cwd (inc_root_now cwd home cart) p).
Proof.
  intros cwd home isfile cart inc p Hc H. split.
  - exact (include_prefixed _ cwd home isfile cart inc p H).
  - exact (include_contained_partial _ cwd home isfile Hc cart inc p H).
Qed.
Print Assumptions C12_include_contained_partial.

(* ... and without that hypothesis it is false: `#include ../foobar/x.lua` from /t/foo/c.p8, and
   `#include ../cartsY/x.lua` from a cart in ~/.lexaloffle/pico-8/cartsX *)
Theorem C12_include_contained_refuted :
  (exists cwd home isfile cart inc p, absolute cwd = true /\
     resolve_include_now cwd home isfile cart inc = Ok p /\
     underb cwd (inc_root_now cwd home cart) p = false)
  /\ (exists p, resolve_include_now t_cwd t_home (fun _ => true) t_cart2 t_inc2 = Ok p /\
       underb t_cwd (inc_root_now t_cwd t_home t_cart2) p = false /\
       underb t_cwd (inc_root_now t_cwd t_home t_cart2) t_cart2 = false).
Proof. exact (conj include_contained_refuted include_carts_folder_refuted). Qed.
Print Assumptions C12_include_contained_refuted.

(* the candidate patch (separator-aware test in process_includes and get_root_include_path):
   unconditional containment, the carts folder is only chosen for carts that lie in it, and the
   two witnesses are rejected *)
Theorem C12_include_contained_fixed : forall cwd home isfile cart inc p,
  absolute cwd = true ->
  resolve_include_fixed_now cwd home isfile cart inc = Ok p ->
  under cwd (get_root_include_path_fixed T_files_p8.pico8_cart_paths cwd home cart) p.
Proof. intros cwd home isfile cart inc p Hc. exact (include_contained_fixed _ cwd home isfile Hc cart inc p). Qed.
Print Assumptions C12_include_contained_fixed.

Theorem C12_include_root_fixed_sound : forall cwd home cart,
  absolute cwd = true ->
  let root := get_root_include_path_fixed T_files_p8.pico8_cart_paths cwd home cart in
  (exists c, In c T_files_p8.pico8_cart_paths /\ root = full_path cwd home c /\ under cwd root (expanduser home cart))
  \/ root = dirname (full_path cwd home cart).
Proof. intros cwd home cart Hc. exact (root_fixed_sound _ cwd home Hc cart). Qed.
Print Assumptions C12_include_root_fixed_sound.

(* require(), today's code: every candidate handed to os.path.isfile lies under the directory
   named by its load-path pattern PROVIDED the require string is not empty and the instantiated
   part of the candidate has no ".." component *)
Theorem C12_require_contained_partial : forall cwd file_path lua_path req p,
  require_filter_now req = true -> req <> [] ->
  (forall pat, In pat (split_on 59 lua_path) -> Forall not_parent (components (candidate_tail pat req))) ->
  In p (require_candidates_now file_path lua_path req) ->
  exists pat, In pat (split_on 59 lua_path) /\ under cwd (pattern_dir (dirname file_path) pat) p.
Proof. exact candidates_contained_partial. Qed.
Print Assumptions C12_require_contained_partial.

(* in particular for load paths made of patterns DIR/?SUFFIX (pattern_saneb; the regenerated
   default ?;?.lua is one) it is enough that the require string has no ".." component - which is
   what the candidate patch rejects, together with the empty string; and with the default load
   path every candidate is under the requiring file's own directory *)
Theorem C12_require_contained_sane : forall cwd file_path lua_path req p,
  require_filter_now req = true -> req <> [] -> Forall not_parent (components req) ->
  forallb pattern_saneb (split_on 59 lua_path) = true ->
  In p (require_candidates_now file_path lua_path req) ->
  exists pat, In pat (split_on 59 lua_path) /\ under cwd (pattern_dir (dirname file_path) pat) p.
Proof. exact candidates_contained_sane. Qed.
Print Assumptions C12_require_contained_sane.

Theorem C12_require_default_path : forall cwd file_path req p,
  require_filter_now req = true -> req <> [] -> Forall not_parent (components req) ->
  In p (require_candidates_now file_path T_files_build.default_lua_path req) ->
  under cwd (dirname file_path) p /\ locate cwd (dirname file_path) = locate cwd (dir_part file_path).
Proof.
  intros cwd f req p H1 H2 H3 H4. split; [exact (candidates_default_under_base cwd f req p H1 H2 H3 H4)|].
  apply locate_dirname.
Qed.
Print Assumptions C12_require_default_path.

(* ... and without the hypotheses it is false: require("..") and require("") pass the filter *)
Theorem C12_require_contained_refuted :
  (exists req p, require_filter_now req = true /\ In p (require_candidates_now r_main r_path req) /\
     forallb (fun root => negb (underb r_cwd root p)) (require_roots (split_on 59 r_path) r_main) = true)
  /\ (exists p, require_filter_now [] = true /\ In p (require_candidates_now r_main r_path []) /\
     forallb (fun root => negb (underb r_cwd root p)) (require_roots (split_on 59 r_path) r_main) = true)
  /\ (exists p, require_filter_now [46; 46] = true /\
     In p (require_candidates_now r_main T_files_build.default_lua_path [46; 46]) /\
     underb r_cwd (dirname r_main) p = false).
Proof.
  exact (conj require_contained_refuted_dotdot (conj require_contained_refuted_empty require_contained_refuted_default)).
Qed.
Print Assumptions C12_require_contained_refuted.

(* the monitors: a trace they accept only touches paths under a root (static roots for
   #include; for require the roots grow with every opened - hence requiring - file) *)
Theorem C12_monitor : forall cwd roots tr,
  all_opens_under cwd roots tr = true ->
  forall a p, In (a, p) tr -> exists r, In r roots /\ under cwd r p.
Proof. exact all_opens_under_sound. Qed.
Print Assumptions C12_monitor.

Theorem C12_monitor_growing : forall cwd grow tr roots,
  all_opens_under_growing cwd grow roots tr = true ->
  forall i a p, nth_error tr i = Some (a, p) ->
  exists r, In r (roots_after grow roots (firstn i tr)) /\ under cwd r p.
Proof. exact all_opens_under_growing_sound. Qed.
Print Assumptions C12_monitor_growing.

(* non-vacuity: the hypotheses of the partial theorems are satisfiable *)
Example C12_nonvacuous :
  resolve_include_now t_cwd t_home (fun _ => true) t_cart [120; 46; 108; 117; 97] = Ok [47; 116; 47; 102; 111; 111; 47; 120; 46; 108; 117; 97]
  /\ require_filter_now [97] = true /\ Forall not_parent (components [97])
  /\ require_candidates_now r_main T_files_build.default_lua_path [97] =
     [[47; 116; 47; 119; 47; 112; 114; 111; 106; 47; 97]; [47; 116; 47; 119; 47; 112; 114; 111; 106; 47; 97; 46; 108; 117; 97]].
Proof.
  split; [vm_compute; reflexivity|]. split; [vm_compute; reflexivity|].
  split; [repeat constructor; discriminate | vm_compute; reflexivity].
Qed.
