(* C12 - require() and #include never read files outside the permitted directories.
   Property theorems only; proofs live in Proofs/PathProofs.v, IncludeProofs.v, RequireProofs.v.

   Locations and "under" are the reference notions of Spec/PathSpec.v (POSIX resolution
   without symbolic links).  The model follows the code after the four `fix:` commits recorded in
   findings/known_C12.json; the shapes of the containment tests and of the require filter are
   regenerated from the source (Generated/T_files_p8.v, T_files_build.v) and pinned, so a revert
   of a fix breaks a pin here.  The `*_variant_refuted` lemmas show that the statements are false for
   the plain string-prefix tests / the two-test filter the code had before. *)
From PV Require Import Base.Prelude Model.Paths Model.Include Model.Require Model.FilesInst
  Model.RequireWalk Spec.PathSpec Spec.LoadPathSpec Proofs.PathProofs Proofs.IncludeProofs Proofs.RequireProofs
  Proofs.RequireGeneral Proofs.RequireWalkProofs Proofs.IncludeHolds Instances.HoldsC12.

(* the posixpath model computes reference locations: abspath / normpath do not move a path *)
Theorem C12_abspath_location : forall cwd p,
  absolute cwd = true ->
  locate cwd (abspath cwd p) = locate cwd p /\ locate cwd (normpath p) = locate cwd p /\
  Forall not_parent (components (abspath cwd p)).
Proof. exact abspath_location_now. Qed.
Print Assumptions C12_abspath_location.

(* #include: whatever the include string, the cart's name, the working directory, HOME and the
   file system: a path that process_includes goes on to open lies under the include root *)
Theorem C12_include_contained : forall cwd home isfile cart inc p,
  absolute cwd = true ->
  resolve_include_now cwd home isfile cart inc = Ok p ->
  under cwd (inc_root_now cwd home cart) p.
Proof. exact include_contained_now. Qed.
Print Assumptions C12_include_contained.

(* ... the include root is a PICO-8 carts folder in which the cart lies, or the cart's own directory *)
Theorem C12_include_root_sound : forall cwd home cart,
  absolute cwd = true ->
  let root := inc_root_now cwd home cart in
  (exists c, In c T_files_p8.pico8_cart_paths /\ root = full_path cwd home c /\ under cwd root (expanduser home cart))
  \/ (root = dirname (full_path cwd home cart) /\
      locate cwd root = locate cwd (dir_part (full_path cwd home cart))).
Proof. exact include_root_sound_now. Qed.
Print Assumptions C12_include_root_sound.

(* ... and a string that points outside the root (`../`, absolute paths, prefix-sharing siblings) is
   rejected with P8IncludeOutsideOfAllowedDirectory before the file system is consulted; an accepted
   one is the existing file the string denotes relative to the cart's directory *)
Theorem C12_include_rejects_outside : forall cwd home isfile cart inc,
  absolute cwd = true ->
  underb cwd (inc_root_now cwd home cart) (join (dirname cart) inc) = false ->
  resolve_include_now cwd home isfile cart inc = Err IncludeOutside.
Proof. exact include_rejects_outside_now. Qed.
Print Assumptions C12_include_rejects_outside.

Theorem C12_include_ok_spec : forall cwd home isfile cart inc p,
  absolute cwd = true ->
  resolve_include_now cwd home isfile cart inc = Ok p ->
  p = include_full_path cwd cart inc /\ isfile p = true /\ locate cwd p = locate cwd (join (dirname cart) inc).
Proof. exact include_ok_spec_now. Qed.
Print Assumptions C12_include_ok_spec.

(* the accesses of the model of one include line (isfile, then open) satisfy the instance predicate the
   monitor evaluates - whose root the Spec computes from the cart's name, independently of the model - for
   every cart outside the PICO-8 carts folders whose name ends in an ordinary file name and does not start
   with "~" (for carts inside a carts folder the two roots are compared at run time only) *)
Theorem C12_include_model_holds : forall cwd home isfile,
  absolute cwd = true ->
  forall cart inc,
  proper_name cart -> expanduser home cart = cart ->
  (forall c, In c T_files_p8.pico8_cart_paths -> underb cwd (expanduser home c) cart = false) ->
  let r := include_accesses_now cwd home isfile cart inc in
  holds_C12_include cwd (map (expanduser home) T_files_p8.pico8_cart_paths) cart inc (snd r) [] (map acc_event (fst r)) = true.
Proof. exact include_model_holds. Qed.
Print Assumptions C12_include_model_holds.

Theorem C12_include_accesses : forall cwd home isfile cart inc,
  match resolve_include_now cwd home isfile cart inc with
  | Ok p => include_accesses_now cwd home isfile cart inc = ([(false, p); (true, p)], false)
  | Err IncludeNotFound =>
    include_accesses_now cwd home isfile cart inc = ([(false, include_full_path cwd cart inc)], true)
  | Err _ => include_accesses_now cwd home isfile cart inc = ([], true)
  end.
Proof. exact include_accesses_resolve. Qed.
Print Assumptions C12_include_accesses.

(* with plain string-prefix tests (the code before the fixes; kinds 0) both statements are false:
   `#include ../foobar/x.lua` from /t/foo/c.p8, and `#include ../cartsY/x.lua` from a cart in
   ~/.lexaloffle/pico-8/cartsX; today's model rejects both *)
Theorem C12_include_prefix_variant_refuted :
  (exists cwd home isfile cart inc p, absolute cwd = true /\
     resolve_include_prefix cwd home isfile cart inc = Ok p /\
     underb cwd (inc_root_prefix cwd home cart) p = false)
  /\ (exists p, resolve_include_prefix t_cwd t_home (fun _ => true) t_cart2 t_inc2 = Ok p /\
       underb t_cwd (inc_root_prefix t_cwd t_home t_cart2) p = false /\
       underb t_cwd (inc_root_prefix t_cwd t_home t_cart2) t_cart2 = false)
  /\ (resolve_include_now t_cwd t_home (fun _ => true) t_cart t_inc = Err IncludeOutside /\
      resolve_include_now t_cwd t_home (fun _ => true) t_cart2 t_inc2 = Err IncludeOutside /\
      inc_root_now t_cwd t_home t_cart2 = dirname t_cart2).
Proof. exact include_prefix_variants_refuted. Qed.
Print Assumptions C12_include_prefix_variant_refuted.

(* require(), ANY load path: whatever string passes the filter of _evaluate_require, whatever the pattern (any
   number of "?", any components, absolute or relative), the requiring file and the working directory: every
   candidate _locate_require_file hands to os.path.isfile (hence the file it opens) lies under the directory
   the pattern text designates (Spec/LoadPathSpec.v).  [pattern_root base pat] is a function of the pattern
   and the requiring file's directory alone - not of the require string: the directory part of the pattern
   in front of its first "?" ([pattern_dir]: relative patterns relative to the requiring file's directory,
   the pattern's own ".." resolved), with [pattern_climb pat] levels removed, where the climb is the worst
   case of the rest of the pattern: a literal ".." goes up; a component with "?" goes up only if it is ".?",
   "?." or "??" (which require(".") turns into ".."), and counts as a level gained unless it is "?" or ends
   in "?." / "?.." (which "." , "a/." , "a/" turn into "." or "x/..").  No hypothesis on the pattern or on the
   instantiated path. *)
Theorem C12_require_contained_general : forall cwd file_path lua_path req p,
  require_filter_now req = true ->
  In p (require_candidates_now file_path lua_path req) ->
  exists pat, In pat (split_on 59 lua_path) /\ under cwd (pattern_root (dirname file_path) pat) p.
Proof. exact candidates_contained_general. Qed.
Print Assumptions C12_require_contained_general.

(* ... per candidate, for any base directory *)
Theorem C12_require_candidate_under_root : forall cwd base pat req,
  require_filter_now req = true ->
  under cwd (pattern_root base pat) (candidate 63 base req pat).
Proof. exact candidate_under_root_now. Qed.
Print Assumptions C12_require_candidate_under_root.

(* ... where that directory is: the location of pattern_dir without its last pattern_climb names *)
Theorem C12_require_root_location : forall cwd base pat,
  locate cwd (pattern_root base pat)
  = firstn (length (locate cwd (pattern_dir base pat)) - pattern_climb pat) (locate cwd (pattern_dir base pat)).
Proof. exact root_location. Qed.
Print Assumptions C12_require_root_location.

(* the usual patterns DIR/NAME?SUFFIX (pattern_saneb: one "?", NAME <> ".", no ".." in SUFFIX, SUFFIX's first
   component <> ".") have climb 0: their root is pattern_dir itself ... *)
Theorem C12_require_sane_climb0 : forall pat,
  pattern_saneb pat = true -> pattern_climb pat = 0%nat /\ forall base, pattern_root base pat = pattern_dir base pat.
Proof. exact sane_climb0_root. Qed.
Print Assumptions C12_require_sane_climb0.

(* ... so the statement for sane load paths is a corollary of the general one (proved that way) *)
Theorem C12_require_contained : forall cwd file_path lua_path req p,
  require_filter_now req = true ->
  forallb pattern_saneb (split_on 59 lua_path) = true ->
  In p (require_candidates_now file_path lua_path req) ->
  exists pat, In pat (split_on 59 lua_path) /\ under cwd (pattern_dir (dirname file_path) pat) p.
Proof. exact candidates_contained_from_general. Qed.
Print Assumptions C12_require_contained.

(* ... and so is the same statement for every load path whose patterns have climb 0 (decidable from the
   pattern text; also several placeholders: ?/?.lua, lib/?/?.lua) *)
Theorem C12_require_contained_flat : forall cwd file_path lua_path req p,
  require_filter_now req = true ->
  forallb pattern_flatb (split_on 59 lua_path) = true ->
  In p (require_candidates_now file_path lua_path req) ->
  exists pat, In pat (split_on 59 lua_path) /\ under cwd (pattern_dir (dirname file_path) pat) p.
Proof. exact candidates_contained_flat. Qed.
Print Assumptions C12_require_contained_flat.

(* what is false: beyond climb 0 a candidate need not lie under pattern_dir - "??" with require(".") names the
   parent directory although the pattern contains no "." at all - and the place reached is NOT a function of
   the pattern and the number of components of the string: ?/../x with "a" / "." and x?../../y with "a/b" /
   "a/" (same number of components) end inside / outside the requiring file's directory.  For seven patterns
   of climb 1-2 require(".") reaches a place that is not under the directory one level below pattern_root:
   the count cannot be lowered for them. *)
Theorem C12_require_natural_refuted :
  (exists pat req p, require_filter_now req = true /\ contains [46] pat = false /\
     In p (require_candidates_now g_main pat req) /\ underb g_cwd (pattern_dir g_base pat) p = false)
  /\ (exists pat r1 r2 p1 p2, require_filter_now r1 = true /\ require_filter_now r2 = true /\
        length (components r1) = length (components r2) /\
        In p1 (require_candidates_now g_main pat r1) /\ In p2 (require_candidates_now g_main pat r2) /\
        underb g_cwd (pattern_dir g_base pat) p1 = true /\ underb g_cwd (pattern_dir g_base pat) p2 = false)
  /\ (exists pat r1 r2 p1 p2, require_filter_now r1 = true /\ require_filter_now r2 = true /\
        length (components r1) = 2%nat /\ length (components r2) = 2%nat /\
        In p1 (require_candidates_now g_main pat r1) /\ In p2 (require_candidates_now g_main pat r2) /\
        underb g_cwd (pattern_dir g_base pat) p1 = true /\ underb g_cwd (pattern_dir g_base pat) p2 = false).
Proof. exact natural_containment_refuted. Qed.
Print Assumptions C12_require_natural_refuted.

(* what IS a function of the pattern and the number of components: for strings made of proper names only
   (every component a name: not empty, not "."; e.g. a, a/b, lib/util.x) the kinds of the candidate's components
   are determined by the pattern and that number k, so the candidate lies exactly [fst (plain_profile pat k)] levels
   above pattern_dir's location and then [snd (plain_profile pat k)] names below *)
Theorem C12_require_plain_location : forall cwd base pat req,
  require_filter_now req = true -> Forall (fun c => comp_kind c = 2) (components req) ->
  let D := locate cwd (pattern_dir base pat) in
  let mh := plain_profile pat (length (components req)) in
  exists names, locate cwd (candidate 63 base req pat) = firstn (length D - fst mh) D ++ names
                /\ length names = snd mh.
Proof. exact plain_candidate_location. Qed.
Print Assumptions C12_require_plain_location.

Theorem C12_require_root_exact_examples :
  map pattern_climb exact_examples = [1; 1; 1; 2; 2; 2; 1]%nat
  /\ forallb (fun pat =>
       match pattern_climb pat with
       | S n => negb (underb g_cwd (pattern_dir g_base pat ++ ups n) (candidate 63 g_base [46] pat))
                && underb g_cwd (pattern_root g_base pat) (candidate 63 g_base [46] pat)
       | O => false
       end) exact_examples = true.
Proof. exact pattern_root_exact_examples. Qed.
Print Assumptions C12_require_root_exact_examples.

(* any load path at all, provided the instantiated part of each candidate has no ".." component *)
Theorem C12_require_contained_any_path : forall cwd file_path lua_path req p,
  require_filter_now req = true ->
  (forall pat, In pat (split_on 59 lua_path) -> Forall not_parent (components (candidate_tail pat req))) ->
  In p (require_candidates_now file_path lua_path req) ->
  exists pat, In pat (split_on 59 lua_path) /\ under cwd (pattern_dir (dirname file_path) pat) p.
Proof. exact candidates_contained_tail. Qed.
Print Assumptions C12_require_contained_any_path.

(* the regenerated default load path ?;?.lua is sane, and with it every candidate is under the
   requiring file's own directory *)
Theorem C12_require_default_path : forall cwd file_path req p,
  require_filter_now req = true ->
  In p (require_candidates_now file_path T_files_build.default_lua_path req) ->
  under cwd (dirname file_path) p /\ locate cwd (dirname file_path) = locate cwd (dir_part file_path).
Proof. exact require_default_path_now. Qed.
Print Assumptions C12_require_default_path.

(* what the filter lets through: non-empty, relative, no ".." component, no "./" *)
Theorem C12_require_filter_spec : forall req,
  require_filter_now req = true ->
  req <> [] /\ starts_with [47] req = false /\ Forall not_parent (components req) /\ contains [46; 47] req = false.
Proof. exact require_filter_now_spec. Qed.
Print Assumptions C12_require_filter_spec.

(* the hypothesis on the load path cannot be dropped (pattern ?/../../x), and with the filter the
   code had before the fixes (only "./" and a leading "/") the statement is false: require("..") and
   require("") escaped; today's filter rejects them *)
Theorem C12_require_variants_refuted :
  (exists pat req p, require_filter_now req = true /\ pattern_saneb pat = false /\
     In p (require_candidates_now [47; 116; 47; 119; 47; 109; 46; 108; 117; 97] pat req) /\
     underb [47; 116] (pattern_dir [47; 116; 47; 119] pat) p = false)
  /\ (exists req p, require_filter_old req = true /\ In p (require_candidates_now r_main r_path req) /\
     forallb (fun root => negb (underb r_cwd root p)) (require_roots (split_on 59 r_path) r_main) = true)
  /\ (exists p, require_filter_old [] = true /\ In p (require_candidates_now r_main r_path []) /\
     forallb (fun root => negb (underb r_cwd root p)) (require_roots (split_on 59 r_path) r_main) = true)
  /\ (exists p, require_filter_old [46; 46] = true /\
     In p (require_candidates_now r_main T_files_build.default_lua_path [46; 46]) /\
     underb r_cwd (dirname r_main) p = false)
  /\ (require_filter_now [46; 46] = false /\ require_filter_now [] = false /\ require_filter_now [97; 47; 46; 46] = false).
Proof. exact require_variants_refuted. Qed.
Print Assumptions C12_require_variants_refuted.

(* the whole recursion of _evaluate_require (Model/RequireWalk.v: for every file content, abstracted as the
   list of require strings per file, every file system, EVERY load path, every depth): the sequence of
   os.path.isfile probes and open() calls satisfies the instance predicate the monitor evaluates on the real
   run - every access lies under the directory of the main file, of a file opened before it, or under a
   directory their load-path patterns designate (pattern_root) *)
Theorem C12_require_model_holds : forall requires_of isfile lua_path cwd fuel main,
  holds_C12_require cwd lua_path main []
    (map to_event (fst (evaluate_require requires_of isfile lua_path fuel main))) = true.
Proof. exact require_model_holds. Qed.
Print Assumptions C12_require_model_holds.

(* for load paths whose patterns have climb 0 (every sane pattern; also ?/?.lua ...) the roots the monitor
   uses are the requiring files' directories and pattern_dir of the patterns - the predicate it had before the
   general statement existed *)
Theorem C12_require_monitor_flat : forall cwd lua_path main explicit tr,
  forallb pattern_flatb (split_on 59 lua_path) = true ->
  holds_C12_require cwd lua_path main explicit tr
  = all_opens_under_growing cwd (require_roots (split_on 59 lua_path)) (require_roots (split_on 59 lua_path) main)
      (relevant explicit tr).
Proof. exact holds_require_flat. Qed.
Print Assumptions C12_require_monitor_flat.

Theorem C12_require_monitor_sane : forall cwd lua_path main explicit tr,
  forallb pattern_saneb (split_on 59 lua_path) = true ->
  holds_C12_require cwd lua_path main explicit tr
  = all_opens_under_growing cwd (require_roots (split_on 59 lua_path)) (require_roots (split_on 59 lua_path) main)
      (relevant explicit tr).
Proof. exact holds_require_sane. Qed.
Print Assumptions C12_require_monitor_sane.

(* the monitors: a trace they accept only touches paths under a root (static roots for
   #include; for require the roots grow with every opened - hence requiring - file) *)
Theorem C12_monitor : forall cwd roots tr,
  all_opens_under cwd roots tr = true ->
  forall a p, In (a, p) tr -> exists r, In r roots /\ under cwd r p.
Proof. exact all_opens_under_sound. Qed.
Print Assumptions C12_monitor.

Theorem C12_monitor_growing : forall cwd grow tr roots,
  all_opens_under_growing cwd grow roots tr = true ->
  forall i a p, nth_error tr i = Some (a, p) ->
  exists r, In r (roots_after grow roots (firstn i tr)) /\ under cwd r p.
Proof. exact all_opens_under_growing_sound. Qed.
Print Assumptions C12_monitor_growing.

(* non-vacuity: accepted includes and require strings exist *)
Example C12_nonvacuous :
  resolve_include_now t_cwd t_home (fun _ => true) t_cart [120; 46; 108; 117; 97] = Ok [47; 116; 47; 102; 111; 111; 47; 120; 46; 108; 117; 97]
  /\ require_filter_now [97] = true
  /\ forallb pattern_saneb (split_on 59 [108; 105; 98; 47; 63; 46; 108; 117; 97; 59; 63; 47; 105; 110; 105; 116; 46; 108; 117; 97]) = true
  /\ require_candidates_now r_main T_files_build.default_lua_path [97] =
     [[47; 116; 47; 119; 47; 112; 114; 111; 106; 47; 97]; [47; 116; 47; 119; 47; 112; 114; 111; 106; 47; 97; 46; 108; 117; 97]].
Proof. repeat split; vm_compute; reflexivity. Qed.

(* non-vacuity of the general statement: climbs of a grid of patterns (0 for the usual ones and for several
   placeholders without ".."), and a candidate of a two-placeholder pattern with its root
   ( ?  ?.lua  lib/?.lua  ../lib/?.lua  ?/?.lua  ?/../?.lua  ?/../../x/?.lua  /abs/?.lua  a/?/../../? ) *)
Example C12_general_nonvacuous :
  map pattern_climb
    [[63]; [63; 46; 108; 117; 97]; [108; 105; 98; 47; 63; 46; 108; 117; 97];
     [46; 46; 47; 108; 105; 98; 47; 63; 46; 108; 117; 97]; [63; 47; 63; 46; 108; 117; 97];
     [63; 47; 46; 46; 47; 63; 46; 108; 117; 97];
     [63; 47; 46; 46; 47; 46; 46; 47; 120; 47; 63; 46; 108; 117; 97];
     [47; 97; 98; 115; 47; 63; 46; 108; 117; 97]; [97; 47; 63; 47; 46; 46; 47; 46; 46; 47; 63]]
  = [0; 0; 0; 0; 0; 1; 2; 0; 2]%nat
  /\ require_filter_now [97; 47; 98] = true
  /\ candidate 63 g_base [97; 47; 98] [63; 47; 46; 46; 47; 63; 46; 108; 117; 97]
     = [47; 116; 47; 119; 47; 97; 47; 98; 47; 46; 46; 47; 97; 47; 98; 46; 108; 117; 97]   (* /t/w/a/b/../a/b.lua *)
  /\ pattern_root g_base [63; 47; 46; 46; 47; 63; 46; 108; 117; 97] = [47; 116; 47; 119; 47; 46; 46; 47] (* /t/w/../ *)
  /\ locate g_cwd (pattern_root g_base [63; 47; 46; 46; 47; 63; 46; 108; 117; 97]) = [[116]]
  (* ?/../../x/?.lua : a one-component proper name leaves the directory by one level, a two-component one by none *)
  /\ map (plain_profile [63; 47; 46; 46; 47; 46; 46; 47; 120; 47; 63; 46; 108; 117; 97]) [1; 2; 3]%nat
     = [(1, 2); (0, 3); (0, 5)]%nat.
Proof. repeat split; vm_compute; reflexivity. Qed.
