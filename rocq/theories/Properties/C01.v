(* C01 - luamin keeps the program (work in progress: first theorems). *)
From PV Require Import Base.Prelude Generated.T_lexer Model.NameFactory Model.Lexer Model.TokWriters
  Proofs.TokWritersProofs.

(* the writer never raises: for every token list and configuration it yields its chunks *)
Theorem C01_minify_total : forall cfg ts, exists chunks, minify cfg ts = Ok chunks.
Proof. exact minify_total. Qed.
Print Assumptions C01_minify_total.
