(* C01 - luamin keeps the program: same tokens modulo renaming, nothing glued.

   Model: Model/TokWriters.v (LuaMinifyTokenWriter.to_lines / _minified_chunks / _fuses of
   pico8/lua/lua.py after the fix: commit for S1; bodies pinned in Proofs/TokWritersProofs.v,
   _FUSING_CHARS and the closing-bracket literal regenerated), Model/NameFactory.v (renaming),
   Model/Lexer.v (tokens, Token.code / TokString.code over the regenerated reverse-escape table).
   Reference: Spec/LuaLex.v.  [spec_toks src] = the reference token list of src without positions;
   None = src is outside the defined dialect (no claim).

   [lexer_agrees ss ts] : picotool's tokens ts have, one by one, the class and the .code of the
   reference tokens ss - the statement of C07 (the lexer agrees with the lexical grammar); C01
   is proved relative to it, for EVERY token sequence of the dialect (no parse hypothesis: also
   sequences no program contains), every configuration and every keep file. *)
From PV Require Proofs.LexerChunk.
From PV Require Import Base.Prelude Spec.LuaLex Instances.HoldsC02 Instances.HoldsC01
  Generated.T_lexer Generated.T_luanames Model.NameFactory Model.Lexer Model.TokWriters
  Proofs.LuaLexFacts Proofs.TokWritersProofs Proofs.MinifyRelex Proofs.MinifyRelations Proofs.MinifyEndToEnd Proofs.MinifyCount Proofs.MinifyChunks.
From PV Require Proofs.LexerChunkNl.

(* the writer never raises *)
Theorem C01_minify_total : forall cfg ts, exists chunks, minify cfg ts = Ok chunks.
Proof. exact minify_total. Qed.
Print Assumptions C01_minify_total.

(* the main statement: the written text lexes, under the reference rules, to the input's
   significant tokens - keywords and symbols by text, numbers by value, strings by the bytes they
   denote ([same_view]), identifiers renamed exactly as the name factory answers (a consistent
   injection that respects reserved names: C02) - with the same line groups (every line-scoped
   shorthand ends where it ended) and the same token count *)
Theorem C01_luamin_preserves : forall cfg src ss ts chunks,
  spec_toks src = Some ss -> lexer_agrees ss ts -> minify cfg ts = Ok chunks ->
  exists ss', spec_toks (concat chunks) = Some ss'
    /\ all2 same_view (sig_toks ss) (sig_toks ss') = true
    /\ run_factory cfg (ident_names (sig_toks ss)) = Ok (ident_names (sig_toks ss'))
    /\ line_groups ss' = line_groups ss
    /\ spec_count ss' = spec_count ss.
Proof. exact luamin_preserves. Qed.
Print Assumptions C01_luamin_preserves.

(* ... in the form of the instance predicate the monitor evaluates on the real output *)
Theorem C01_holds : forall cfg src ss ts chunks,
  spec_toks src = Some ss -> lexer_agrees ss ts -> minify cfg ts = Ok chunks ->
  holds_C01 src (concat chunks) = true.
Proof. exact holds_C01_minify. Qed.
Print Assumptions C01_holds.

(* composed with C07 (the lexer worker's lex_agrees_code, Proofs/LexerView.v: on every byte string
   of the dialect the lexer model succeeds and lexer_agrees holds): no hypothesis about the lexer
   is left.  luamin_text = lexer model, then writer model.  For EVERY byte string src: inside the
   dialect luamin succeeds and holds_C01 is true of its output; outside, no claim is made *)
Theorem C01_end_to_end : forall cfg src ss, Forall byte src -> spec_toks src = Some ss ->
  exists out, luamin_text cfg [src] = Ok out /\ holds_C01 src out = true /\ holds_C19 src out = true.
Proof. exact luamin_end_to_end. Qed.
Print Assumptions C01_end_to_end.

Theorem C01_holds_all : forall cfg src out, Forall byte src -> luamin_text cfg [src] = Ok out ->
  holds_C01 src out = true /\ holds_C19 src out = true.
Proof. exact luamin_holds_all. Qed.
Print Assumptions C01_holds_all.

(* ... for the source given as any list of chunks that end after line feeds (the lines the .p8
   reader and Lua.from_lines feed to the lexer), by the lexer worker's C07_chunking *)
Theorem C01_lines : forall cfg ls out,
  Forall LexerChunk.ends_lf (removelast ls) -> Forall byte (concat ls) -> luamin_text cfg ls = Ok out ->
  holds_C01 (concat ls) out = true /\ holds_C19 (concat ls) out = true.
Proof. exact luamin_lines_all. Qed.
Print Assumptions C01_lines.

Theorem C01_lines_total : forall cfg ls ss,
  Forall LexerChunk.ends_lf (removelast ls) -> Forall byte (concat ls) -> spec_toks (concat ls) = Some ss ->
  exists out, luamin_text cfg ls = Ok out /\ holds_C01 (concat ls) out = true /\ holds_C19 (concat ls) out = true.
Proof. exact luamin_lines. Qed.
Print Assumptions C01_lines_total.

(* ... and for the __lua__ text of the cart `p8tool luamin` / `build --lua-minify` write (the chunks,
   then the line break P8Formatter.to_file supplies unless the last chunk ends with one) *)
Theorem C01_cart_text : forall cfg ls out,
  Forall LexerChunk.ends_lf (removelast ls) -> Forall byte (concat ls) -> luamin_cart_text cfg ls = Ok out ->
  holds_C01 (concat ls) out = true /\ holds_C19 (concat ls) out = true.
Proof. exact luamin_cart. Qed.
Print Assumptions C01_cart_text.

(* the token count `stats` reports (Lua.get_token_count = token_count of Model/Lexer.v, with picotool's
   own weights) is the same for the source and for the written text: lexer model on src, writer
   model, lexer model again on the output (which is shown to be a byte string of the dialect) *)
Theorem C01_stats_count : forall cfg src ss, Forall byte src -> spec_toks src = Some ss ->
  exists ts out ts', model_lex [src] = Ok ts /\ luamin_text cfg [src] = Ok out /\ model_lex [out] = Ok ts' /\
    token_count ts' = token_count ts.
Proof. exact luamin_stats_count. Qed.
Print Assumptions C01_stats_count.

(* the identifier tokens of the written text, aligned with those of the source (names and label
   names, in order), satisfy the instance predicate of C02: the renaming seen on the program is a
   consistent injection that keeps keywords, builtins, keep-file names and - with keep_all - all
   names, and generated names are fresh identifiers *)
Theorem C01_identifiers_C02 : forall cfg src ss, Forall byte src -> spec_toks src = Some ss ->
  exists out ss', luamin_text cfg [src] = Ok out /\ spec_toks out = Some ss' /\
    length (sig_toks ss') = length (sig_toks ss) /\
    holds_C02 (keep_all cfg) (keep_list cfg) preserved_names
      (ident_names (sig_toks ss)) (ident_names (sig_toks ss')) = true.
Proof. exact luamin_identifiers. Qed.
Print Assumptions C01_identifiers_C02.

(* directly on reference tokens (the writer only looks at class and code) *)
Theorem C01_holds_spec_tokens : forall cfg src ss chunks,
  spec_toks src = Some ss -> minify_gen cfg (map sk ss) = Ok chunks -> holds_C01 src (concat chunks) = true.
Proof. exact holds_C01_luamin. Qed.
Print Assumptions C01_holds_spec_tokens.

(* nothing glued, symbols: a sweep over the symbol set x 256 bytes on the regenerated
   _FUSING_CHARS (sym_fuse_ok_now), lifted to every right context *)
Theorem C01_glue_free_symbols : forall x c r R, In x spec_symbols -> 0 <= c < 256 ->
  fuses x (c :: r) = false -> spec_step (x ++ c :: R) = Some (mk SSymbol x x, c :: R).
Proof. exact glue_free_symbols. Qed.
Print Assumptions C01_glue_free_symbols.

(* string literals: TokString.code of ANY byte string is read back to the same bytes, whatever follows *)
Theorem C01_string_reencode : forall q data R, q = 34 \/ q = 39 ->
  spec_step (reencode [q] data ++ R) = Some (mk_stok SString (reencode [q] data) data 0 1 (-1) 0 0, R).
Proof. exact string_reencode. Qed.
Print Assumptions C01_string_reencode.

(* ---------- per-line chunks (R4): every single-chunk theorem above, for the source as the .p8 reader and
   Lua.from_lines feed it to the lexer.  C01_lines / C01_lines_total / C01_cart_text above already cover
   holds_C01 / holds_C19; here also under the names of the single-chunk theorems, and the relational statement,
   the token count and the identifiers ---------- *)
Theorem C01_end_to_end_chunks : forall cfg ls ss,
  Forall LexerChunk.ends_lf (removelast ls) -> Forall byte (concat ls) -> spec_toks (concat ls) = Some ss ->
  exists out, luamin_text cfg ls = Ok out /\ holds_C01 (concat ls) out = true /\ holds_C19 (concat ls) out = true.
Proof. exact luamin_lines. Qed.
Print Assumptions C01_end_to_end_chunks.

Theorem C01_luamin_preserves_chunks : forall cfg ls ss,
  Forall LexerChunk.ends_lf (removelast ls) -> Forall byte (concat ls) -> spec_toks (concat ls) = Some ss ->
  exists ts chunks ss', model_lex ls = Ok ts /\ minify cfg ts = Ok chunks /\ luamin_text cfg ls = Ok (concat chunks) /\
    spec_toks (concat chunks) = Some ss'
    /\ all2 same_view (sig_toks ss) (sig_toks ss') = true
    /\ run_factory cfg (ident_names (sig_toks ss)) = Ok (ident_names (sig_toks ss'))
    /\ line_groups ss' = line_groups ss
    /\ spec_count ss' = spec_count ss.
Proof. exact (fun cfg ls ss H => luamin_chunks_preserves cfg ls ss (lines_same_as_joined ls H)). Qed.
Print Assumptions C01_luamin_preserves_chunks.

Theorem C01_stats_count_chunks : forall cfg ls ss,
  Forall LexerChunk.ends_lf (removelast ls) -> Forall byte (concat ls) -> spec_toks (concat ls) = Some ss ->
  exists ts out ts', model_lex ls = Ok ts /\ luamin_text cfg ls = Ok out /\ model_lex [out] = Ok ts' /\
    token_count ts' = token_count ts.
Proof. exact luamin_lines_count. Qed.
Print Assumptions C01_stats_count_chunks.

Theorem C01_identifiers_C02_chunks : forall cfg ls ss,
  Forall LexerChunk.ends_lf (removelast ls) -> Forall byte (concat ls) -> spec_toks (concat ls) = Some ss ->
  exists out ss', luamin_text cfg ls = Ok out /\ spec_toks out = Some ss' /\
    length (sig_toks ss') = length (sig_toks ss) /\
    holds_C02 (keep_all cfg) (keep_list cfg) preserved_names
      (ident_names (sig_toks ss)) (ident_names (sig_toks ss')) = true.
Proof. exact (fun cfg ls ss H => luamin_chunks_identifiers cfg ls ss (lines_same_as_joined ls H)). Qed.
Print Assumptions C01_identifiers_C02_chunks.

(* ... and for ANY chunk list that the lexer model reads as it reads the concatenated text - e.g. the line list
   `build --lua-minify` hands to the final parse, which may contain a separate newline line after a package without
   final newline (LexerChunkNl.chunk_ok; C14_prepended_lines_chunking proves it of that list) *)
Theorem C01_end_to_end_chunk_ok : forall cfg ls ss,
  LexerChunkNl.chunk_ok ls -> Forall byte (concat ls) -> spec_toks (concat ls) = Some ss ->
  exists out, luamin_text cfg ls = Ok out /\ holds_C01 (concat ls) out = true /\ holds_C19 (concat ls) out = true.
Proof. exact (fun cfg ls ss H => luamin_chunks cfg ls ss (chunk_ok_same_as_joined ls H)). Qed.
Print Assumptions C01_end_to_end_chunk_ok.

(* ---------- non-vacuity ---------- *)
(* the pairs the writer used to glue (S1), through lexer model + writer model; the hypothesis
   lexer_agrees holds for them *)
Example C01_former_glue :
  let src := unBS "a = b - -c  x = 1 ..y  t[ [[k]] ]=1  f(x .. ...)  a = b .. .5
"%bs in
  exists ss ts chunks, spec_toks src = Some ss /\ model_lex [src] = Ok ts /\ lexer_agrees ss ts /\
    minify (mk_config false None) ts = Ok chunks /\
    concat chunks = unBS "a=b- -c d=1 ..e t[ [[k]]]=1 f(d.. ...) a=b.. .5
"%bs.
Proof.
  cbv zeta. eexists. eexists. eexists. split; [vm_compute; reflexivity|]. split; [vm_compute; reflexivity|].
  split; [vm_compute; reflexivity|]. split; vm_compute; reflexivity.
Qed.

Example C01_fuses : fuses [45] [45] = true /\ fuses [49] [46; 46] = true /\ fuses [91] (unBS "[[k]]"%bs) = true
  /\ fuses [46; 46] [46; 46; 46] = true /\ fuses [46; 46] [46; 53] = true /\ fuses [61] [45] = false.
Proof. vm_compute. repeat split; reflexivity. Qed.

(* short if and ? stay on their lines; keep-all configuration *)
Example C01_line_scoped :
  let src := unBS "if (a) b=1 c=2
?x,2
y=2"%bs in
  exists ss chunks, spec_toks src = Some ss /\ minify_gen (mk_config true None) (map sk ss) = Ok chunks /\
    concat chunks = unBS "if(a) b=1 c=2
? x,2
y=2"%bs /\ line_groups ss = [10; 4; 3].
Proof.
  cbv zeta. eexists. eexists. split; [vm_compute; reflexivity|]. split; [vm_compute; reflexivity|].
  split; vm_compute; reflexivity.
Qed.

(* per-line chunks: the S1 pairs again, fed line by line (CRLF line ends, last line without newline) *)
Example C01_chunks_example :
  let ls := [unBS "a = b - -c"%bs ++ [13; 10]; unBS "x = 1 ..y -- c"%bs ++ [10]; unBS "t[ [[k]] ]=1"%bs] in
  exists ss, spec_toks (concat ls) = Some ss /\ Forall LexerChunk.ends_lf (removelast ls) /\
    luamin_text (mk_config false None) ls = Ok (unBS "a=b- -c
d=1 ..e
t[ [[k]]]=1"%bs).
Proof.
  cbv zeta. eexists. split; [vm_compute; reflexivity|]. split; [|vm_compute; reflexivity].
  apply ends_lf_check. vm_compute. reflexivity.
Qed.
