(* C06 - the default writer echoes the source losslessly.  Property theorems only; proofs live in
   Proofs/EchoProofs.v (over Proofs/Lexer*.v).
   Model: Model/Lexer.v (lexer, Token.code / TokString.code over the REGENERATED escape tables) and
   Model/EchoWriter.v (LuaEchoWriter).  Reference decoder: Spec/LuaLex.v.  holds_C06: Instances/HoldsC06.v,
   the very predicate the extracted monitor evaluates on (source, text written by the implementation). *)
From PV Require Import Base.Prelude Generated.T_lexer Model.Lexer Model.EchoWriter Spec.LuaLex
  Instances.HoldsC06 Proofs.LexerProofs Proofs.LexerInv Proofs.LexerStr Proofs.LexerEnc Proofs.LexerChunk Proofs.EchoProofs Proofs.LexerRelex Proofs.LexerAppendLf Proofs.EchoStable Proofs.EchoRelexSpec.

(* THE property for every byte string given as one chunk: if the source is in the dialect it is lexed, and the
   echoed text, walked along the reference tokens of the source, repeats the source byte for byte outside
   quoted strings and, at each quoted string, shows the same quote and a spelling that the reference decoder
   reads back as exactly the bytes the source spelling denotes; if the model raises, the source is outside
   the dialect *)
Theorem C06_echo : forall src, Forall byte src ->
  match echo_source [src] with
  | Ok lines => holds_C06 src (concat lines) = true
  | Err _ => holds_C06_error src = true
  end.
Proof. exact model_holds_C06. Qed.
Print Assumptions C06_echo.

(* the same when the text arrives split after line feeds (the .p8 path): the written text is the same *)
Theorem C06_echo_chunks : forall ls, Forall ends_lf (removelast ls) -> Forall byte (concat ls) ->
  match echo_source ls with
  | Ok lines => holds_C06 (concat ls) (concat lines) = true
  | Err _ => holds_C06_error (concat ls) = true
  end.
Proof. exact model_holds_C06_chunks. Qed.
Print Assumptions C06_echo_chunks.

Theorem C06_echo_chunking : forall ls, Forall ends_lf (removelast ls) -> echo_source ls = echo_source [concat ls].
Proof. exact echo_source_chunking. Qed.
Print Assumptions C06_echo_chunking.

(* the token list covers the source completely: nothing dropped, nothing duplicated - every lexable input,
   LF or CRLF, with or without final newline, any chunking *)
Theorem C06_cover : forall chunks ts, model_lex chunks = Ok ts -> concat (map t_ext ts) = concat chunks.
Proof. exact model_lex_cover. Qed.
Print Assumptions C06_cover.

(* the echo writer emits exactly the codes of the tokens, in order *)
Theorem C06_echo_is_codes : forall ts, concat (echo ts) = concat (map tok_code ts).
Proof. exact echo_concat. Qed.
Print Assumptions C06_echo_is_codes.

(* ... and the code of every token that is not a quoted string is its source extent, byte for byte -
   every lexable input (also outside the reference dialect), any chunking *)
Theorem C06_code_is_extent : forall chunks ts, model_lex chunks = Ok ts ->
  Forall (fun t => quoted_tok t = false -> tok_code t = t_ext t) ts.
Proof. exact code_is_extent. Qed.
Print Assumptions C06_code_is_extent.

(* TokString.code of ANY byte string, either quote: the reference decoder reads the spelling back as the
   same bytes (no digit is absorbed into \0 \14 \15, quotes and backslashes are escaped, ...) *)
Theorem C06_string_reencode : forall q v, (q = 34 \/ q = 39) -> Forall byte v ->
  spec_unescape q (escape_bytes [q] v) = Some v.
Proof. exact reencode_denotes. Qed.
Print Assumptions C06_string_reencode.

(* the in-string loop of the lexer decodes every string body of the dialect (all escape forms: \n ...,
   \ddd with 1-3 digits followed by digits, \xhh, line continuation LF and CRLF, P8SCII control escapes)
   to the bytes the reference decoder gives *)
Theorem C06_string_decode_agrees : forall q s v raw rest,
  q = 34 \/ q = 39 -> Forall byte s -> crlf_only s = true ->
  unescape_until q s = Some (v, raw, rest) ->
  forall fuel acc pc, (length s <= fuel)%nat ->
  scan_string fuel q s acc pc = Ok (SClosed (rev v ++ acc) (rev raw ++ pc) rest).
Proof. exact string_scan_agrees. Qed.
Print Assumptions C06_string_decode_agrees.

(* the written text is a fixed point: lexing it again - EVERY input, also text that is not valid Lua, any
   splitting after line feeds on both sides - succeeds and writes the very same text (strings are already in
   TokString.code spelling; no Normal-state decision looks past the opening quote of the next string) *)
Theorem C06_relex_stable : forall s ts, model_lex [s] = Ok ts ->
  exists ts', model_lex [concat (map tok_code ts)] = Ok ts' /\ map tok_code ts' = map tok_code ts.
Proof. exact relex_stable. Qed.
Print Assumptions C06_relex_stable.

Theorem C06_echo_idempotent : forall ls lines, Forall ends_lf (removelast ls) -> echo_source ls = Ok lines ->
  forall ls', concat ls' = concat lines -> Forall ends_lf (removelast ls') ->
  exists lines', echo_source ls' = Ok lines' /\ concat lines' = concat lines.
Proof. exact echo_idempotent. Qed.
Print Assumptions C06_echo_idempotent.

(* ... and stays one when a final line feed is supplied (the .p8 writer does that) *)
Theorem C06_echo_idempotent_lf : forall ls lines, Forall ends_lf (removelast ls) -> echo_source ls = Ok lines ->
  forall ls', concat ls' = concat lines ++ [10] -> Forall ends_lf (removelast ls') ->
  exists lines', echo_source ls' = Ok lines' /\ concat lines' = concat lines ++ [10].
Proof. exact echo_idempotent_lf. Qed.
Print Assumptions C06_echo_idempotent_lf.

(* no chunk yielded by the writer is empty (no token has an empty code) *)
Theorem C06_echo_chunks_nonempty : forall ls lines, echo_source ls = Ok lines -> Forall (fun c => c <> []) lines.
Proof. exact echo_chunks_nonempty. Qed.
Print Assumptions C06_echo_chunks_nonempty.

(* all yielded chunks but the last end with a line feed - unless a newline token is a lone carriage return, which
   never happens for a source of the dialect *)
Theorem C06_echo_chunks_end_lf : forall ls ts, model_lex ls = Ok ts -> no_lone_cr_newline ts ->
  Forall ends_lf (removelast (echo ts)).
Proof. exact echo_chunks_end_lf. Qed.
Print Assumptions C06_echo_chunks_end_lf.

Theorem C06_echo_chunks_end_lf_dialect : forall ls ts ss,
  Forall ends_lf (removelast ls) -> Forall byte (concat ls) -> spec_lex (concat ls) = Some ss ->
  model_lex ls = Ok ts -> Forall ends_lf (removelast (echo ts)).
Proof. exact echo_chunks_end_lf_dialect. Qed.
Print Assumptions C06_echo_chunks_end_lf_dialect.

(* the written text of a source of the dialect has no carriage return outside CR LF *)
Theorem C06_echo_crlf_only : forall src ss, Forall byte src -> spec_lex src = Some ss ->
  exists lines, echo_source [src] = Ok lines /\ crlf_only (concat lines) = true.
Proof. exact echo_crlf_only. Qed.
Print Assumptions C06_echo_crlf_only.

(* non-vacuity / the former defects, on the model of the fixed code *)
Example C06_examples :
  map (fun src => match echo_source [src] with Ok l => concat l | Err _ => [] end)
      [bs_ "x=""\0001"""; bs_ "x=""\x41\65"""; bs_ "s='a\" ++ [13; 10] ++ bs_ "b' --c" ++ [13; 10]]
  = [bs_ "x=""\0001"""; bs_ "x=""AA"""; bs_ "s='a\nb' --c" ++ [13; 10]].
Proof. vm_compute. reflexivity. Qed.

Example C06_holds_examples :
  forallb (fun src => match echo_source [src] with Ok l => holds_C06 src (concat l) | Err _ => false end)
      [bs_ "x=""\0001"""; bs_ "x=""\x41\65"""; bs_ "s='a\" ++ [13; 10] ++ bs_ "b' --c" ++ [13; 10];
       bs_ "t=[==[" ++ [10] ++ bs_ "]]]==] y=0x.8"] = true.
Proof. vm_compute. reflexivity. Qed.

(* the re-lex clause against the REFERENCE grammar, with the monitor's own predicate holds_C06_relex
   (Instances/HoldsC06.v) and under exactly its domain (any byte string; no claim outside the dialect): the text
   written by the model for a source of the dialect is itself in the dialect (spec_lex defined on it) and its
   reference tokens have, one by one, the same class, the same text outside quoted strings, and inside quoted
   strings the same quote and the same denoted bytes *)
Theorem C06_relex_reference : forall src, Forall byte src ->
  match echo_source [src] with
  | Ok lines => holds_C06_relex src (concat lines) = true
  | Err _ => holds_C06_error src = true
  end.
Proof. exact model_holds_C06_relex. Qed.
Print Assumptions C06_relex_reference.

(* the same when the text arrives split after line feeds (the .p8 path) *)
Theorem C06_relex_reference_chunks : forall ls, Forall ends_lf (removelast ls) -> Forall byte (concat ls) ->
  match echo_source ls with
  | Ok lines => holds_C06_relex (concat ls) (concat lines) = true
  | Err _ => holds_C06_error (concat ls) = true
  end.
Proof. exact model_holds_C06_relex_chunks. Qed.
Print Assumptions C06_relex_reference_chunks.

(* the implication between the two monitor predicates, for ANY pair (source, written text) - also the
   implementation's: a faithful echo without a lone carriage return re-lexes to the same views *)
Theorem C06_relex_of_holds : forall src out,
  holds_C06 src out = true -> crlf_only out = true -> holds_C06_relex src out = true.
Proof. exact holds_C06_relex_of_holds. Qed.
Print Assumptions C06_relex_of_holds.

(* spelled out: the written text of a source of the dialect is in the dialect, with the same views *)
Theorem C06_echo_in_dialect : forall src ss, Forall byte src -> spec_lex src = Some ss ->
  exists lines ss', echo_source [src] = Ok lines /\ spec_lex (concat lines) = Some ss' /\ all2 same_view ss ss' = true.
Proof. exact echo_in_dialect. Qed.
Print Assumptions C06_echo_in_dialect.

(* non-vacuity: sources of the dialect whose strings are respelled by the writer; the predicate is not
   trivially true (a text with one byte changed fails it) *)
Example C06_relex_examples :
  forallb (fun src => match spec_lex src, echo_source [src] with
                      | Some _, Ok l => holds_C06_relex src (concat l) && negb (zlist_eqb src (concat l))
                      | _, _ => false end)
      [bs_ "x=""\x41\65"" -- c" ++ [13; 10] ++ bs_ "y=0x.8"; bs_ "s='a\" ++ [13; 10] ++ bs_ "b' t=[==[" ++ [10] ++ bs_ "]]]==]"] = true
  /\ holds_C06_relex (bs_ "x=""\65""") (bs_ "x=""B""") = false
  /\ holds_C06_relex (bs_ "x=1") (bs_ "x=""") = false.
Proof. vm_compute. repeat split; reflexivity. Qed.
