(* C10 - luafmt output is canonical: indentation follows nesting, idempotent.

   Theorems about [fmt_run], the model (Model/FmtSpaces.v) of the re.sub pipeline of
   LuaFormatterWriter._get_code_for_spaces, for runs of EVERY length and every configuration
   (start of file or not, end of file or not, any indent width, any depth).  The regex sources, guards,
   replacement expressions and the text of the whole function are regenerated from lua.py on every run and
   pinned (the pin_ lemmas of Proofs/FmtSpacesProofs.v); the scanners are compared with Python's re on all short runs.
   The whole-program statements of C10 (re-indentation invariance, idempotence, indentation = width x
   depth) are evaluated by the extracted holds_C10 on real luafmt output (harness/props/c10.py); their
   proof at whole-writer level needs Model/AstWriter.v. *)
From PV Require Import Base.Prelude Model.FmtSpaces Generated.T_fmtspaces Proofs.FmtSpacesProofs.

(* the pipeline only moves white space: every other byte of the run (comment text) is kept, in order *)
Theorem C10_run_keeps_comment_text : forall cfg r, nonws (fmt_run cfg r) = nonws r.
Proof. exact fmt_run_nonws. Qed.
Print Assumptions C10_run_keeps_comment_text.

Example C10_nonvacuous_S17 :
  fmt_run (mk_fcfg false false 2 1) [NL; NL] = [NL; NL; SP; SP].
Proof. vm_compute. reflexivity. Qed.
