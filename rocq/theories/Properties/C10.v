(* C10 - luafmt output is canonical: indentation follows nesting, idempotent.

   Theorems about [fmt_run], the model (Model/FmtSpaces.v) of the re.sub pipeline of
   LuaFormatterWriter._get_code_for_spaces, for runs of EVERY length and every configuration
   (start of file or not, end of file or not, any indent width, any depth).  The regex sources, guards,
   replacement expressions and the text of the whole function are regenerated from lua.py on every run and
   pinned (the pin_ lemmas of Proofs/FmtSpacesProofs.v); the scanners are compared with Python's re on all short runs.
   The whole-program statements of C10 (re-indentation invariance, idempotence, indentation = width x
   depth) are evaluated by the extracted holds_C10 on real luafmt output (harness/props/c10.py); their
   proof at whole-writer level needs Model/AstWriter.v. *)
From PV Require Import Base.Prelude Spec.LuaTokens Model.FmtSpaces Model.FmtSpacesInst Model.WriterChunks
  Model.Tokens Model.AstWriter Generated.T_fmtspaces Proofs.FmtSpacesProofs Proofs.FmtLinesProofs Proofs.FmtChunksProofs
  Proofs.AstWriterIndent Spec.LuaGrammar Model.Parser Model.ParserInst Model.WriterDomain Proofs.AstWriterLines.

(* the pipeline only moves white space: every other byte of the run (comment text) is kept, in order *)
Theorem C10_run_keeps_comment_text : forall cfg r, nonws (fmt_run cfg r) = nonws r.
Proof. exact fmt_run_nonws. Qed.
Print Assumptions C10_run_keeps_comment_text.

(* no line of the formatted run ends in a blank: nowhere in the output is a space followed by a line feed
   (tabs and carriage returns are gone after the first four substitutions) *)
Theorem C10_run_no_trailing_blank : forall cfg r, has_sp_nl (fmt_run cfg r) = false.
Proof. exact fmt_run_no_trailing_blank. Qed.
Print Assumptions C10_run_no_trailing_blank.

(* the output of the pipeline holds no tab and no carriage return (so "blank" above and below means space) *)
Theorem C10_run_no_tab_cr : forall cfg r, Forall (fun c => c <> TAB /\ c <> CR) (fmt_run cfg r).
Proof. exact fmt_run_clean. Qed.
Print Assumptions C10_run_no_tab_cr.

(* the token that follows the run: when the run's output ends in a line feed followed only by
   blanks, those blanks are exactly indentwidth x depth spaces *)
Theorem C10_run_indent : forall cfg r p q, f_at_end cfg = false ->
  fmt_run cfg r = p ++ NL :: q -> noNL q -> forallb is_sp q = true -> q = indent_bytes cfg.
Proof. exact fmt_run_indent. Qed.
Print Assumptions C10_run_indent.

(* at most one blank line in a row: the output never holds three line feeds in a row (and by the theorem
   above no line consists of blanks only, except possibly the indentation after the last line feed) *)
Theorem C10_run_blank_lines : forall cfg r, has3nl (fmt_run cfg r) = false.
Proof. exact fmt_run_blank_lines. Qed.
Print Assumptions C10_run_blank_lines.

(* the run that ends the file is empty, or a single line feed, or ends in a byte that is neither blank
   nor line feed, followed by at most one line feed: no blank lines and no blanks at the end *)
Theorem C10_run_end_of_file : forall cfg r, f_at_end cfg = true ->
  fmt_run cfg r = [] \/ fmt_run cfg r = [NL] \/
  exists a c, is_sp_nl c = false /\ (fmt_run cfg r = a ++ [c] \/ fmt_run cfg r = a ++ [c; NL]).
Proof. exact fmt_run_end. Qed.
Print Assumptions C10_run_end_of_file.

(* re-indentation invariance of a run: after the tab / line-end normalisation (canon_ws: the first four
   substitutions), two runs that agree once the blanks at the edges of their lines are removed
   (strip_line_edges: trailing blanks of every line followed by a line feed; leading blanks of blank and
   comment lines) are formatted to the same text *)
Theorem C10_run_depends_on_norm : forall cfg r1 r2,
  strip_line_edges (f_at_start cfg) (canon_ws r1) = strip_line_edges (f_at_start cfg) (canon_ws r2) ->
  fmt_run cfg r1 = fmt_run cfg r2.
Proof. exact fmt_run_depends_on_norm. Qed.
Print Assumptions C10_run_depends_on_norm.

(* formatting a formatted run again (same position, width and depth) changes nothing: for every run, also
   the one that ends the file *)
Theorem C10_run_idempotent : forall cfg r, fmt_run cfg (fmt_run cfg r) = fmt_run cfg r.
Proof. exact fmt_run_idempotent_all. Qed.
Print Assumptions C10_run_idempotent.

(* the exact line form of the output: the run, split at line feeds after the tab / line-end
   normalisation, is mapped line by line (fmt_lines) and joined again *)
Theorem C10_run_canonical_form : forall cfg r l0 ls, split_nl (canon_ws r) = l0 :: ls ->
  fmt_run cfg r =
  (if f_at_end cfg then trail_nl (joinl (fmt_lines cfg l0 ls)) else joinl (fmt_lines cfg l0 ls)).
Proof. exact fmt_run_lines. Qed.
Print Assumptions C10_run_canonical_form.

(* ---------- whole output, relative to the writer walk ----------
   The writer's output is a list of chunks (Model/WriterChunks.v): one Trivia chunk per _get_code_for_spaces
   call (cursor, _indent, at-end flag, run), one Code chunk per token passed; its text is chunks_text W chunks
   with W = fmt_spaces w for luafmt with indentwidth w.  The three theorems below hold for EVERY chunk list
   with the stated properties; what is missing for the whole-program clauses of C10 (hence _partial) is the
   model of the walk (Model/AstWriter.v): that luafmt's output is such a chunk list, that it is `separated`
   (no white-space run is split between two calls) with tidy code texts, and that the indent passed with a
   token's run equals the number of blocks and brackets open at the token. *)

(* a code token that begins a line after a line feed is preceded by exactly w x indent spaces, indent being
   the _indent passed with the last non-empty white-space run before the token *)
Theorem C10_indent_partial : forall w cs A i text B p q,
  cs = A ++ Code i text :: B -> separated cs -> codes_ok cs -> no_end A ->
  chunks_text (fmt_spaces w) A = p ++ NL :: q -> noNL q -> forallb is_sp q = true ->
  exists ind, last_ind None A = Some ind /\ q = repeat SP (Z.to_nat w * Z.to_nat ind).
Proof. exact chunks_token_indent. Qed.
Print Assumptions C10_indent_partial.

(* a token that begins the first line of the file sits at column 0 *)
Theorem C10_first_line_partial : forall w cs A B, cs = A ++ B -> codes_ok cs ->
  (forall s ind e r, In (Trivia s ind e r) A -> r <> [] -> s = 0) ->
  noNL (chunks_text (fmt_spaces w) A) -> forallb is_sp (chunks_text (fmt_spaces w) A) = true ->
  chunks_text (fmt_spaces w) A = [].
Proof. exact chunks_first_line. Qed.
Print Assumptions C10_first_line_partial.

(* in the whole output "blank, line feed" and three line feeds in a row occur only inside code tokens (long
   strings): no line ends in white space, at most one blank line separates lines *)
Theorem C10_shape_partial : forall w cs, separated cs -> codes_ok cs ->
  (forall i text, In (Code i text) cs -> has_sp_nl text = false /\ has3nl text = false) ->
  has_sp_nl (chunks_text (fmt_spaces w) cs) = false /\ has3nl (chunks_text (fmt_spaces w) cs) = false.
Proof. exact chunks_shape. Qed.
Print Assumptions C10_shape_partial.

(* two chunk lists with the same code texts whose white-space runs agree modulo blanks at line edges (same
   position flags and indents) give the same output text; missing for C10's re-indentation clause: that
   re-indenting the input changes the walk's chunk list only in this way (lexer + parser + walk) *)
Theorem C10_reindent_partial : forall w cs1 cs2, Forall2 chunk_equiv cs1 cs2 ->
  chunks_text (fmt_spaces w) cs1 = chunks_text (fmt_spaces w) cs2.
Proof. exact chunks_reindent. Qed.
Print Assumptions C10_reindent_partial.

(* ---------- the writer walk (Model/AstWriter.v: the model of LuaASTEchoWriter's tree walk) ----------
   The nesting counter is balanced, for every token list and every tree on which the walk succeeds (nothing
   about the parser is assumed): each handler leaves _indent as it found it, and no white-space run of a whole
   luafmt run is written with a negative _indent - so b' ' * indentwidth * _indent is exactly
   indentwidth x _indent spaces, the quantity C10_run_indent / C10_indent_partial speak about. *)
Theorem C10_walk_indent_balanced : forall ts n node st st',
  walk ts n node st = Ok st' -> w_ind st' = w_ind st.
Proof. exact walk_restores_indent. Qed.
Print Assumptions C10_walk_indent_balanced.

Theorem C10_writer_indent_nonneg : forall ts root cs p, writer_chunks ts root = Ok (cs, p) ->
  Forall (fun c => match c with Trivia _ ind _ _ => 0 <= ind | Code _ _ => True end) cs.
Proof. exact writer_indent_balanced. Qed.
Print Assumptions C10_writer_indent_nonneg.

(* the hypotheses are satisfiable: `do` NL NL `x` at depth 1, width 2 *)
Example C10_chunks_nonvacuous :
  let nl := mkTok CNewline 0 [NL] [NL] in
  let cs := [Trivia 0 0 false []; Code 0 [100; 111]; Trivia 1 1 false [nl; nl]; Code 3 [120]] in
  separated cs /\ codes_ok cs /\
  chunks_text (fmt_spaces 2) cs = [100; 111; NL; NL; SP; SP; 120].
Proof.
  cbn zeta. split; [|split].
  - intros A s ind e t ts B H.
    destruct A as [|c0 [|c1 [|c2 [|c3 [|c4 A]]]]]; cbn in H; try discriminate; inversion H; subst; reflexivity.
  - intros i text [H | [H | [H | [H | []]]]]; inversion H; subst; (split; [reflexivity|]).
    + exists [100], 111. repeat split; discriminate.
    + exists [], 120. repeat split; discriminate.
  - vm_compute. reflexivity.
Qed.

(* at the end of the file also the blanks that end the last line are layout: the run that ends the file is
   formatted the same whether or not its last line ends in blanks (strip_line_edges_end = strip_line_edges after
   removing the trailing blanks of the last line) *)
Theorem C10_run_depends_on_norm_end : forall cfg r1 r2, f_at_end cfg = true ->
  strip_line_edges_end (f_at_start cfg) (canon_ws r1) = strip_line_edges_end (f_at_start cfg) (canon_ws r2) ->
  fmt_run cfg r1 = fmt_run cfg r2.
Proof. exact fmt_run_depends_on_norm_end. Qed.
Print Assumptions C10_run_depends_on_norm_end.

Example C10_norm_end_nonvacuous :
  let r1 := [NL; DASH; DASH; 99] in
  let r2 := [NL; SP; DASH; DASH; 99; SP; TAB] in
  strip_line_edges_end false (canon_ws r1) = strip_line_edges_end false (canon_ws r2) /\
  fmt_run (mk_fcfg false true 2 0) r2 = [NL; DASH; DASH; 99].
Proof. split; vm_compute; reflexivity. Qed.

(* blanks after the last token of a file without a final newline vanish (before the third fix they became a
   newline, so that adding trailing spaces to the last line changed the output) *)
Theorem C10_run_end_only_blanks : forall cfg r, f_at_end cfg = true -> forallb is_sp r = true -> fmt_run cfg r = [].
Proof. exact fmt_run_end_only_blanks. Qed.
Print Assumptions C10_run_end_only_blanks.

Example C10_norm_nonvacuous :
  let r1 := [SP; TAB; NL; TAB; SP; DASH; DASH; 99; SP; SP; NL; SP; SP; SP] in
  let r2 := [NL; DASH; DASH; 99; NL] in
  r1 <> r2 /\ strip_line_edges false (canon_ws r1) = strip_line_edges false (canon_ws r2) /\
  fmt_run (mk_fcfg false false 2 1) r1 = [NL; SP; SP; DASH; DASH; 99; NL; SP; SP].
Proof. split; [discriminate|]. split; vm_compute; reflexivity. Qed.

Example C10_nonvacuous_S17 :
  fmt_run (mk_fcfg false false 2 1) [NL; NL] = [NL; NL; SP; SP].
Proof. vm_compute. reflexivity. Qed.

(* ---------- whole programs ----------
   For a token list the parser model reads to its end, with the tree inside the writer's domain (Model/WriterDomain.v
   writable, the domain of C09_aligned) and tidy token codes (codes_tidy: the code of every significant token is not
   empty, does not begin with a line feed, does not end in a blank or line feed, and holds neither "blank, line feed"
   nor three line feeds in a row - true of every token but multi-line strings), the hypotheses of the _partial
   theorems above are discharged: luafmt's output IS such a chunk list (C09_aligned), it is separated (every
   white-space run the walk reads is complete: Proofs/AstWriterLines.v tiling_separated), no run before a code token
   reaches the end of the file, the code texts are tidy. *)

(* in the whole output no line ends in white space and at most one blank line separates lines *)
Theorem C10_shape : forall ts w root e,
  lua_parse ts = Ok (root, e) -> consumed ts e = true -> writable ts root = true -> codes_tidy ts = true ->
  exists out, writer_text (fmt_spaces w) ts (view root) = Ok out /\ has_sp_nl out = false /\ has3nl out = false.
Proof. exact program_shape. Qed.
Print Assumptions C10_shape.

(* every code token that begins a line of the output is preceded by exactly indentwidth x n spaces, n >= 0 the value of
   the writer's nesting counter at the white-space run before the token; _partial: that n is the number of blocks and
   brackets open at the token is the statement C10_indent *)
Theorem C10_indent_counter_partial : forall ts w root e,
  lua_parse ts = Ok (root, e) -> consumed ts e = true -> writable ts root = true -> codes_tidy ts = true ->
  exists cs, writer_text (fmt_spaces w) ts (view root) = Ok (chunks_text (fmt_spaces w) cs) /\ codes_of cs = sig_codes ts 0 /\
    forall A i text B p q, cs = A ++ Code i text :: B ->
      chunks_text (fmt_spaces w) A = p ++ NL :: q -> noNL q -> forallb is_sp q = true ->
      exists ind, last_ind None A = Some ind /\ 0 <= ind /\ q = repeat SP (Z.to_nat w * Z.to_nat ind).
Proof. exact program_indent_counter. Qed.
Print Assumptions C10_indent_counter_partial.

(* non-vacuity: `do / x = {1, / f(2)} / end` (badly indented) satisfies the hypotheses; luafmt with width 2 writes
   `do / ..x = {1, / ....f(2)} / end` *)
Definition C10_example_tokens : list token :=
  [mkTok CKeyword 0 [100; 111] [100; 111];
   mkTok CNewline 0 [10] [10];
   mkTok CName 0 [120] [120];
   mkTok CSpace 0 [32] [32];
   mkTok CSymbol 0 [61] [61];
   mkTok CSpace 0 [32] [32];
   mkTok CSymbol 0 [123] [123];
   mkTok CNumber 0 [49] [49];
   mkTok CSymbol 0 [44] [44];
   mkTok CNewline 0 [10] [10];
   mkTok CSpace 0 [32; 32] [32; 32];
   mkTok CName 0 [102] [102];
   mkTok CSymbol 0 [40] [40];
   mkTok CNumber 0 [50] [50];
   mkTok CSymbol 0 [41] [41];
   mkTok CSymbol 0 [125] [125];
   mkTok CNewline 0 [10] [10];
   mkTok CSpace 0 [32; 32] [32; 32];
   mkTok CKeyword 0 [101; 110; 100] [101; 110; 100];
   mkTok CNewline 0 [10] [10]].

Example C10_program_nonvacuous :
  exists root e, lua_parse C10_example_tokens = Ok (root, e) /\ consumed C10_example_tokens e = true /\
    writable C10_example_tokens root = true /\ codes_tidy C10_example_tokens = true /\
    writer_text (fmt_spaces 2) C10_example_tokens (view root) = Ok ("do
  x = {1,
    f(2)}
end
"%bs : list Z).
Proof.
  eexists _, _. split; [vm_compute; reflexivity|]. split; [vm_compute; reflexivity|]. split; [vm_compute; reflexivity|].
  split; vm_compute; reflexivity.
Qed.

From PV Require Import Spec.TokenDepth Proofs.ParserProofs Proofs.TreeShape Proofs.WriterCursor Proofs.AstWriterDepth Proofs.FmtLineEnd.

(* ---------- the nesting counter is the reference depth ----------
   Spec/TokenDepth.v token_depth ts i: the number of blocks and brackets open at token i of the input, by the rules of
   the reference reader Spec/FmtShape.v (written from the manuals; tok_depth_at_agrees / tok_depth_after_agrees: the
   same function on tokens).  One computable exclusion on the tree (Proofs/AstWriterDepth.v):
     no_trailing_sep  no table constructor with a trailing field separator `{1,2,}` (the writer writes it after leaving the
                      table's level: C10_indent_trailing_sep_refuted below)
   and one check on the white-space / comment tokens (Proofs/FmtLineEnd.v):
     trivia_tidy      a token that is not a newline token does not end a line: no CR / LF byte of its code is followed by
                      blanks only up to the end of the code (picotool's lexer: spaces are [ \t]+, `--` / `//` comments stop
                      before the line end, block comments end in `]]`) - so that a token begins a line of the output only
                      after a white-space run that holds a newline token.
   A one-line `if (c) .. else ..` is no exclusion: the writer's counter is one above the reference depth at its `else` and
   inside its else part, but everything after the condition of a one-line if lies on the same line (the parser's fence:
   C08_shortif_fence), so no such token follows a run with a newline token. *)

(* every non-empty white-space run the writer hands to _get_code_for_spaces that ends before the end of the token list
   ends at a significant token i, and - if it holds a newline token, i.e. if token i can begin a line - it is passed
   _indent = token_depth ts i *)
Theorem C10_indent_link : forall ts root e,
  lua_parse ts = Ok (root, e) -> consumed ts e = true -> writable ts root = true ->
  no_trailing_sep root = true ->
  exists cs, writer_chunks ts (view root) = Ok (cs, zlen ts) /\
    forall s ind at_end run, In (Trivia s ind at_end run) cs -> run <> [] -> s + zlen run < zlen ts ->
      sigb ts (s + zlen run) = true /\ (existsb is_newline run = true -> ind = token_depth ts (s + zlen run)).
Proof. exact program_depth. Qed.
Print Assumptions C10_indent_link.

(* a white-space run whose formatted text ends in "line feed, blanks" holds a newline token (for tidy tokens) *)
Theorem C10_line_start_needs_newline : forall w s ind (run : list token) p q,
  Forall (fun t => is_newline t = true \/ ends_line (tcode t) = false) run ->
  fmt_spaces w s ind false run = p ++ NL :: q -> noNL q -> forallb is_sp q = true ->
  existsb is_newline run = true.
Proof. exact tidy_run_newline. Qed.
Print Assumptions C10_line_start_needs_newline.

(* C10's indentation clause for whole programs: a code token (token i of the input) that begins a line of luafmt's output
   is preceded by exactly indentwidth x (number of blocks and brackets open at token i) spaces *)
Theorem C10_indent : forall ts w root e,
  lua_parse ts = Ok (root, e) -> consumed ts e = true -> writable ts root = true -> codes_tidy ts = true ->
  trivia_tidy ts = true -> no_trailing_sep root = true ->
  exists cs, writer_text (fmt_spaces w) ts (view root) = Ok (chunks_text (fmt_spaces w) cs) /\ codes_of cs = sig_codes ts 0 /\
    forall A i text B p q, cs = A ++ Code i text :: B ->
      chunks_text (fmt_spaces w) A = p ++ NL :: q -> noNL q -> forallb is_sp q = true ->
      sigb ts i = true /\ 0 <= token_depth ts i /\ q = repeat SP (Z.to_nat w * Z.to_nat (token_depth ts i)).
Proof. exact program_indent. Qed.
Print Assumptions C10_indent.

(* non-vacuity: the example program above satisfies the exclusion and the check too; `x` (token 2) is at depth 1, `f` (token 11)
   at depth 2, `end` (token 18) at depth 0 *)
Example C10_indent_nonvacuous :
  exists root e, lua_parse C10_example_tokens = Ok (root, e) /\ consumed C10_example_tokens e = true /\
    writable C10_example_tokens root = true /\ codes_tidy C10_example_tokens = true /\
    trivia_tidy C10_example_tokens = true /\ no_trailing_sep root = true /\
    map (token_depth C10_example_tokens) [2; 11; 18] = [1; 2; 0].
Proof.
  eexists _, _. split; [vm_compute; reflexivity|]. repeat (split; [vm_compute; reflexivity|]). vm_compute. reflexivity.
Qed.

(* non-vacuity with a one-line if that has an else part (no_short_else is false), comments, runs of blank lines, tabs and
   trailing blanks: the two layouts (the lexer's tokens of)
       "-- head\nfunction f(a)\nif (a) x=1 else y=2 -- c\n\n\n\nt={1,\n2}\nend\n"
       "  -- head  \nfunction f(a)  \n\tif (a) x=1 else y=2 -- c \n  \n\n \n      t={1,\n  2}\t\n  end  \n"
   satisfy all hypotheses; in the second `if` (token 12) begins a line at depth 1, `t` (token 36) at depth 1, `2` (token 43)
   at depth 2, `end` (token 48) at depth 0; `else` (token 22) does not begin a line: the writer's counter there is 1, the
   reference depth 0. *)
Definition C10_layout1 : list token :=
  [mkTok CComment 0 [45; 45; 32; 104; 101; 97; 100] [45; 45; 32; 104; 101; 97; 100];
   mkTok CNewline 0 [10] [10];
   mkTok CKeyword 0 [102; 117; 110; 99; 116; 105; 111; 110] [102; 117; 110; 99; 116; 105; 111; 110];
   mkTok CSpace 0 [32] [32];
   mkTok CName 0 [102] [102];
   mkTok CSymbol 0 [40] [40];
   mkTok CName 0 [97] [97];
   mkTok CSymbol 0 [41] [41];
   mkTok CNewline 0 [10] [10];
   mkTok CKeyword 0 [105; 102] [105; 102];
   mkTok CSpace 0 [32] [32];
   mkTok CSymbol 0 [40] [40];
   mkTok CName 0 [97] [97];
   mkTok CSymbol 0 [41] [41];
   mkTok CSpace 0 [32] [32];
   mkTok CName 0 [120] [120];
   mkTok CSymbol 0 [61] [61];
   mkTok CNumber 0 [49] [49];
   mkTok CSpace 0 [32] [32];
   mkTok CKeyword 0 [101; 108; 115; 101] [101; 108; 115; 101];
   mkTok CSpace 0 [32] [32];
   mkTok CName 0 [121] [121];
   mkTok CSymbol 0 [61] [61];
   mkTok CNumber 0 [50] [50];
   mkTok CSpace 0 [32] [32];
   mkTok CComment 0 [45; 45; 32; 99] [45; 45; 32; 99];
   mkTok CNewline 0 [10] [10];
   mkTok CNewline 0 [10] [10];
   mkTok CNewline 0 [10] [10];
   mkTok CNewline 0 [10] [10];
   mkTok CName 0 [116] [116];
   mkTok CSymbol 0 [61] [61];
   mkTok CSymbol 0 [123] [123];
   mkTok CNumber 0 [49] [49];
   mkTok CSymbol 0 [44] [44];
   mkTok CNewline 0 [10] [10];
   mkTok CNumber 0 [50] [50];
   mkTok CSymbol 0 [125] [125];
   mkTok CNewline 0 [10] [10];
   mkTok CKeyword 0 [101; 110; 100] [101; 110; 100];
   mkTok CNewline 0 [10] [10]].

Definition C10_layout2 : list token :=
  [mkTok CSpace 0 [32; 32] [32; 32];
   mkTok CComment 0 [45; 45; 32; 104; 101; 97; 100; 32; 32] [45; 45; 32; 104; 101; 97; 100; 32; 32];
   mkTok CNewline 0 [10] [10];
   mkTok CKeyword 0 [102; 117; 110; 99; 116; 105; 111; 110] [102; 117; 110; 99; 116; 105; 111; 110];
   mkTok CSpace 0 [32] [32];
   mkTok CName 0 [102] [102];
   mkTok CSymbol 0 [40] [40];
   mkTok CName 0 [97] [97];
   mkTok CSymbol 0 [41] [41];
   mkTok CSpace 0 [32; 32] [32; 32];
   mkTok CNewline 0 [10] [10];
   mkTok CSpace 0 [9] [9];
   mkTok CKeyword 0 [105; 102] [105; 102];
   mkTok CSpace 0 [32] [32];
   mkTok CSymbol 0 [40] [40];
   mkTok CName 0 [97] [97];
   mkTok CSymbol 0 [41] [41];
   mkTok CSpace 0 [32] [32];
   mkTok CName 0 [120] [120];
   mkTok CSymbol 0 [61] [61];
   mkTok CNumber 0 [49] [49];
   mkTok CSpace 0 [32] [32];
   mkTok CKeyword 0 [101; 108; 115; 101] [101; 108; 115; 101];
   mkTok CSpace 0 [32] [32];
   mkTok CName 0 [121] [121];
   mkTok CSymbol 0 [61] [61];
   mkTok CNumber 0 [50] [50];
   mkTok CSpace 0 [32] [32];
   mkTok CComment 0 [45; 45; 32; 99; 32] [45; 45; 32; 99; 32];
   mkTok CNewline 0 [10] [10];
   mkTok CSpace 0 [32; 32] [32; 32];
   mkTok CNewline 0 [10] [10];
   mkTok CNewline 0 [10] [10];
   mkTok CSpace 0 [32] [32];
   mkTok CNewline 0 [10] [10];
   mkTok CSpace 0 [32; 32; 32; 32; 32; 32] [32; 32; 32; 32; 32; 32];
   mkTok CName 0 [116] [116];
   mkTok CSymbol 0 [61] [61];
   mkTok CSymbol 0 [123] [123];
   mkTok CNumber 0 [49] [49];
   mkTok CSymbol 0 [44] [44];
   mkTok CNewline 0 [10] [10];
   mkTok CSpace 0 [32; 32] [32; 32];
   mkTok CNumber 0 [50] [50];
   mkTok CSymbol 0 [125] [125];
   mkTok CSpace 0 [9] [9];
   mkTok CNewline 0 [10] [10];
   mkTok CSpace 0 [32; 32] [32; 32];
   mkTok CKeyword 0 [101; 110; 100] [101; 110; 100];
   mkTok CSpace 0 [32; 32] [32; 32];
   mkTok CNewline 0 [10] [10]].

Example C10_indent_short_else_nonvacuous :
  exists root e, lua_parse C10_layout2 = Ok (root, e) /\ consumed C10_layout2 e = true /\
    writable C10_layout2 root = true /\ codes_tidy C10_layout2 = true /\
    trivia_tidy C10_layout2 = true /\ no_trailing_sep root = true /\ no_short_else root = false /\
    map (token_depth C10_layout2) [12; 36; 43; 48; 22] = [1; 1; 2; 0; 0] /\
    writer_text (fmt_spaces 2) C10_layout2 (view root) = Ok ("-- head
function f(a)
  if (a) x=1 else y=2  -- c

  t={1,
    2}
end
"%bs : list Z).
Proof.
  eexists _, _. split; [vm_compute; reflexivity|]. repeat (split; [vm_compute; reflexivity|]). vm_compute. reflexivity.
Qed.

(* the exclusion no_trailing_sep is needed: `x={1 / ,}` is inside the domain of C10_shape, the `,` (token 5, reference
   depth 1) begins a line of the output at column 0 (real luafmt: the same text) *)
Definition C10_trailing_sep_tokens : list token :=
  [mkTok CName 0 [120] [120];
   mkTok CSymbol 0 [61] [61];
   mkTok CSymbol 0 [123] [123];
   mkTok CNumber 0 [49] [49];
   mkTok CNewline 0 [10] [10];
   mkTok CSymbol 0 [44] [44];
   mkTok CSymbol 0 [125] [125];
   mkTok CNewline 0 [10] [10]].

Example C10_indent_trailing_sep_refuted :
  exists root e, lua_parse C10_trailing_sep_tokens = Ok (root, e) /\ consumed C10_trailing_sep_tokens e = true /\
    writable C10_trailing_sep_tokens root = true /\ codes_tidy C10_trailing_sep_tokens = true /\
    trivia_tidy C10_trailing_sep_tokens = true /\ no_trailing_sep root = false /\
    token_depth C10_trailing_sep_tokens 5 = 1 /\
    writer_text (fmt_spaces 2) C10_trailing_sep_tokens (view root) = Ok ("x={1
,}
"%bs : list Z).
Proof.
  eexists _, _. split; [vm_compute; reflexivity|]. repeat (split; [vm_compute; reflexivity|]). vm_compute. reflexivity.
Qed.

(* the check trivia_tidy is needed (for token lists the lexer never produces): with a comment token whose code ends in a line
   feed inside the else part of a one-line if - `do / if (a) x=1 else --c<LF>y=2 / end`, the newline token after `2` is the fence -
   `y` (token 15, reference depth 1) begins a line of the output at 2 x 2 spaces: the writer's counter in the else part *)
Definition C10_untidy_comment_tokens : list token :=
  [mkTok CKeyword 0 "do"%bs "do"%bs; mkTok CNewline 0 [10] [10];
   mkTok CKeyword 0 "if"%bs "if"%bs; mkTok CSpace 0 [32] [32]; mkTok CSymbol 0 [40] [40]; mkTok CName 0 [97] [97]; mkTok CSymbol 0 [41] [41];
   mkTok CSpace 0 [32] [32]; mkTok CName 0 [120] [120]; mkTok CSymbol 0 [61] [61]; mkTok CNumber 0 [49] [49]; mkTok CSpace 0 [32] [32];
   mkTok CKeyword 0 "else"%bs "else"%bs; mkTok CSpace 0 [32] [32]; mkTok CComment 0 [45; 45; 99; 10] [45; 45; 99; 10];
   mkTok CName 0 [121] [121]; mkTok CSymbol 0 [61] [61]; mkTok CNumber 0 [50] [50]; mkTok CNewline 0 [10] [10];
   mkTok CKeyword 0 "end"%bs "end"%bs; mkTok CNewline 0 [10] [10]].

Example C10_indent_untidy_comment_refuted :
  exists root e, lua_parse C10_untidy_comment_tokens = Ok (root, e) /\ consumed C10_untidy_comment_tokens e = true /\
    writable C10_untidy_comment_tokens root = true /\ codes_tidy C10_untidy_comment_tokens = true /\
    trivia_tidy C10_untidy_comment_tokens = false /\ no_trailing_sep root = true /\
    token_depth C10_untidy_comment_tokens 15 = 1 /\
    writer_text (fmt_spaces 2) C10_untidy_comment_tokens (view root) = Ok ("do
  if (a) x=1 else  --c
    y=2
end
"%bs : list Z).
Proof.
  eexists _, _. split; [vm_compute; reflexivity|]. repeat (split; [vm_compute; reflexivity|]). vm_compute. reflexivity.
Qed.

(* the first line: a prefix of luafmt's output (up to a chunk boundary) that consists of blanks only and holds no line feed is
   empty - whatever begins the first line of the file (a code token or a comment) sits at column 0
   (hypotheses as C10_shape; non-vacuity: C10_program_nonvacuous) *)
Theorem C10_first_line : forall ts w root e,
  lua_parse ts = Ok (root, e) -> consumed ts e = true -> writable ts root = true -> codes_tidy ts = true ->
  exists cs, writer_text (fmt_spaces w) ts (view root) = Ok (chunks_text (fmt_spaces w) cs) /\ codes_of cs = sig_codes ts 0 /\
    forall A B, cs = A ++ B -> noNL (chunks_text (fmt_spaces w) A) -> forallb is_sp (chunks_text (fmt_spaces w) A) = true ->
      chunks_text (fmt_spaces w) A = [].
Proof. exact program_first_line. Qed.
Print Assumptions C10_first_line.

(* the end of the output: the formatted program is empty, or a single line feed, or ends in a byte that is neither blank nor line
   feed followed by at most one line feed - no blank lines and no blanks at the end (hypotheses as C10_shape; the run that ends the
   file is formatted with at_end: C10_run_end_of_file; what precedes it ends in a code token) *)
Theorem C10_no_blank_lines_at_end : forall ts w root e,
  lua_parse ts = Ok (root, e) -> consumed ts e = true -> writable ts root = true -> codes_tidy ts = true ->
  exists out, writer_text (fmt_spaces w) ts (view root) = Ok out /\
    (out = [] \/ out = [NL] \/ exists a c, is_sp_nl c = false /\ (out = a ++ [c] \/ out = a ++ [c; NL])).
Proof. exact program_end. Qed.
Print Assumptions C10_no_blank_lines_at_end.

(* non-vacuity: `x=1` followed by two blank lines (one with blanks) and blanks without a final newline is written `x=1` + line feed *)
Example C10_end_nonvacuous :
  let ts := [mkTok CName 0 [120] [120]; mkTok CSymbol 0 [61] [61]; mkTok CNumber 0 [49] [49]; mkTok CNewline 0 [10] [10];
             mkTok CNewline 0 [10] [10]; mkTok CSpace 0 [32; 32] [32; 32]; mkTok CNewline 0 [10] [10]; mkTok CSpace 0 [32; 9] [32; 9]] in
  exists root e, lua_parse ts = Ok (root, e) /\ consumed ts e = true /\ writable ts root = true /\ codes_tidy ts = true /\
    writer_text (fmt_spaces 2) ts (view root) = Ok [120; 61; 49; NL].
Proof.
  cbv zeta. eexists _, _. split; [vm_compute; reflexivity|]. repeat (split; [vm_compute; reflexivity|]). vm_compute. reflexivity.
Qed.

From PV Require Import Spec.FmtShape Spec.ReindentSpec Proofs.AstWriterReindent.

(* ---------- luafmt's output as a function of the token list; re-indentation invariance of whole programs ----------
   Spec/ReindentSpec.v (token level, written from the property text):
     segs ts               the token list cut at its significant tokens (the run before the first one, then each with the run after it)
     ref_fmt G ts          every significant token with its own code; the run in front of a token rewritten by G knowing only whether
                           it begins the file, whether it ends the file, and the number of blocks and brackets open at the token
                           (depth rules of Spec/TokenDepth.v folded along the significant tokens; 0 for the run that ends the file)
     layout_equiv R        the same significant tokens in the same order, the runs at corresponding places related by R at_start at_end
   Instances (Proofs/AstWriterReindent.v): gap_fmt w = the re.sub pipeline fmt_run; run_norm_rel = the relation of
   C10_run_depends_on_norm / C10_run_depends_on_norm_end on the joined codes of the runs (equal after canon_ws and the removal of the
   blanks at the edges of lines; comments are part of the runs); reindent_equiv = layout_equiv run_norm_rel.
   One more computable check on the token list: gaps_tidy - a run without a newline token holds no CR / LF byte at all (no
   multi-line block comment in the middle of a line): the text of such a run does not depend on the nesting counter, which inside a
   one-line if is not the reference depth. *)

(* inside the writer's domain luafmt writes exactly ref_fmt (gap_fmt w) ts *)
Theorem C10_output_form : forall ts w root e,
  lua_parse ts = Ok (root, e) -> consumed ts e = true -> writable ts root = true ->
  no_trailing_sep root = true -> gaps_tidy ts = true ->
  writer_text (fmt_spaces w) ts (view root) = Ok (ref_fmt (gap_fmt w) ts).
Proof. exact program_ref_fmt. Qed.
Print Assumptions C10_output_form.

(* the reference formatter does not see line-edge white space *)
Theorem C10_ref_fmt_reindent : forall w ts1 ts2, reindent_equiv ts1 ts2 -> ref_fmt (gap_fmt w) ts1 = ref_fmt (gap_fmt w) ts2.
Proof. exact ref_fmt_reindent. Qed.
Print Assumptions C10_ref_fmt_reindent.

(* C10's re-indentation clause for whole programs: two token lists inside the domain that are the same program with the same line
   breaks, differing only in white space at the edges of lines, are formatted to the same text *)
Theorem C10_reindent_invariant : forall w ts1 ts2 root1 e1 root2 e2,
  lua_parse ts1 = Ok (root1, e1) -> consumed ts1 e1 = true -> writable ts1 root1 = true ->
  no_trailing_sep root1 = true -> gaps_tidy ts1 = true ->
  lua_parse ts2 = Ok (root2, e2) -> consumed ts2 e2 = true -> writable ts2 root2 = true ->
  no_trailing_sep root2 = true -> gaps_tidy ts2 = true ->
  reindent_equiv ts1 ts2 ->
  writer_text (fmt_spaces w) ts1 (view root1) = writer_text (fmt_spaces w) ts2 (view root2).
Proof. exact program_reindent. Qed.
Print Assumptions C10_reindent_invariant.

(* non-vacuity: the two layouts of C10_indent_short_else_nonvacuous (nested program with a one-line if with else, a comment line, a
   trailing comment, a run of blank lines some with blanks, tabs, trailing blanks) are different token lists, related by
   reindent_equiv, both inside the domain, and formatted to the same text; their source texts are related by the byte-level reference
   relation same_modulo_line_edges of Spec/FmtShape.v (which the monitor evaluates on real luafmt runs) *)
Example C10_reindent_nonvacuous :
  C10_layout1 <> C10_layout2 /\ reindent_equiv C10_layout1 C10_layout2 /\
  same_modulo_line_edges (flat_map tcode C10_layout1) (flat_map tcode C10_layout2) = Some true /\
  gaps_tidy C10_layout1 = true /\ gaps_tidy C10_layout2 = true /\
  exists root1 e1 root2 e2,
    lua_parse C10_layout1 = Ok (root1, e1) /\ consumed C10_layout1 e1 = true /\ writable C10_layout1 root1 = true /\
    no_trailing_sep root1 = true /\
    lua_parse C10_layout2 = Ok (root2, e2) /\ consumed C10_layout2 e2 = true /\ writable C10_layout2 root2 = true /\
    no_trailing_sep root2 = true /\
    writer_text (fmt_spaces 2) C10_layout1 (view root1) = writer_text (fmt_spaces 2) C10_layout2 (view root2) /\
    writer_text (fmt_spaces 2) C10_layout1 (view root1) = Ok (ref_fmt (gap_fmt 2) C10_layout1).
Proof.
  split; [discriminate|]. split; [vm_compute; repeat split; reflexivity|]. split; [vm_compute; reflexivity|].
  split; [vm_compute; reflexivity|]. split; [vm_compute; reflexivity|].
  eexists _, _, _, _. split; [vm_compute; reflexivity|]. repeat (split; [vm_compute; reflexivity|]). vm_compute. reflexivity.
Qed.

(* ---------- formatting already formatted code changes nothing (token level) ----------
   formatted_as G ts ts' (Spec/ReindentSpec.v): ts' has the significant tokens of ts, and every run of ts' is spelled (joined codes)
   as G rewrites the run of ts at the same place - ts' is "the formatted ts", re-read.  Then the text of ts' is ref_fmt G ts, and
   ref_fmt G leaves it alone (C10_run_idempotent run by run); with C10_output_form: a token list inside the domain that is spelled as
   the reference formatting of some token list is written back byte for byte.  Missing for the property's clause on texts: that
   lexing luafmt's output gives such a token list (the lexer on written text; worker lexer). *)
Theorem C10_formatted_fixed : forall w ts ts', formatted_as (gap_fmt w) ts ts' ->
  flat_map tcode ts' = ref_fmt (gap_fmt w) ts /\ ref_fmt (gap_fmt w) ts' = ref_fmt (gap_fmt w) ts.
Proof. exact ref_fmt_idem. Qed.
Print Assumptions C10_formatted_fixed.

Theorem C10_idempotent_tokens : forall w ts ts' root' e',
  lua_parse ts' = Ok (root', e') -> consumed ts' e' = true -> writable ts' root' = true ->
  no_trailing_sep root' = true -> gaps_tidy ts' = true ->
  formatted_as (gap_fmt w) ts ts' ->
  writer_text (fmt_spaces w) ts' (view root') = Ok (flat_map tcode ts').
Proof. exact program_idempotent. Qed.
Print Assumptions C10_idempotent_tokens.

(* non-vacuity: the lexer's tokens of the text luafmt (width 2) writes for C10_layout1 / C10_layout2 are formatted_as both
   layouts, inside the domain, and written back unchanged *)
Definition C10_layout_formatted : list token :=
  [mkTok CComment 0 [45; 45; 32; 104; 101; 97; 100] [45; 45; 32; 104; 101; 97; 100];
   mkTok CNewline 0 [10] [10];
   mkTok CKeyword 0 [102; 117; 110; 99; 116; 105; 111; 110] [102; 117; 110; 99; 116; 105; 111; 110];
   mkTok CSpace 0 [32] [32];
   mkTok CName 0 [102] [102];
   mkTok CSymbol 0 [40] [40];
   mkTok CName 0 [97] [97];
   mkTok CSymbol 0 [41] [41];
   mkTok CNewline 0 [10] [10];
   mkTok CSpace 0 [32; 32] [32; 32];
   mkTok CKeyword 0 [105; 102] [105; 102];
   mkTok CSpace 0 [32] [32];
   mkTok CSymbol 0 [40] [40];
   mkTok CName 0 [97] [97];
   mkTok CSymbol 0 [41] [41];
   mkTok CSpace 0 [32] [32];
   mkTok CName 0 [120] [120];
   mkTok CSymbol 0 [61] [61];
   mkTok CNumber 0 [49] [49];
   mkTok CSpace 0 [32] [32];
   mkTok CKeyword 0 [101; 108; 115; 101] [101; 108; 115; 101];
   mkTok CSpace 0 [32] [32];
   mkTok CName 0 [121] [121];
   mkTok CSymbol 0 [61] [61];
   mkTok CNumber 0 [50] [50];
   mkTok CSpace 0 [32; 32] [32; 32];
   mkTok CComment 0 [45; 45; 32; 99] [45; 45; 32; 99];
   mkTok CNewline 0 [10] [10];
   mkTok CNewline 0 [10] [10];
   mkTok CSpace 0 [32; 32] [32; 32];
   mkTok CName 0 [116] [116];
   mkTok CSymbol 0 [61] [61];
   mkTok CSymbol 0 [123] [123];
   mkTok CNumber 0 [49] [49];
   mkTok CSymbol 0 [44] [44];
   mkTok CNewline 0 [10] [10];
   mkTok CSpace 0 [32; 32; 32; 32] [32; 32; 32; 32];
   mkTok CNumber 0 [50] [50];
   mkTok CSymbol 0 [125] [125];
   mkTok CNewline 0 [10] [10];
   mkTok CKeyword 0 [101; 110; 100] [101; 110; 100];
   mkTok CNewline 0 [10] [10]].

Example C10_idempotent_nonvacuous :
  formatted_as (gap_fmt 2) C10_layout1 C10_layout_formatted /\ formatted_as (gap_fmt 2) C10_layout2 C10_layout_formatted /\
  gaps_tidy C10_layout_formatted = true /\
  exists root e, lua_parse C10_layout_formatted = Ok (root, e) /\ consumed C10_layout_formatted e = true /\
    writable C10_layout_formatted root = true /\ no_trailing_sep root = true /\
    writer_text (fmt_spaces 2) C10_layout_formatted (view root) = Ok (flat_map tcode C10_layout_formatted) /\
    (exists root2 e2, lua_parse C10_layout2 = Ok (root2, e2) /\
       writer_text (fmt_spaces 2) C10_layout2 (view root2) = Ok (flat_map tcode C10_layout_formatted)).
Proof.
  split; [vm_compute; repeat split; reflexivity|]. split; [vm_compute; repeat split; reflexivity|]. split; [vm_compute; reflexivity|].
  eexists _, _. split; [vm_compute; reflexivity|]. repeat (split; [vm_compute; reflexivity|]).
  eexists _, _. split; vm_compute; reflexivity.
Qed.

(* ------------------------------------------------------------------ formatting formatted code changes nothing: texts *)
From PV Require Spec.LuaLex Model.Lexer Model.LexToken Proofs.FmtRelexIdem.

(* C10's idempotence clause for whole programs, from source bytes, for the models (lexer model, parser model, writer model):
   for a byte string src of the reference dialect (Spec/LuaLex.v), lts its tokens (lexer model; C07: the reference tokens), seen by
   the parser as ts = map lex_token lts, read to the end by the parser model, tree inside the writer's domain, no trailing table
   separator, gaps_tidy: luafmt (any indent width w) writes a text out = ref_fmt (gap_fmt w) ts (C10_output_form); out is again a
   byte string of the reference dialect; the lexer model reads it into lts'; the token list ts' = map lex_token lts' is
   formatted_as (gap_fmt w) ts ts' - the same significant tokens (class, delimiter, data, code) and every run spelled as the
   pipeline spells the run of ts at the same place - and gaps_tidy again; and WHENEVER the parser model reads ts' to the end with a
   tree inside the domain and without trailing table separator (the parser on re-spaced tokens is not part of this theorem),
   luafmt writes exactly out again.  No exclusion of one-line ifs (the depth passed inside them does not matter: gaps_tidy).
   Proof: Proofs/FmtRelexIdem.v - ref_fmt is a rendering in the sense of Proofs/FmtRelexMain.v (rend_ref), so the re-lexing theorem
   behind C09_same_code applies and returns the layout relation rr; rr_spelled turns it into formatted_as (norm_same_token: a
   re-read code token is the token it was written from); then C10_idempotent_tokens. *)
Theorem C10_idempotent : forall w src ss lts root e,
  Forall byte src -> LuaLex.spec_lex src = Some ss -> Lexer.model_lex [src] = Ok lts ->
  lua_parse (map LexToken.lex_token lts) = Ok (root, e) -> consumed (map LexToken.lex_token lts) e = true ->
  writable (map LexToken.lex_token lts) root = true -> no_trailing_sep root = true -> gaps_tidy (map LexToken.lex_token lts) = true ->
  exists out ss' lts',
    writer_text (fmt_spaces w) (map LexToken.lex_token lts) (view root) = Ok out /\ Forall byte out /\
    LuaLex.spec_lex out = Some ss' /\ Lexer.model_lex [out] = Ok lts' /\
    formatted_as (gap_fmt w) (map LexToken.lex_token lts) (map LexToken.lex_token lts') /\
    gaps_tidy (map LexToken.lex_token lts') = true /\
    forall root' e',
      lua_parse (map LexToken.lex_token lts') = Ok (root', e') -> consumed (map LexToken.lex_token lts') e' = true ->
      writable (map LexToken.lex_token lts') root' = true -> no_trailing_sep root' = true ->
      writer_text (fmt_spaces w) (map LexToken.lex_token lts') (view root') = Ok out.
Proof. exact FmtRelexIdem.luafmt_idempotent. Qed.
Print Assumptions C10_idempotent.

(* non-vacuity: a badly indented function with a table constructor over two lines, a one-line if WITH else, two blank lines,
   comments of all three kinds (the block comment over two lines, directly followed by code) and a tab: pass 1 changes the text;
   the written text is lexed and parsed again, lies in the domain, and pass 2 reproduces it *)
Definition C10_idem_src : list Z := unBS "-- header
function f(a)
    local t = {1,
  2}	-- tab
  if (a) x=-1 else x=2 // c2


   f""s""
  --[[ block
     comment ]] return a..b
end
"%bs.

Example C10_idempotent_text_nonvacuous :
  exists ss lts root e out lts' root' e',
    Forall byte C10_idem_src /\ LuaLex.spec_lex C10_idem_src = Some ss /\ Lexer.model_lex [C10_idem_src] = Ok lts /\
    lua_parse (map LexToken.lex_token lts) = Ok (root, e) /\ consumed (map LexToken.lex_token lts) e = true /\
    writable (map LexToken.lex_token lts) root = true /\ no_trailing_sep root = true /\ no_short_else root = false /\
    gaps_tidy (map LexToken.lex_token lts) = true /\
    writer_text (fmt_spaces 2) (map LexToken.lex_token lts) (view root) = Ok out /\ zlist_eqb out C10_idem_src = false /\
    Lexer.model_lex [out] = Ok lts' /\
    lua_parse (map LexToken.lex_token lts') = Ok (root', e') /\ consumed (map LexToken.lex_token lts') e' = true /\
    writable (map LexToken.lex_token lts') root' = true /\ no_trailing_sep root' = true /\
    writer_text (fmt_spaces 2) (map LexToken.lex_token lts') (view root') = Ok out.
Proof.
  eexists _, _, _, _, _, _, _, _. split.
  { apply Forall_forall. intros x Hx. apply byteb_spec. revert x Hx. apply forallb_forall. vm_compute. reflexivity. }
  repeat (split; [vm_compute; reflexivity|]). vm_compute. reflexivity.
Qed.

(* ------------------------------------------------------------------ the token-list checks, for lexer output; re-indentation from bytes *)
From PV Require Instances.HoldsC01 Proofs.FmtRelexReindent.

(* trivia_tidy is a fact about the lexer: the white-space / comment tokens of a source of the reference dialect never end a line *)
Theorem C10_lexer_trivia_tidy : forall src ss lts,
  Forall byte src -> LuaLex.spec_lex src = Some ss -> Lexer.model_lex [src] = Ok lts ->
  trivia_tidy (map LexToken.lex_token lts) = true.
Proof. exact FmtRelexReindent.lexer_trivia_tidy. Qed.
Print Assumptions C10_lexer_trivia_tidy.

(* C10_indent from source bytes (no trivia_tidy hypothesis; codes_tidy - no multi-line string - stays: it is not a fact about every source) *)
Theorem C10_indent_text : forall w src ss lts root e,
  Forall byte src -> LuaLex.spec_lex src = Some ss -> Lexer.model_lex [src] = Ok lts ->
  lua_parse (map LexToken.lex_token lts) = Ok (root, e) -> consumed (map LexToken.lex_token lts) e = true ->
  writable (map LexToken.lex_token lts) root = true -> codes_tidy (map LexToken.lex_token lts) = true -> no_trailing_sep root = true ->
  exists cs, writer_text (fmt_spaces w) (map LexToken.lex_token lts) (view root) = Ok (chunks_text (fmt_spaces w) cs) /\
    codes_of cs = sig_codes (map LexToken.lex_token lts) 0 /\
    forall A i text B p q, cs = A ++ Code i text :: B ->
      chunks_text (fmt_spaces w) A = p ++ NL :: q -> noNL q -> forallb is_sp q = true ->
      sigb (map LexToken.lex_token lts) i = true /\ 0 <= token_depth (map LexToken.lex_token lts) i /\
      q = repeat SP (Z.to_nat w * Z.to_nat (token_depth (map LexToken.lex_token lts) i)).
Proof. exact FmtRelexReindent.indent_text. Qed.
Print Assumptions C10_indent_text.

(* gaps_tidy is NOT a fact about every source of the dialect: a block comment over two lines in the middle of a line *)
Definition C10_gap_src : list Z := unBS "x=1 --[[a
b]] y=2
"%bs.
Example C10_gaps_tidy_not_for_every_source :
  exists ss lts, LuaLex.spec_lex C10_gap_src = Some ss /\ Lexer.model_lex [C10_gap_src] = Ok lts /\
                 gaps_tidy (map LexToken.lex_token lts) = false /\ trivia_tidy (map LexToken.lex_token lts) = true.
Proof. eexists _, _. split; [vm_compute; reflexivity|]. split; [vm_compute; reflexivity|]. split; vm_compute; reflexivity. Qed.

(* re-indentation invariance from source bytes, the relation between the two sources stated on their REFERENCE tokens
   (Proofs/FmtRelexReindent.v ref_reindent_equiv: the reference token lists of Spec/LuaLex.v, positions aside, have the same code
   tokens, and the source text of the runs at corresponding places agrees after the tab / line-end normalisation and the removal
   of the blanks at the edges of lines).  Then the lexer model's token lists are reindent_equiv (lexer_reindent_equiv: a parser
   token is determined by its reference token) and C10_reindent_invariant applies.
   MISSING for the byte-level clause with the monitor's relation: Spec.FmtShape.same_modulo_line_edges src1 src2 = Some true ->
   ref_reindent_equiv (the reference reader of Spec/FmtShape.v against the reference lexer of Spec/LuaLex.v: same comments and
   strings, same code stretches; and edge_norm against strip_line_edges o canon_ws).  Not proved; the Example below satisfies both. *)
Theorem C10_reindent_bytes_partial : forall w src1 ss1 lts1 root1 e1 src2 ss2 lts2 root2 e2,
  Forall byte src1 -> LuaLex.spec_lex src1 = Some ss1 -> Lexer.model_lex [src1] = Ok lts1 ->
  lua_parse (map LexToken.lex_token lts1) = Ok (root1, e1) -> consumed (map LexToken.lex_token lts1) e1 = true ->
  writable (map LexToken.lex_token lts1) root1 = true -> no_trailing_sep root1 = true -> gaps_tidy (map LexToken.lex_token lts1) = true ->
  Forall byte src2 -> LuaLex.spec_lex src2 = Some ss2 -> Lexer.model_lex [src2] = Ok lts2 ->
  lua_parse (map LexToken.lex_token lts2) = Ok (root2, e2) -> consumed (map LexToken.lex_token lts2) e2 = true ->
  writable (map LexToken.lex_token lts2) root2 = true -> no_trailing_sep root2 = true -> gaps_tidy (map LexToken.lex_token lts2) = true ->
  FmtRelexReindent.ref_reindent_equiv (map HoldsC01.unpos ss1) (map HoldsC01.unpos ss2) ->
  writer_text (fmt_spaces w) (map LexToken.lex_token lts1) (view root1) = writer_text (fmt_spaces w) (map LexToken.lex_token lts2) (view root2).
Proof. exact FmtRelexReindent.reindent_bytes_partial. Qed.
Print Assumptions C10_reindent_bytes_partial.

(* the lexer's token lists of two such sources are reindent_equiv *)
Theorem C10_lexer_reindent_equiv : forall src1 ss1 lts1 src2 ss2 lts2,
  Forall byte src1 -> LuaLex.spec_lex src1 = Some ss1 -> Lexer.model_lex [src1] = Ok lts1 ->
  Forall byte src2 -> LuaLex.spec_lex src2 = Some ss2 -> Lexer.model_lex [src2] = Ok lts2 ->
  FmtRelexReindent.ref_reindent_equiv (map HoldsC01.unpos ss1) (map HoldsC01.unpos ss2) ->
  reindent_equiv (map LexToken.lex_token lts1) (map LexToken.lex_token lts2).
Proof. exact FmtRelexReindent.lexer_reindent_equiv. Qed.
Print Assumptions C10_lexer_reindent_equiv.

(* non-vacuity: two layouts of a function with a one-line if with else, a comment, a blank line, tabs, trailing blanks (also after
   the comment), different indentation: different bytes, same_modulo_line_edges, ref_reindent_equiv, both inside the domain, same output *)
Definition C10_bytes1 : list Z := unBS "-- head
function f(a)
if (a) x=1 else x=2   -- c
  
		t={1,
2}
end
"%bs.
Definition C10_bytes2 : list Z := unBS "-- head  
  function f(a)
      if (a) x=1 else x=2   -- c   

t={1,
        2}  
end
"%bs.

Example C10_reindent_bytes_nonvacuous :
  exists ss1 lts1 root1 e1 ss2 lts2 root2 e2 out,
    zlist_eqb C10_bytes1 C10_bytes2 = false /\ FmtShape.same_modulo_line_edges C10_bytes1 C10_bytes2 = Some true /\
    LuaLex.spec_lex C10_bytes1 = Some ss1 /\ Lexer.model_lex [C10_bytes1] = Ok lts1 /\
    lua_parse (map LexToken.lex_token lts1) = Ok (root1, e1) /\ consumed (map LexToken.lex_token lts1) e1 = true /\
    writable (map LexToken.lex_token lts1) root1 = true /\ no_trailing_sep root1 = true /\ gaps_tidy (map LexToken.lex_token lts1) = true /\
    LuaLex.spec_lex C10_bytes2 = Some ss2 /\ Lexer.model_lex [C10_bytes2] = Ok lts2 /\
    lua_parse (map LexToken.lex_token lts2) = Ok (root2, e2) /\ consumed (map LexToken.lex_token lts2) e2 = true /\
    writable (map LexToken.lex_token lts2) root2 = true /\ no_trailing_sep root2 = true /\ gaps_tidy (map LexToken.lex_token lts2) = true /\
    FmtRelexReindent.ref_reindent_equiv (map HoldsC01.unpos ss1) (map HoldsC01.unpos ss2) /\
    writer_text (fmt_spaces 2) (map LexToken.lex_token lts1) (view root1) = Ok out /\
    writer_text (fmt_spaces 2) (map LexToken.lex_token lts2) (view root2) = Ok out.
Proof.
  eexists _, _, _, _, _, _, _, _, _.
  do 16 (split; [vm_compute; reflexivity|]). split; [vm_compute; repeat split; reflexivity|].
  split; vm_compute; reflexivity.
Qed.

(* ====================================================================== the byte-level bridge (worker lexer, Proofs/FmtShapeBridge*.v)
   The monitor's domain test for the re-indentation clause is Spec.FmtShape.same_modulo_line_edges src1 src2 = Some true (the coarse
   reference reader of the shape clauses: the same tokens after dropping blank tokens at the edges of lines, the trailing blanks of
   end-of-line comments, and writing every line end as LF).  C10_edges_to_ref_equiv: for two sources of the reference dialect that
   relation implies ref_reindent_equiv on the reference tokens of Spec/LuaLex.v, the hypothesis of C10_reindent_bytes_partial.  No
   restriction on the sources: strings and comments with blanks and line ends inside, numerals such as 1e-5, multi-byte operators, labels,
   CR LF against LF.  Route: both readers refine one skeleton reader (FmtShape.lex1 with every code token that is not a string cut down
   to its first byte), hence agree on where white space, line ends, comments and strings are (marks_agree); between two such places the
   code bytes of the two sources are the same and the full lexer reads the same tokens there (step_ctx; in front of differing white
   space sig_ctx_ws); FmtShape.edge_norm against strip_line_edges o canon_ws run by run (run_norm). *)
From PV Require Proofs.FmtShapeBridgeMain Proofs.FmtShapeBridgeTop.

Theorem C10_edges_to_ref_equiv : forall src1 src2 ss1 ss2,
  LuaLex.spec_lex src1 = Some ss1 -> LuaLex.spec_lex src2 = Some ss2 ->
  FmtShape.same_modulo_line_edges src1 src2 = Some true ->
  FmtRelexReindent.ref_reindent_equiv (map HoldsC01.unpos ss1) (map HoldsC01.unpos ss2).
Proof. exact FmtShapeBridgeMain.edges_to_ref_equiv. Qed.
Print Assumptions C10_edges_to_ref_equiv.

(* the two reference readers agree on the trivia structure of every text both accept: one mark per white-space / newline / comment token
   (with its bytes), one mark per byte of a code token *)
Theorem C10_readers_agree_on_trivia : forall s ts ss, FmtShape.lex s = Some ts -> LuaLexFacts.chain s ss ->
  FmtShapeBridge.marksF ts = FmtShapeBridge.marksS ss.
Proof. exact FmtShapeBridgeStep.marks_agree. Qed.
Print Assumptions C10_readers_agree_on_trivia.

(* C10, re-indentation clause from source bytes: "re-indenting or adding trailing spaces to input lines does not change the output".
   THE hypothesis relating the two sources is the monitor's: same_modulo_line_edges src1 src2 = Some true.  The others are the domain of
   C10_reindent_invariant on both sources: bytes, in the reference dialect, lexed by the lexer model, parsed to the end by the parser
   model, writable, no trailing table field separator, gaps_tidy. *)
Theorem C10_reindent_bytes : forall w src1 ss1 lts1 root1 e1 src2 ss2 lts2 root2 e2,
  Forall byte src1 -> LuaLex.spec_lex src1 = Some ss1 -> Lexer.model_lex [src1] = Ok lts1 ->
  lua_parse (map LexToken.lex_token lts1) = Ok (root1, e1) -> consumed (map LexToken.lex_token lts1) e1 = true ->
  writable (map LexToken.lex_token lts1) root1 = true -> no_trailing_sep root1 = true -> gaps_tidy (map LexToken.lex_token lts1) = true ->
  Forall byte src2 -> LuaLex.spec_lex src2 = Some ss2 -> Lexer.model_lex [src2] = Ok lts2 ->
  lua_parse (map LexToken.lex_token lts2) = Ok (root2, e2) -> consumed (map LexToken.lex_token lts2) e2 = true ->
  writable (map LexToken.lex_token lts2) root2 = true -> no_trailing_sep root2 = true -> gaps_tidy (map LexToken.lex_token lts2) = true ->
  FmtShape.same_modulo_line_edges src1 src2 = Some true ->
  writer_text (fmt_spaces w) (map LexToken.lex_token lts1) (view root1) = writer_text (fmt_spaces w) (map LexToken.lex_token lts2) (view root2).
Proof. exact FmtShapeBridgeTop.reindent_bytes. Qed.
Print Assumptions C10_reindent_bytes.

(* non-vacuity of the bridge: two layouts with a two-line block comment, a string with blanks, a long string over two lines, 1e-5, `..`,
   `~=`, `+=`, a label, `...`, `--` and `//` comments, tabs, trailing blanks; and CR LF against LF *)
Definition C10_bridge1 : list Z := unBS "--[[ block
   comment ]]  
function f(a,...)
	local s = ""a b  ""..[==[ long
  string ]==]
  if a ~= 1e-5 then  -- why  
    ::top:: x += .5 // c
  end
	
end
"%bs.
Definition C10_bridge2 : list Z := unBS "--[[ block
   comment ]]
    function f(a,...)
local s = ""a b  ""..[==[ long
  string ]==]   
if a ~= 1e-5 then  -- why
::top:: x += .5 // c	
end

   end  
"%bs.
Definition C10_bridge3 : list Z := unBS "x=1  "%bs ++ [13; 10] ++ unBS "  y=2"%bs ++ [13; 10].
Definition C10_bridge4 : list Z := unBS "x=1
y=2
"%bs.

Example C10_edges_to_ref_equiv_nonvacuous :
  (exists ss1 ss2, zlist_eqb C10_bridge1 C10_bridge2 = false /\ LuaLex.spec_lex C10_bridge1 = Some ss1 /\ LuaLex.spec_lex C10_bridge2 = Some ss2 /\
     length ss1 <> length ss2 /\ FmtShape.same_modulo_line_edges C10_bridge1 C10_bridge2 = Some true /\
     FmtRelexReindent.ref_reindent_equiv (map HoldsC01.unpos ss1) (map HoldsC01.unpos ss2)) /\
  (exists ss3 ss4, LuaLex.spec_lex C10_bridge3 = Some ss3 /\ LuaLex.spec_lex C10_bridge4 = Some ss4 /\
     FmtShape.same_modulo_line_edges C10_bridge3 C10_bridge4 = Some true /\
     FmtRelexReindent.ref_reindent_equiv (map HoldsC01.unpos ss3) (map HoldsC01.unpos ss4)).
Proof.
  split.
  - destruct (LuaLex.spec_lex C10_bridge1) as [ss1|] eqn:E1; [|vm_compute in E1; discriminate E1].
    destruct (LuaLex.spec_lex C10_bridge2) as [ss2|] eqn:E2; [|vm_compute in E2; discriminate E2].
    exists ss1, ss2. split; [vm_compute; reflexivity|]. split; [reflexivity|]. split; [reflexivity|].
    assert (He : FmtShape.same_modulo_line_edges C10_bridge1 C10_bridge2 = Some true) by (vm_compute; reflexivity).
    split; [|split; [exact He | exact (C10_edges_to_ref_equiv _ _ _ _ E1 E2 He)]].
    vm_compute in E1. vm_compute in E2. injection E1 as <-. injection E2 as <-. vm_compute. discriminate.
  - destruct (LuaLex.spec_lex C10_bridge3) as [ss3|] eqn:E3; [|vm_compute in E3; discriminate E3].
    destruct (LuaLex.spec_lex C10_bridge4) as [ss4|] eqn:E4; [|vm_compute in E4; discriminate E4].
    exists ss3, ss4. split; [reflexivity|]. split; [reflexivity|].
    assert (He : FmtShape.same_modulo_line_edges C10_bridge3 C10_bridge4 = Some true) by (vm_compute; reflexivity).
    split; [exact He | exact (C10_edges_to_ref_equiv _ _ _ _ E3 E4 He)].
Qed.

(* the two sources of C10_reindent_bytes_nonvacuous meet every hypothesis of C10_reindent_bytes (same_modulo_line_edges is its second
   conjunct), so the theorem applies to them: its conclusion, from the theorem *)
Example C10_reindent_bytes_applies : forall ss1 lts1 root1 e1 ss2 lts2 root2 e2,
  LuaLex.spec_lex C10_bytes1 = Some ss1 -> Lexer.model_lex [C10_bytes1] = Ok lts1 ->
  lua_parse (map LexToken.lex_token lts1) = Ok (root1, e1) -> consumed (map LexToken.lex_token lts1) e1 = true ->
  writable (map LexToken.lex_token lts1) root1 = true -> no_trailing_sep root1 = true -> gaps_tidy (map LexToken.lex_token lts1) = true ->
  LuaLex.spec_lex C10_bytes2 = Some ss2 -> Lexer.model_lex [C10_bytes2] = Ok lts2 ->
  lua_parse (map LexToken.lex_token lts2) = Ok (root2, e2) -> consumed (map LexToken.lex_token lts2) e2 = true ->
  writable (map LexToken.lex_token lts2) root2 = true -> no_trailing_sep root2 = true -> gaps_tidy (map LexToken.lex_token lts2) = true ->
  writer_text (fmt_spaces 2) (map LexToken.lex_token lts1) (view root1) = writer_text (fmt_spaces 2) (map LexToken.lex_token lts2) (view root2).
Proof.
  intros. eapply (C10_reindent_bytes 2 C10_bytes1 ss1 lts1 root1 e1 C10_bytes2 ss2 lts2 root2 e2); try eassumption.
  - apply all_bytes_Forall. vm_compute. reflexivity.
  - apply all_bytes_Forall. vm_compute. reflexivity.
  - vm_compute. reflexivity.
Qed.

(* ------------------------------------------------------------------ the whole-program theorems for valid programs *)
From PV Require Spec.LuaGrammar Proofs.ParserComplete2 Proofs.ValidDomain1 Proofs.ValidDomainLex Proofs.ValidDomainC10
  Proofs.ValidDomainIdem1 Proofs.ValidDomainIdem2.

(* The theorems above ask of the token list: parsed to its end, tree inside the writer domain, no trailing field separator.
   For a VALID program these follow from a derivation in the reference grammar (C09_valid_in_domain and its variant with
   g_no_trailing_sep, Proofs/ValidDomain6.v):
   vsrc src ss lts g  :=  src is a byte string of the reference dialect, lts its lexer tokens, g a derivation of them
     (Spec/LuaGrammar.v derives) with line_scoped, excl g (the side condition of C08_complete), g_no_paren_suffix g
     (finding C09-paren-suffix-assert) and g_no_trailing_sep g (no table constructor of the derivation ends in a field
     separator: the deviation C10_indent_trailing_sep_refuted).
   Left as hypotheses: gaps_tidy / codes_tidy of the token list (not facts about every source:
   C10_gaps_tidy_not_for_every_source). *)
Theorem C10_output_form_valid : forall w src ss lts g,
  ValidDomainC10.vsrc src ss lts g -> gaps_tidy (map LexToken.lex_token lts) = true ->
  exists root e, lua_parse (map LexToken.lex_token lts) = Ok (root, e) /\
    writer_text (fmt_spaces w) (map LexToken.lex_token lts) (view root) = Ok (ref_fmt (gap_fmt w) (map LexToken.lex_token lts)).
Proof. exact ValidDomainC10.output_form_valid. Qed.
Print Assumptions C10_output_form_valid.

(* indentation follows nesting, for every valid program: luafmt succeeds and every code token that begins a line of its
   output is preceded by exactly indentwidth x (blocks and brackets open at the token) spaces *)
Theorem C10_indent_valid : forall w src ss lts g,
  ValidDomainC10.vsrc src ss lts g -> codes_tidy (map LexToken.lex_token lts) = true ->
  exists root e cs, lua_parse (map LexToken.lex_token lts) = Ok (root, e) /\
    writer_text (fmt_spaces w) (map LexToken.lex_token lts) (view root) = Ok (chunks_text (fmt_spaces w) cs) /\
    codes_of cs = sig_codes (map LexToken.lex_token lts) 0 /\
    forall A i text B p q, cs = A ++ Code i text :: B ->
      chunks_text (fmt_spaces w) A = p ++ NL :: q -> noNL q -> forallb is_sp q = true ->
      sigb (map LexToken.lex_token lts) i = true /\ 0 <= token_depth (map LexToken.lex_token lts) i /\
      q = repeat SP (Z.to_nat w * Z.to_nat (token_depth (map LexToken.lex_token lts) i)).
Proof. exact ValidDomainC10.indent_valid. Qed.
Print Assumptions C10_indent_valid.

(* re-indentation invariance for two valid programs: the hypotheses on both layouts are derivation facts *)
Theorem C10_reindent_invariant_valid : forall w src1 ss1 lts1 g1 src2 ss2 lts2 g2,
  ValidDomainC10.vsrc src1 ss1 lts1 g1 -> gaps_tidy (map LexToken.lex_token lts1) = true ->
  ValidDomainC10.vsrc src2 ss2 lts2 g2 -> gaps_tidy (map LexToken.lex_token lts2) = true ->
  reindent_equiv (map LexToken.lex_token lts1) (map LexToken.lex_token lts2) ->
  exists root1 e1 root2 e2 out,
    lua_parse (map LexToken.lex_token lts1) = Ok (root1, e1) /\ lua_parse (map LexToken.lex_token lts2) = Ok (root2, e2) /\
    writer_text (fmt_spaces w) (map LexToken.lex_token lts1) (view root1) = Ok out /\
    writer_text (fmt_spaces w) (map LexToken.lex_token lts2) (view root2) = Ok out.
Proof. exact ValidDomainC10.reindent_invariant_valid. Qed.
Print Assumptions C10_reindent_invariant_valid.

(* idempotence for valid programs, partial: the first pass needs no hypothesis about parser or writer; for the second pass
   the parser / domain hypotheses of C10_idempotent are replaced by ONE grammar fact: the re-lexed formatted text has a
   derivation (within the same conditions).  That it has one (the derivation of the input with its leaves re-indexed,
   ValidDomainIdem2.output_valid) turns this statement into C10_idempotent_valid below; the partial statement is kept because
   it applies to ANY derivation of the re-lexed text. *)
Theorem C10_idempotent_valid_partial : forall w src ss lts g,
  ValidDomainC10.vsrc src ss lts g -> gaps_tidy (map LexToken.lex_token lts) = true ->
  exists root e out ss' lts',
    lua_parse (map LexToken.lex_token lts) = Ok (root, e) /\
    writer_text (fmt_spaces w) (map LexToken.lex_token lts) (view root) = Ok out /\ Forall byte out /\
    LuaLex.spec_lex out = Some ss' /\ Lexer.model_lex [out] = Ok lts' /\
    formatted_as (gap_fmt w) (map LexToken.lex_token lts) (map LexToken.lex_token lts') /\
    gaps_tidy (map LexToken.lex_token lts') = true /\
    forall g', LuaGrammar.derives (map LexToken.lex_token lts') g' = true ->
      LuaGrammar.line_scoped (map LexToken.lex_token lts') g' = true -> ParserComplete2.excl g' = true ->
      ValidDomain1.g_no_paren_suffix g' = true -> ValidDomain1.g_no_trailing_sep g' = true ->
      exists root' e', lua_parse (map LexToken.lex_token lts') = Ok (root', e') /\
        writer_text (fmt_spaces w) (map LexToken.lex_token lts') (view root') = Ok out.
Proof. exact ValidDomainC10.idempotent_valid_partial. Qed.
Print Assumptions C10_idempotent_valid_partial.

(* idempotence for valid programs, in full: luafmt succeeds on a valid program with tidy gaps; the text it writes is lexed
   (reference lexer and lexer model) and parsed again, and the second pass writes the same text.  No hypothesis about the
   second pass is left.
   The derivation the partial theorem asks for is the one of the input with every leaf index i replaced by the index, in the
   re-lexed output, of the significant token with the same rank (Proofs/ValidDomainIdem1.v rename / reidx).  formatted_as keeps
   the significant tokens, so every grammar function succeeds on the renamed tree and stream when it succeeds on the original
   ones (ValidDomainIdem1.sim_all, induction over all the grammar functions of Spec/LuaGrammar.v); flags_ok, excl,
   g_no_paren_suffix, g_no_trailing_sep read only the shape; leaves_ok reads the token at a leaf; line_scoped is kept because
   nl_before is (C09_luafmt_holds): newline_in / line_ends_after between significant tokens are functions of the list of
   (significant index, nl_before flag) pairs, and the renaming is strictly monotone on significant indices
   (ValidDomainIdem2.v).  So the text luafmt writes for a valid program is again a valid program within the same conditions,
   with tidy gaps: ValidDomainIdem2.output_valid (vsrc out ss' lts' g' /\ gaps_tidy ts'; its Print Assumptions is in that
   file, to keep this one's compile time down). *)
Theorem C10_idempotent_valid : forall w src ss lts g,
  ValidDomainC10.vsrc src ss lts g -> gaps_tidy (map LexToken.lex_token lts) = true ->
  exists root e out ss' lts' root' e',
    lua_parse (map LexToken.lex_token lts) = Ok (root, e) /\
    writer_text (fmt_spaces w) (map LexToken.lex_token lts) (view root) = Ok out /\ Forall byte out /\
    LuaLex.spec_lex out = Some ss' /\ Lexer.model_lex [out] = Ok lts' /\
    lua_parse (map LexToken.lex_token lts') = Ok (root', e') /\
    writer_text (fmt_spaces w) (map LexToken.lex_token lts') (view root') = Ok out.
Proof. exact ValidDomainIdem2.idempotent_valid. Qed.
Print Assumptions C10_idempotent_valid.

(* non-vacuity: the program of C10_idempotent_text_nonvacuous (function, table over two lines, one-line if with else,
   comments of all kinds) satisfies vsrc with the derivation read off the parser model's tree, and the re-lexed output of
   pass 1 has a derivation within the same conditions *)
Definition C10_v_lts : list Lexer.tok := match Lexer.model_lex [C10_idem_src] with Ok l => l | Err _ => [] end.
Definition C10_v_g : tree :=
  match lua_parse (map LexToken.lex_token C10_v_lts) with Ok (root, _) => ValidDomainLex.deriv_of_tree root | Err _ => PNone end.
Definition C10_v_out : list Z :=
  match lua_parse (map LexToken.lex_token C10_v_lts) with
  | Ok (root, _) => match writer_text (fmt_spaces 2) (map LexToken.lex_token C10_v_lts) (view root) with Ok o => o | Err _ => [] end
  | Err _ => []
  end.
Definition C10_v_lts' : list Lexer.tok := match Lexer.model_lex [C10_v_out] with Ok l => l | Err _ => [] end.
Definition C10_v_g' : tree :=
  match lua_parse (map LexToken.lex_token C10_v_lts') with Ok (root, _) => ValidDomainLex.deriv_of_tree root | Err _ => PNone end.

Example C10_valid_nonvacuous :
  (exists ss, ValidDomainC10.vsrc C10_idem_src ss C10_v_lts C10_v_g) /\
  gaps_tidy (map LexToken.lex_token C10_v_lts) = true /\ codes_tidy (map LexToken.lex_token C10_v_lts) = true /\
  zlist_eqb C10_v_out C10_idem_src = false /\ Lexer.model_lex [C10_v_out] = Ok C10_v_lts' /\
  LuaGrammar.derives (map LexToken.lex_token C10_v_lts') C10_v_g' = true /\
  LuaGrammar.line_scoped (map LexToken.lex_token C10_v_lts') C10_v_g' = true /\
  ParserComplete2.excl C10_v_g' = true /\ ValidDomain1.g_no_paren_suffix C10_v_g' = true /\
  ValidDomain1.g_no_trailing_sep C10_v_g' = true.
Proof.
  split.
  { eexists. split.
    { apply Forall_forall. intros x Hx. apply byteb_spec. revert x Hx. apply forallb_forall. vm_compute. reflexivity. }
    split; [vm_compute; reflexivity|]. repeat (split; [vm_compute; reflexivity|]). vm_compute. reflexivity. }
  repeat (split; [vm_compute; reflexivity|]). vm_compute. reflexivity.
Qed.

(* C10_idempotent_valid applies to that program (width 2): its conclusion, from the theorem; the
   renamed derivation of the theorem is a derivation of the re-lexed output, by evaluation *)
Example C10_idempotent_valid_applies :
  (exists root e out ss' lts' root' e',
    lua_parse (map LexToken.lex_token C10_v_lts) = Ok (root, e) /\
    writer_text (fmt_spaces 2) (map LexToken.lex_token C10_v_lts) (view root) = Ok out /\ Forall byte out /\
    LuaLex.spec_lex out = Some ss' /\ Lexer.model_lex [out] = Ok lts' /\
    lua_parse (map LexToken.lex_token lts') = Ok (root', e') /\
    writer_text (fmt_spaces 2) (map LexToken.lex_token lts') (view root') = Ok out) /\
  LuaGrammar.derives (map LexToken.lex_token C10_v_lts')
    (ValidDomainIdem1.rename (ValidDomainIdem1.reidx (map LexToken.lex_token C10_v_lts) (map LexToken.lex_token C10_v_lts')) C10_v_g) = true /\
  LuaGrammar.line_scoped (map LexToken.lex_token C10_v_lts')
    (ValidDomainIdem1.rename (ValidDomainIdem1.reidx (map LexToken.lex_token C10_v_lts) (map LexToken.lex_token C10_v_lts')) C10_v_g) = true.
Proof.
  destruct C10_valid_nonvacuous as ((ss & Hv) & Hg & _).
  split; [exact (C10_idempotent_valid 2 _ ss _ _ Hv Hg)|]. split; vm_compute; reflexivity.
Qed.
