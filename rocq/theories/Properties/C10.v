(* C10 - luafmt output is canonical: indentation follows nesting, idempotent.

   Theorems about [fmt_run], the model (Model/FmtSpaces.v) of the re.sub pipeline of
   LuaFormatterWriter._get_code_for_spaces, for runs of EVERY length and every configuration
   (start of file or not, end of file or not, any indent width, any depth).  The regex sources, guards,
   replacement expressions and the text of the whole function are regenerated from lua.py on every run and
   pinned (the pin_ lemmas of Proofs/FmtSpacesProofs.v); the scanners are compared with Python's re on all short runs.
   The whole-program statements of C10 (re-indentation invariance, idempotence, indentation = width x
   depth) are evaluated by the extracted holds_C10 on real luafmt output (harness/props/c10.py); their
   proof at whole-writer level needs Model/AstWriter.v. *)
From PV Require Import Base.Prelude Model.FmtSpaces Generated.T_fmtspaces Proofs.FmtSpacesProofs Proofs.FmtLinesProofs.

(* the pipeline only moves white space: every other byte of the run (comment text) is kept, in order *)
Theorem C10_run_keeps_comment_text : forall cfg r, nonws (fmt_run cfg r) = nonws r.
Proof. exact fmt_run_nonws. Qed.
Print Assumptions C10_run_keeps_comment_text.

(* no line of the formatted run ends in a blank: nowhere in the output is a space followed by a line feed
   (tabs and carriage returns are gone after the first four substitutions) *)
Theorem C10_run_no_trailing_blank : forall cfg r, has_sp_nl (fmt_run cfg r) = false.
Proof. exact fmt_run_no_trailing_blank. Qed.
Print Assumptions C10_run_no_trailing_blank.

(* the token that follows the run: when the run's output ends in a line feed followed only by
   blanks, those blanks are exactly indentwidth x depth spaces *)
Theorem C10_run_indent : forall cfg r p q, f_at_end cfg = false ->
  fmt_run cfg r = p ++ NL :: q -> noNL q -> forallb is_sp q = true -> q = indent_bytes cfg.
Proof. exact fmt_run_indent. Qed.
Print Assumptions C10_run_indent.

Example C10_nonvacuous_S17 :
  fmt_run (mk_fcfg false false 2 1) [NL; NL] = [NL; NL; SP; SP].
Proof. vm_compute. reflexivity. Qed.
