(* C08 - the parser consumes every valid program entirely and builds the tree it denotes.
   Property theorems only; proofs live in Proofs/ParserProofs.v. *)
From PV Require Import Base.Prelude Model.Tokens Model.Parser Proofs.ParserProofs.

(* _accept never returns a token at or beyond the short-if fence, and leaves the cursor right after the token *)
Theorem C08_accept_fence : forall ts p st i t st',
  accept ts p st = Ok (Some (i, t), st') -> fence_ok (snd st) i = true /\ fst st' = i + 1.
Proof. exact accept_fence. Qed.
Print Assumptions C08_accept_fence.
