(* C08 - the parser consumes every valid program entirely and builds the tree it denotes.
   Property theorems only; proofs live in Proofs/ParserProofs.v, Proofs/ParserSpecs.v. *)
From PV Require Import Base.Prelude Model.Tokens Model.Parser Proofs.ParserProofs.

(* _accept: the token returned is the first significant token at or after the cursor, it lies before the
   short-if fence and the end of the input, and the cursor ends right after it; otherwise nothing moves *)
Theorem C08_accept : forall ts p q mx,
  pat_nontrivia p = true -> 0 <= q ->
  match accept ts p (q, mx) with
  | Ok (None, st) => st = (q, mx)
  | Ok (Some (i, t), st) =>
      st = (i + 1, mx) /\ q <= i /\ i < zlen ts /\ i < lim ts mx /\ [i] = sig ts q (i + 1) /\
      tok_at ts i = Some t /\ matches t p = true
  | Err _ => False
  end.
Proof. exact accept_spec. Qed.
Print Assumptions C08_accept.
