(* C08 - the parser consumes every valid program entirely and builds the tree it denotes.
   Property theorems only; proofs live in Proofs/ParserProofs.v, ParserSpecs.v, ParserTheorems.v.

   lua_parse ts  : the model of Parser.process_tokens (pico8/lua/parser.py) on the token list ts, with
                   BINOP_PATS / UNOP_PATS regenerated from the source; Ok (root, end position) or the
                   exception.  The tree carries a leaf for every token the parser accepted (Tok / Kw /
                   Paren / Hid, see Spec/LuaTokens.v).
   sig ts a b    : the indices in [a, b) of the tokens that are not white space, newlines or comments
   leaves t      : the token indices at the leaves of t, left to right (Spec/LuaGrammar.v)
   next_newline ts q : index of the first newline token at or after q (the number of tokens if none)
   The first four theorems are for every token list, valid program or not.  C08_complete is the completeness half:
   derives ts g / line_scoped ts g : g is a derivation of ts in the reference grammar (Spec/LuaGrammar.v: a well-formed
                   derivation tree - only if-nodes carry the short flag, token leaves carry the data of the token at
                   their index - that the grammar accepts and whose leaves are the significant tokens) laid out so that
                   every one-line if owns the rest of its line
   excl g        : the exclusions (Proofs/ParserComplete2.v, a computable predicate on the derivation alone):
                   a statement that starts with '(' directly follows a ';' or is the first statement of its block
                   (Lua's call ambiguity; the body of a one-line if counts as following its condition: `if (c) (f)()`
                   is the condition `(c)(f)()`); the body of a one-line if has a first item which is not a do-block
                   (known finding: `if (c) do` is read as `if (c) then`); the else part of a one-line if has at
                   least one statement (picotool drops an empty one)
   view root     : the Python-visible projection of the model's tree (Model/AstWriter.v), the tree the monitor reads *)
From PV Require Import Base.Prelude Spec.LuaTokens Spec.LuaGrammar Model.Tokens Model.Parser Model.ParserInst Model.AstWriter
  Proofs.ParserProofs Proofs.ParserSpecs Proofs.ParserTheorems Proofs.ParserComplete2 Proofs.ParserComplete6.

(* the recursion budget the model supplies (number of tokens + 2 levels) is never exhausted: OutOfFuel is not
   an outcome, so every result of the model is a result of the modelled recursive descent *)
Theorem C08_fuel : forall ts, lua_parse ts <> Err OutOfFuel.
Proof. intros ts H. pose proof (lua_parse_spec ts) as S. rewrite H in S. apply S. reflexivity. Qed.
Print Assumptions C08_fuel.

(* positions: the root is a Chunk spanning [0, end]; every node has start <= end <= the end of the node it
   is part of (ranges_ok is the predicate the monitor evaluates on the real parser's tree) *)
Theorem C08_ranges : forall ts root e, lua_parse ts = Ok (root, e) ->
  0 <= e <= zlen ts /\ (exists fs, root = Node tChunk 0 e false [Lst fs]) /\ ranges_ok e root = true.
Proof.
  intros ts root e H. pose proof (lua_parse_spec ts) as S. rewrite H in S. destruct S as (H1 & _ & H3 & H4).
  split; [exact H1|]. split; [exact H4 | exact (wf_ranges_ok ts root e H3)].
Qed.
Print Assumptions C08_ranges.

(* every significant token of the consumed range is accounted for by exactly one leaf of the tree, in
   source order - nothing inside [0, end) is skipped or read twice *)
Theorem C08_leaves : forall ts root e, lua_parse ts = Ok (root, e) -> leaves root = sig ts 0 e.
Proof. intros ts root e H. pose proof (lua_parse_spec ts) as S. rewrite H in S. apply S. Qed.
Print Assumptions C08_leaves.

Corollary C08_leaves_increasing : forall ts root e, lua_parse ts = Ok (root, e) -> increasing (leaves root) = true.
Proof. intros ts root e H. rewrite (C08_leaves ts root e H). apply increasing_sig. Qed.
Print Assumptions C08_leaves_increasing.

(* a short-form if never extends past the first newline token after its condition: its node has the shape
   [if; [(condition parts, block) ; else part]] and its end is at most the index of that newline, where
   cond_close is the index of the last token of the condition (the closing parenthesis) *)
Theorem C08_shortif_fence : forall ts root e, lua_parse ts = Ok (root, e) ->
  forall s en fs, In (Node tStatIf s en true fs) (nodes root) ->
  exists k pr ep, fs = [k; Lst (Lst pr :: ep)] /\ en <= next_newline ts (cond_close pr + 1).
Proof.
  intros ts root e H s en fs Hin. pose proof (lua_parse_spec ts) as S. rewrite H in S.
  destruct S as (_ & _ & Hw & _).
  destruct (wf_nodes ts root e Hw _ _ _ _ _ Hin) as (_ & _ & Hf). apply Hf; reflexivity.
Qed.
Print Assumptions C08_shortif_fence.

(* non-vacuity: `if (a) b=1 <newline> c=2` parses, the short-if ends before the newline (token 9) and the
   second assignment is a statement of the root *)
Example C08_nonvacuous :
  let sp := mkTok CSpace 0 " "%bs " "%bs in
  let nm c := mkTok CName 0 c c in
  let sy c := mkTok CSymbol 0 c c in
  let ts := [mkTok CKeyword 0 "if"%bs "if"%bs; sp; sy "("%bs; nm "a"%bs; sy ")"%bs; sp; nm "b"%bs; sy "="%bs;
             mkTok CNumber 0 "1"%bs "1"%bs; mkTok CNewline 0 [10] [10]; nm "c"%bs; sy "="%bs;
             mkTok CNumber 0 "2"%bs "2"%bs; mkTok CNewline 0 [10] [10]] in
  exists fs1 fs2 st2, lua_parse ts = Ok (Node tChunk 0 13 false [Lst [Node tStatIf 0 9 true fs1; st2]], 13) /\
                      st2 = Node tStatAssignment 9 13 false fs2.
Proof. cbv zeta. eexists _, _, _. split; vm_compute; reflexivity. Qed.

(* completeness: every program of the dialect (within the stated exclusions) is accepted, consumed to its last
   token, and the exposed tree is the one the derivation denotes - statement kinds, nesting, chains, lists, targets,
   operators and operands in source order, one-line ifs owning exactly their line *)
Theorem C08_complete : forall ts g,
  derives ts g = true -> line_scoped ts g = true -> excl g = true ->
  exists root e, lua_parse ts = Ok (root, e) /\ consumed ts e = true /\ denotes g (view root) = true.
Proof. exact parse_complete. Qed.
Print Assumptions C08_complete.

(* non-vacuity:  local t={1,x=2} / if (t.x) f(t) else y=-t[1]+2 / for i=1,3 do t.x+=i end / return t
   (four lines, with spaces); its derivation (the model's tree with the operator nest flattened) satisfies every
   hypothesis of C08_complete and contains a one-line if with an else part *)
Example C08_complete_nonvacuous :
  let ts := c08_example_ts in
  let g := match lua_parse ts with Ok (root, _) => to_deriv 50 root | Err _ => PNone end in
  derives ts g = true /\ line_scoped ts g = true /\ excl g = true /\
  length (short_ifs g) = 1%nat /\ length (leaves g) = 45%nat.
Proof. cbv zeta. repeat split; vm_compute; reflexivity. Qed.

(* non-vacuity of the relaxed guard:  (f)() / do (g)() end / if (a) b=1 else (h)()  - a statement that starts with
   '(' as the first statement of the program, of a do-block and of the else part of a one-line if *)
Definition c08_paren_first_ts : list token :=
  let sp := mkTok CSpace 0 " "%bs " "%bs in
  let nl := mkTok CNewline 0 [10] [10] in
  let nm c := mkTok CName 0 c c in
  let sy c := mkTok CSymbol 0 c c in
  let kw c := mkTok CKeyword 0 c c in
  [sy "("%bs; nm "f"%bs; sy ")"%bs; sy "("%bs; sy ")"%bs; nl;
   kw "do"%bs; sp; sy "("%bs; nm "g"%bs; sy ")"%bs; sy "("%bs; sy ")"%bs; sp; kw "end"%bs; nl;
   kw "if"%bs; sp; sy "("%bs; nm "a"%bs; sy ")"%bs; sp; nm "b"%bs; sy "="%bs; mkTok CNumber 0 "1"%bs "1"%bs; sp; kw "else"%bs; sp;
   sy "("%bs; nm "h"%bs; sy ")"%bs; sy "("%bs; sy ")"%bs; nl].
Example C08_complete_paren_first :
  let ts := c08_paren_first_ts in
  let g := match lua_parse ts with Ok (root, _) => to_deriv 50 root | Err _ => PNone end in
  derives ts g = true /\ line_scoped ts g = true /\ excl g = true /\
  length (leaves g) = 25%nat.
Proof. cbv zeta. repeat split; vm_compute; reflexivity. Qed.
