(* C04 - .p8.png cart write/read round trip preserves cart and label picture.
   Property theorems only; proofs live in Proofs/P8PngProofs.v (and Proofs/CompressProofs.v).
   Model: Model/P8Png.v + Model/PngStego.v + Model/Compress.v (p8png.py / compress.py after the fix: commits),
   over Generated/K_p8png.v, K_p8png_codec.v, K_compress.v.  The theorems are about the pixel rows handed to /
   received from pypng; the PNG container itself (pypng + zlib) is outside the model and is observed at run
   time with an independent PNG reader (that clause is partial). *)
From PV Require Import Base.Prelude Base.PySlice Generated.K_p8png Model.Compress Model.PngStego Model.P8Png Instances.HoldsC04
  Proofs.CompressProofs Proofs.P8PngProofs.

(* two bits per channel, order A R G B from the most significant pair: what is written into one pixel is read
   back as the byte, the upper six bits of every channel are untouched, values stay bytes *)
Theorem C04_stego : forall r g b a pb, byte r -> byte g -> byte b -> byte a -> byte pb ->
  match pack4 r g b a pb with
  | [r'; g'; b'; a'] =>
    unpack4 r' g' b' a' = pb /\ r' / 4 = r / 4 /\ g' / 4 = g / 4 /\ b' / 4 = b / 4 /\ a' / 4 = a / 4 /\
    byte r' /\ byte g' /\ byte b' /\ byte a'
  | _ => False
  end.
Proof. exact stego_pixel. Qed.
Print Assumptions C04_stego.

(* memory layout gfx|map|gff|music|sfx|code|version: what to_file joins, the reader's slices take apart,
   whatever the unused pixels after 0x8000 hold *)
Theorem C04_layout : forall c area extra, wf_cart c -> zlen area = 15616 ->
  exists pd, join_mem c area = Ok pd /\ zlen pd = 32769 /\
    split_mem (pd ++ extra) = Ok {| r_gfx := c_gfx c; r_map := c_map c; r_gff := c_gff c; r_music := c_music c;
                                    r_sfx := c_sfx c; r_codedata := area; r_version := c_version c |}.
Proof. exact layout. Qed.
Print Assumptions C04_layout.

(* code area: every text that fits - stored compressed or plain, whichever get_bytes_from_code picks, for
   every version byte incl. 0 - comes back as the text with CR -> space (plus a final newline when it was
   stored plain) *)
Theorem C04_code_area : forall text v,
  Forall byte text -> fits text -> no_nul text -> clean text = true -> text <> [58; 99; 58] ->
  exists area cl cs, get_bytes_from_code text = Ok area /\ zlen area = 15616 /\ Forall byte area /\
    get_code_from_bytes area v = Ok (cl, norm_code text (is_compressed text), cs).
Proof. exact code_area. Qed.
Print Assumptions C04_code_area.

(* code that does not fit is refused with an error - at the code-area function and at the writer *)
Theorem C04_refuse_oversize : forall text, Forall byte text -> ~ fits text ->
  get_bytes_from_code text = Err ValueError.
Proof. exact gbc_refuse. Qed.
Print Assumptions C04_refuse_oversize.

Theorem C04_refuse_oversize_write : forall c planes img, Forall byte (c_code c) -> ~ fits (c_code c) ->
  write_png_pixels c planes img = Err ValueError.
Proof. exact write_refuse. Qed.
Print Assumptions C04_refuse_oversize_write.

(* the whole cart at the pixel-row level: for every cart (all region bytes, every version byte) whose code fits,
   and every 160x205 RGBA label image, the rows written keep the upper six bits of the label image and read
   back to the same regions, version and (normalised) code *)
Theorem C04_cart_roundtrip : forall c img,
  wf_cart c -> cart_bytes c -> wf_img img ->
  fits (c_code c) -> no_nul (c_code c) -> clean (c_code c) = true -> c_code c <> [58; 99; 58] ->
  exists rows, write_png_pixels c 4 img = Ok rows /\ wf_img rows /\ upper6 rows = upper6 img /\
    read_png_pixels 160 205 4 rows =
    Ok {| c_gfx := c_gfx c; c_map := c_map c; c_gff := c_gff c; c_music := c_music c; c_sfx := c_sfx c;
          c_code := norm_code (c_code c) (is_compressed (c_code c)); c_version := c_version c |}.
Proof. exact cart_roundtrip. Qed.
Print Assumptions C04_cart_roundtrip.

(* non-vacuity *)
Example C04_fits_nonvacuous :
  fits (unBS "print(1)"%bs) /\ no_nul (unBS "print(1)"%bs) /\ clean (unBS "print(1)"%bs) = true.
Proof. exact fits_example. Qed.

(* the closed forms the theorems above (and the extracted runner) use for the pixel loops are, on every input,
   equal to the statement-by-statement model of the two loops in Model/PngStego.v *)
Theorem C04_rows_closed_form : forall picodata planes rows,
  rows_of_picodata_fast picodata planes rows = rows_of_picodata picodata planes rows.
Proof. exact rows_fast_eq. Qed.
Print Assumptions C04_rows_closed_form.

Theorem C04_picodata_closed_form : forall width height planes rows,
  picodata_of_rows_fast width height planes rows = picodata_of_rows width height planes rows.
Proof. exact picodata_fast_eq. Qed.
Print Assumptions C04_picodata_closed_form.

(* the extracted monitor's predicates (Instances/HoldsC04.v, built from the format description only) hold of the
   model for every cart and label image in the domain: the independent reading of the written pixels gives back
   every region, the version and the code text, the label's upper six bits are kept, and the cart read back
   equals the cart written up to the reader's normalisation *)
Theorem C04_holds : forall c img,
  wf_cart c -> cart_bytes c -> wf_img img ->
  fits (c_code c) -> no_nul (c_code c) -> clean (c_code c) = true -> c_code c <> [58; 99; 58] ->
  exists rows c', write_png_pixels c 4 img = Ok rows /\ read_png_pixels 160 205 4 rows = Ok c' /\
    holds_C04_image (c_gfx c) (c_map c) (c_gff c) (c_music c) (c_sfx c) (c_code c) (c_version c) img rows = true /\
    holds_C04_readback (c_gfx c) (c_map c) (c_gff c) (c_music c) (c_sfx c) (c_code c) (c_version c)
                       (c_gfx c') (c_map c') (c_gff c') (c_music c') (c_sfx c') (c_code c') (c_version c') = true.
Proof. exact holds_model. Qed.
Print Assumptions C04_holds.

(* the two pixel functions alone, for an image of any width and any picodata that fits into it *)
Theorem C04_holds_pixels : forall w rows pd, wf_rows w rows -> Forall byte pd -> (length pd <= w * length rows)%nat ->
  exists out back, rows_of_picodata_fast pd 4 rows = Ok out /\
    picodata_of_rows_fast (Z.of_nat w) (zlen out) 4 out = Ok back /\
    holds_C04_pixels pd rows out back = true.
Proof. exact holds_pixels_model. Qed.
Print Assumptions C04_holds_pixels.
