(* C17 - section accessors read back what was set and touch nothing else; clipping as
   documented. Property theorems only; proofs live in Proofs/Accessors{Base,Simple,Loops,RectPx,Grid}.v
   and Proofs/C17Proofs.v.

   step_model / run_model (Model/Accessors.v) mirror the accessor methods of gfx.py, map.py,
   gff.py, sfx.py, music.py around the kernels regenerated from the source (Generated/K_*.v);
   exceptions are values. spec_step (Spec/PlainMem.v) is the plain model of the documented
   semantics on the five regions, in_contract the documented argument ranges, wf_mem the
   region sizes and byte-ness. *)
From PV Require Import Base.Prelude Model.Accessors Spec.PlainMem Instances.HoldsC17
  Proofs.AccessorsBase Proofs.AccessorsSimple Proofs.AccessorsLoops Proofs.AccessorsRectPx Proofs.C17Proofs Proofs.AccessorsGrid
  Proofs.HoldsC17Proofs.

(* one call: for EVERY well-formed memory and EVERY in-contract call of any of the 19
   accessors (any id / coordinates / offsets, rows of any number, length and raggedness, any
   amount of overhang across the right and bottom edges, TRANSPARENT pixels) the code's model
   does not raise, returns exactly the value the plain model predicts and leaves exactly the
   memory the plain model predicts - hence clipped data neither wraps, nor alters other
   cells, nor raises - and that memory is again well formed *)
Theorem C17_refines : forall s o, wf_mem s -> in_contract o = true ->
  step_model true s o = Ok (spec_step s o) /\ wf_mem (fst (spec_step s o)).
Proof. exact c17_refines. Qed.
Print Assumptions C17_refines.

(* histories of any length: run_spec (Proofs/C17Proofs.v) threads spec_step through the list
   and collects the returned values *)
Theorem C17_history : forall ops s, wf_mem s -> forallb in_contract ops = true ->
  run_model true s ops = Ok (run_spec s ops) /\ wf_mem (fst (run_spec s ops)).
Proof. exact c17_history. Qed.
Print Assumptions C17_history.

(* frame, about the plain model itself and without any hypothesis on memory or arguments:
   a byte of any region that is not in the footprint of the call keeps its value, and no
   region changes size. footprint o r a is a computable predicate (Proofs/C17Proofs.v): for
   set_sprite exactly the bytes holding a non-transparent, non-clipped pixel; for map cells
   and rectangles the map byte for rows 0-31 and gfx byte 4096 + (y-32)*128 + x for rows
   32-63; one byte for a flag / channel op; two for a note; only the given (non-None) ones for
   sfx / music properties; nothing for getters *)
Theorem C17_frame : forall s o r a, 0 <= a -> footprint o r a = false ->
  at_ (reg r (fst (spec_step s o))) a = at_ (reg r s) a.
Proof. exact c17_frame. Qed.
Print Assumptions C17_frame.

Theorem C17_frame_len : forall s o r, zlen (reg r (fst (spec_step s o))) = zlen (reg r s).
Proof. exact c17_frame_len. Qed.
Print Assumptions C17_frame_len.

Theorem C17_getter_pure : forall s o, is_getter o = true -> fst (spec_step s o) = s.
Proof. exact c17_getter_pure. Qed.
Print Assumptions C17_getter_pure.

(* get-after-set laws of the plain model (and so, by C17_refines, of the code's model) *)
Theorem C17_pixel_readback : forall g x y c x' y',
  zlen g = 8192 -> Forall byte g -> 0 <= x <= 127 -> 0 <= y <= 127 -> 0 <= c <= 15 ->
  0 <= x' <= 127 -> 0 <= y' <= 127 ->
  get_px (set_px g x y c) x' y' = if (x' =? x) && (y' =? y) then c else get_px g x' y'.
Proof. exact get_px_set_px. Qed.
Print Assumptions C17_pixel_readback.

Theorem C17_cell_readback : forall m g x y v x' y',
  zlen m = 4096 -> zlen g = 8192 -> 0 <= x <= 127 -> 0 <= y <= 63 -> 0 <= x' <= 127 -> 0 <= y' <= 63 ->
  let mg' := set_cell (m, g) x y v in
  get_cell (fst mg') (snd mg') x' y' = if (x' =? x) && (y' =? y) then v else get_cell m g x' y'.
Proof. exact get_cell_set_cell. Qed.
Print Assumptions C17_cell_readback.

Theorem C17_mapget_after_mapset : forall s x y v, wf_mem s -> in_contract (MapSet x y v) = true ->
  snd (spec_step (fst (spec_step s (MapSet x y v))) (MapGet x y)) = VInt v.
Proof. exact mapget_after_mapset. Qed.
Print Assumptions C17_mapget_after_mapset.

Theorem C17_flagget_after_flagreset : forall s id fl q, wf_mem s -> in_contract (FlagReset id fl) = true ->
  snd (spec_step (fst (spec_step s (FlagReset id fl))) (FlagGet id q)) = VInt (Z.land fl q).
Proof. exact flagget_after_flagreset. Qed.
Print Assumptions C17_flagget_after_flagreset.

(* the fields given are read back, the fields passed as None keep their old value *)
Theorem C17_noteget_after_noteset : forall s id n p w v e,
  wf_mem s -> in_contract (NoteSet id n p w v e) = true ->
  exists p0 w0 v0 e0, snd (spec_step s (NoteGet id n)) = VTuple [p0; w0; v0; e0] /\
    snd (spec_step (fst (spec_step s (NoteSet id n p w v e))) (NoteGet id n)) =
    VTuple [odef p p0; odef w w0; odef v v0; odef e e0].
Proof. exact noteget_after_noteset. Qed.
Print Assumptions C17_noteget_after_noteset.

Theorem C17_changet_after_chanset : forall s id ch pat, wf_mem s -> in_contract (ChanSet id ch pat) = true ->
  snd (spec_step (fst (spec_step s (ChanSet id ch pat))) (ChanGet id ch)) = VOptInt pat.
Proof. exact changet_after_chanset. Qed.
Print Assumptions C17_changet_after_chanset.

(* the two block writes, cell by cell: after set_sprite EVERY pixel (X, Y) of the 128 x 128 sheet
   holds the sprite's value at offset (X - first_x, Y - first_y) if the (ragged) sprite data has
   a non-TRANSPARENT value there, and its old value otherwise - read-back, frame, transparency
   and clipping (nothing wraps: the equation is per pixel) in one statement. grid_at
   (Proofs/AccessorsGrid.v) looks a value up in a list of rows. *)
Theorem C17_set_sprite_pixels : forall g id xo yo rows X Y,
  zlen g = 8192 -> Forall byte g -> in_contract (SetSprite id xo yo rows) = true ->
  0 <= X <= 127 -> 0 <= Y <= 127 ->
  get_px (spec_set_sprite g id xo yo rows) X Y =
  match grid_at is_transparent rows (X - (id mod 16 * 8 + xo)) (Y - (id / 16 * 8 + yo)) with
  | Some v => v
  | None => get_px g X Y
  end.
Proof. exact set_sprite_pixels. Qed.
Print Assumptions C17_set_sprite_pixels.

(* likewise every cell of the 128 x 64 map after set_rect_tiles, rows 32-63 read through
   sprite memory *)
Theorem C17_set_rect_cells : forall m g x y rows X Y,
  zlen m = 4096 -> zlen g = 8192 -> Forall byte m -> Forall byte g ->
  in_contract (MapSetRect x y rows) = true -> 0 <= X <= 127 -> 0 <= Y <= 63 ->
  let st := spec_set_rect (m, g) x y rows in
  get_cell (fst st) (snd st) X Y =
  match grid_at no_transparent rows (X - x) (Y - y) with Some v => v | None => get_cell m g X Y end.
Proof. exact set_rect_cells. Qed.
Print Assumptions C17_set_rect_cells.

(* Map.get_rect_pixels (covered by C17_refines / C17_history like every other getter), read pixel
   by pixel and with no hypothesis on the memory: the picture of the rectangle (x, y, w, h) has
   8 * h rows of 8 * w pixels, and pixel (X, Y) is pixel (X mod 8, Y mod 8) of the tile in cell
   (x + X / 8, y + Y / 8) as get_rect_tiles reads it (rect_tile: 0 right of column 127, nothing
   wraps into the next row). tile_px (Spec/PlainMem.v): tile 0 is empty, any other tile t is the
   8 x 8 block of the sheet at column (t mod 16) * 8, row (t / 16) * 8. *)
Theorem C17_rect_pixels_at : forall m g x y w h X Y, 1 <= w -> 1 <= h -> 0 <= X < 8 * w -> 0 <= Y < 8 * h ->
  let r := spec_get_rect_pixels m g x y w h in
  zlen r = 8 * h /\ zlen (nth (Z.to_nat Y) r []) = 8 * w /\
  nth (Z.to_nat X) (nth (Z.to_nat Y) r []) 0 = tile_px g (rect_tile m g x y (X / 8) (Y / 8)) (X mod 8) (Y mod 8).
Proof. exact rect_pixels_at. Qed.
Print Assumptions C17_rect_pixels_at.

(* ... and after set_rect_tiles: the tile drawn at a cell is the block's value if the block
   covers the cell, the cell's old value otherwise, and nothing right of column 127; the pixels
   come from the sheet as it is after the write (map rows 32-63 are the lower half of the sheet) *)
Theorem C17_rect_pixels_readback : forall m g x y rows x0 y0 w h X Y,
  zlen m = 4096 -> zlen g = 8192 -> Forall byte m -> Forall byte g ->
  in_contract (MapSetRect x y rows) = true -> in_contract (MapGetRectPx x0 y0 w h) = true ->
  0 <= X < 8 * w -> 0 <= Y < 8 * h ->
  let st := spec_set_rect (m, g) x y rows in
  let cx := x0 + X / 8 in let cy := y0 + Y / 8 in
  nth (Z.to_nat X) (nth (Z.to_nat Y) (spec_get_rect_pixels (fst st) (snd st) x0 y0 w h) []) 0 =
  tile_px (snd st)
    (if 127 <? cx then 0
     else match grid_at no_transparent rows (cx - x) (cy - y) with Some v => v | None => get_cell m g cx cy end)
    (X mod 8) (Y mod 8).
Proof. exact rect_pixels_after_set_rect. Qed.
Print Assumptions C17_rect_pixels_readback.

(* a Map without a Gfx attached (has_gfx = false: "Map must have a Gfx if y > 31"): calls that
   stay inside rows 0-31 behave exactly as with it; cell accesses to rows 32-63 are refused *)
Theorem C17_refines_nogfx : forall s o, wf_mem s -> in_contract o = true -> no_gfx_ok o = true ->
  step_model false s o = Ok (spec_step s o).
Proof. exact c17_refines_nogfx. Qed.
Print Assumptions C17_refines_nogfx.

Theorem C17_nogfx_refuses : forall s x y v, 32 <= y ->
  step_model false s (MapGet x y) = Err AssertionError /\ step_model false s (MapSet x y v) = Err AssertionError.
Proof. exact c17_nogfx_refuses. Qed.
Print Assumptions C17_nogfx_refuses.

(* get_rect_pixels draws from the Gfx: without one it refuses at once *)
Theorem C17_nogfx_refuses_pixels : forall s x y w h, step_model false s (MapGetRectPx x y w h) = Err AssertionError.
Proof. exact c17_nogfx_refuses_pixels. Qed.
Print Assumptions C17_nogfx_refuses_pixels.

(* the instance predicate evaluated (extracted) by the monitor on the implementation's real
   observations: `true` means exactly "did not raise, returned the plain model's value, left
   the plain model's memory"; and the code's model passes it on every call / history *)
Theorem C17_monitor_sound : forall s o raised v s', wf_mem s -> in_contract o = true ->
  (holds_C17 s o raised v s' = true <-> raised = false /\ s' = fst (spec_step s o) /\ v = snd (spec_step s o)).
Proof. exact holds_C17_sound. Qed.
Print Assumptions C17_monitor_sound.

Theorem C17_model_holds : forall s o s' v, step_model true s o = Ok (s', v) -> holds_C17 s o false v s' = true.
Proof. exact model_holds_C17. Qed.
Print Assumptions C17_model_holds.

Theorem C17_model_holds_seq : forall ops s final vs, run_model true s ops = Ok (final, vs) ->
  holds_C17_seq s ops (map (fun v => (false, v)) vs) final = true.
Proof. exact model_holds_C17_seq. Qed.
Print Assumptions C17_model_holds_seq.

(* non-vacuity: a concrete sprite stored at the bottom right corner, crossing both edges:
   sprite 255 with offsets (5, 6) starts at pixel (125, 126); column 128 and row 128 are
   clipped, one pixel is TRANSPARENT. The call is in contract on a well-formed memory; its
   footprint is the four bytes 8126, 8127, 8190, 8191; byte 8128 - where pixel (128, 126)
   would land if it wrapped into the next row - is not touched. *)
Definition ex_mem : mem :=
  {| m_gfx := repeat 255 (Z.to_nat 8192); m_map := repeat 1 (Z.to_nat 4096); m_gff := repeat 2 (Z.to_nat 256);
     m_music := repeat 3 (Z.to_nat 256); m_sfx := repeat 4 (Z.to_nat 4352) |}.
Definition ex_op : op := SetSprite 255 5 6 [[1; 2; 3; 4]; [5; 16; 7; 8]; [9; 10; 11; 12]].

Example C17_nonvacuous :
  wf_mem ex_mem /\ in_contract ex_op = true /\
  map (footprint ex_op RGfx) [8125; 8126; 8127; 8128; 8189; 8190; 8191; 0] =
    [false; true; true; false; false; true; true; false] /\
  map (at_ (m_gfx (fst (spec_step ex_mem ex_op)))) [8126; 8127; 8128; 8190; 8191] = [31; 50; 255; 95; 127] /\
  step_model true ex_mem ex_op = Ok (spec_step ex_mem ex_op).
Proof.
  assert (W : wf_mem ex_mem).
  { unfold wf_mem, ex_mem, zlen. cbn [m_gfx m_map m_gff m_music m_sfx]. rewrite !repeat_length.
    repeat split; try lia;
      apply Forall_forall; intros x Hx; apply repeat_spec in Hx; subst x; unfold byte; lia. }
  split; [exact W|]. split; [reflexivity|]. split; [vm_compute; reflexivity|].
  split; [vm_compute; reflexivity|]. apply C17_refines; [exact W | reflexivity].
Qed.

(* a rectangle of map cells written across the bottom edge of the upper map half into the
   rows shared with sprite memory and beyond the right edge *)
Example C17_nonvacuous_map :
  let o := MapSetRect 126 31 [[10; 11; 12]; [20; 21; 22]] in
  in_contract o = true /\
  map (footprint o RMap) [4093; 4094; 4095] = [false; true; true] /\
  map (footprint o RGfx) [4096 + 125; 4096 + 126; 4096 + 127; 4096 + 128] = [false; true; true; false] /\
  snd (spec_step (fst (spec_step ex_mem o)) (MapGetRect 126 31 3 2)) = VRows [[10; 11; 0]; [20; 21; 0]].
Proof. cbv zeta. repeat split; vm_compute; reflexivity. Qed.

(* get_rect_pixels at the bottom right corner of the map, on a sheet whose bytes are all different
   (byte i = i mod 256): the row [17; 0; 5] written at cell (126, 63) - the 5 falls off the right
   edge - then the 3 x 1 rectangle at (126, 63) drawn: tile 17 is the block of the sheet at pixel
   (8, 8), tile 0 is empty (not sprite 0, whose first row here is 0 0 1 0 2 0 3 0), the cell right
   of column 127 is empty; the code's model returns the same picture. *)
Definition ex_mem2 : mem :=
  {| m_gfx := map (fun i => i mod 256) (upto 8192); m_map := repeat 1 (Z.to_nat 4096); m_gff := repeat 2 (Z.to_nat 256);
     m_music := repeat 3 (Z.to_nat 256); m_sfx := repeat 4 (Z.to_nat 4352) |}.

Example C17_nonvacuous_pixels :
  let o1 := MapSetRect 126 63 [[17; 0; 5]; [9]] in
  let o2 := MapGetRectPx 126 63 3 1 in
  let s1 := fst (spec_step ex_mem2 o1) in
  wf_mem ex_mem2 /\ in_contract o1 = true /\ in_contract o2 = true /\
  snd (spec_step s1 o2) =
    VRows (map (fun left => left ++ repeat 0 16)
               [[4; 0; 5; 0; 6; 0; 7; 0]; [4; 4; 5; 4; 6; 4; 7; 4]; [4; 8; 5; 8; 6; 8; 7; 8]; [4; 12; 5; 12; 6; 12; 7; 12];
                [4; 0; 5; 0; 6; 0; 7; 0]; [4; 4; 5; 4; 6; 4; 7; 4]; [4; 8; 5; 8; 6; 8; 7; 8]; [4; 12; 5; 12; 6; 12; 7; 12]]) /\
  nth 0 (spec_get_sprite (m_gfx s1) 0 1 1) [] = [0; 0; 1; 0; 2; 0; 3; 0] /\
  step_model true s1 o2 = Ok (spec_step s1 o2) /\
  in_contract (MapGetRectPx 126 63 3 2) = false.
Proof.
  cbv zeta. assert (W : wf_mem ex_mem2) by (apply wf_memb_spec; vm_compute; reflexivity).
  split; [exact W|]. split; [reflexivity|]. split; [reflexivity|]. split; [vm_compute; reflexivity|].
  split; [vm_compute; reflexivity|]. split; [|reflexivity].
  apply C17_refines; [|reflexivity]. apply (C17_refines ex_mem2 (MapSetRect 126 63 [[17; 0; 5]; [9]]) W). reflexivity.
Qed.
