(* C17 - placeholder while the proofs are being written. *)
From PV Require Import Base.Prelude.
