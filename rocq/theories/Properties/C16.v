(* C16 - on-disk encodings match the PICO-8 cart formats, not merely each other.
   Property theorems only; proofs live in Proofs/ (GfxProofs, HexSectionProofs, MusicProofs, SfxProofs, SfxLines, PngProofs, C16Proofs).
   The reference formats (the spec_ definitions) are Spec/P8Format.v, written from the format descriptions;
   the models (gfx_to_lines, sfx_from_lines, pd_pixel, ...) mirror picotool's code around kernels
   regenerated from the source on every run. *)
From PV Require Import Base.Prelude Base.PySlice Model.HexSection Model.Gfx Model.Gff Model.MapSec Model.Sfx
  Model.Music Model.PngStego Generated.K_p8png Spec.P8Format Proofs.PngProofs Proofs.C16Proofs.

(* gfx / label: every region that is a whole number of 64-byte rows (8192 bytes = 128 rows) *)
Theorem C16_gfx : forall k d, length d = (k * 64)%nat -> Forall byte d ->
  gfx_to_lines d = spec_gfx_lines d /\ gfx_from_lines (spec_gfx_lines d) = Ok d.
Proof. exact gfx_section. Qed.
Print Assumptions C16_gfx.

Theorem C16_gff : forall d, Forall byte d ->
  gff_to_lines d = spec_hex_lines d /\ base_from_lines (spec_hex_lines d) = Ok d.
Proof. exact gff_section. Qed.
Print Assumptions C16_gff.

Theorem C16_map : forall d, Forall byte d ->
  map_to_lines d = spec_hex_lines d /\ base_from_lines (spec_hex_lines d) = Ok d.
Proof. exact map_section. Qed.
Print Assumptions C16_map.

(* music: the reader returns the bytes minus the one bit the text format has no place for *)
Theorem C16_music : forall k d, length d = (k * 4)%nat -> Forall byte d ->
  music_to_lines d = Ok (spec_music_lines d) /\ music_from_lines (spec_music_lines d) = Ok (music_norm d).
Proof. exact music_section. Qed.
Print Assumptions C16_music.

(* sfx: all 64 patterns x (4 header bytes + 32 notes); every one of the 65,536 note words *)
Theorem C16_sfx : forall d, length d = 4352%nat -> Forall byte d ->
  sfx_to_lines d = Ok (spec_sfx_lines d) /\ sfx_from_lines (spec_sfx_lines d) = Ok d.
Proof. exact sfx_section. Qed.
Print Assumptions C16_sfx.

(* .p8.png: the byte read from any pixel (any number of planes, any column) is the format's byte *)
Theorem C16_png_read : forall row planes col r g b a,
  py_get row (col * planes + 0) = Ok r -> py_get row (col * planes + 1) = Ok g ->
  py_get row (col * planes + 2) = Ok b -> py_get row (col * planes + 3) = Ok a ->
  byte r -> byte g -> byte b -> byte a ->
  pd_pixel row planes col = Ok (spec_pixel_byte r g b a).
Proof. exact pd_pixel_spec. Qed.
Print Assumptions C16_png_read.

(* the four channel values stored for a byte are the format's, whatever the carrier pixel was *)
Theorem C16_png_write : forall (row : Z -> Z) col planes p,
  let r := row (col * planes + 0) in let g := row (col * planes + 1) in
  let b := row (col * planes + 2) in let a := row (col * planes + 3) in
  byte r -> byte g -> byte b -> byte a -> byte p ->
  (pn_val_2 row col planes p, pn_val_1 row col planes p, pn_val_0 row col planes p, pn_val_3 row col planes p)
  = spec_pixel_hide r g b a p.
Proof. exact pn_vals_spec. Qed.
Print Assumptions C16_png_write.

(* the reference pixel format itself: hide then read gives the byte back, upper six bits kept *)
Theorem C16_png_format_roundtrip : forall r g b a p, byte r -> byte g -> byte b -> byte a -> byte p ->
  let '(r', g', b', a') := spec_pixel_hide r g b a p in
  spec_pixel_byte r' g' b' a' = p /\
  r' / 4 = r / 4 /\ g' / 4 = g / 4 /\ b' / 4 = b / 4 /\ a' / 4 = a / 4 /\
  byte r' /\ byte g' /\ byte b' /\ byte a'.
Proof. exact spec_pixel_roundtrip. Qed.
Print Assumptions C16_png_format_roundtrip.

(* memory layout: the slice bounds of the raw .p8.png reader (regenerated) cut the image into
   gfx, map, gff, music, sfx, code, version in the format's order *)
Theorem C16_png_layout : forall gfx map_ gff music sfx code v,
  zlen gfx = 8192 -> zlen map_ = 4096 -> zlen gff = 256 -> zlen music = 256 -> zlen sfx = 4352 -> zlen code = 15616 ->
  let img := spec_image_bytes gfx map_ gff music sfx code v in
  py_slice img raw_gfx_lo raw_gfx_hi = gfx /\ py_slice img raw_p8map_lo raw_p8map_hi = map_ /\
  py_slice img raw_gfx_props_lo raw_gfx_props_hi = gff /\ py_slice img raw_song_lo raw_song_hi = music /\
  py_slice img raw_sfx_lo raw_sfx_hi = sfx /\ py_slice img raw_codedata_lo raw_codedata_hi = code /\
  py_get img raw_version_idx = Ok v.
Proof. exact image_slices. Qed.
Print Assumptions C16_png_layout.

(* consequently: the same memory saved as .p8 text and as .p8.png image loads to identical regions
   (music modulo the unrepresentable bit) *)
Theorem C16_same_cart : forall gfx map_ gff music sfx code v,
  zlen gfx = 8192 -> zlen map_ = 4096 -> zlen gff = 256 -> zlen music = 256 ->
  zlen sfx = 4352 -> zlen code = 15616 ->
  Forall byte gfx -> Forall byte map_ -> Forall byte gff -> Forall byte music -> Forall byte sfx ->
  let img := spec_image_bytes gfx map_ gff music sfx code v in
  gfx_from_lines (spec_gfx_lines gfx) = Ok (py_slice img raw_gfx_lo raw_gfx_hi) /\
  base_from_lines (spec_hex_lines map_) = Ok (py_slice img raw_p8map_lo raw_p8map_hi) /\
  base_from_lines (spec_hex_lines gff) = Ok (py_slice img raw_gfx_props_lo raw_gfx_props_hi) /\
  music_from_lines (spec_music_lines music) = Ok (music_norm (py_slice img raw_song_lo raw_song_hi)) /\
  sfx_from_lines (spec_sfx_lines sfx) = Ok (py_slice img raw_sfx_lo raw_sfx_hi).
Proof. exact same_cart. Qed.
Print Assumptions C16_same_cart.

(* non-vacuity: a concrete non-trivial sfx pattern with the custom-instrument bit set *)
Example C16_nonvacuous :
  spec_note_text 255 255 = [51; 102; 102; 55; 55]%Z /\ spec_pixel_byte 1 2 3 0 = 27 /\
  spec_gfx_row [18] = [50; 49; 10].
Proof. repeat split; reflexivity. Qed.
