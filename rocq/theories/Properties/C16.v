(* C16 - placeholder while the proofs are being written; replaced below. *)
From PV Require Import Base.Prelude.
