(* C09 - luafmt changes only white space, works on every valid program, never drops code.
   Property theorems only; proofs live in Proofs/AstWriterProofs.v. *)
From PV Require Import Base.Prelude Spec.LuaTokens Spec.LuaGrammar Model.Tokens Model.WriterChunks Model.AstWriter
  Proofs.AstWriterProofs.

(* no silent loss: if a token that is not white space or a comment lies at or after the end position of the
   root node (the parser stopped early), the writer - whatever its spaces function - raises ParserError and
   writes nothing *)
Theorem C09_no_silent_loss : forall ts W tag s e sh fs,
  AstWriter.all_trivia (skipn (Z.to_nat e) ts) = false ->
  writer_chunks ts (Node tag s e sh fs) = Err ParserError /\ writer_text W ts (Node tag s e sh fs) = Err ParserError.
Proof. exact writer_refuses_unparsed_tail. Qed.
Print Assumptions C09_no_silent_loss.
