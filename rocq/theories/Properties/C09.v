(* C09 - luafmt changes only white space, works on every valid program, never drops code.
   Property theorems only; proofs live in Proofs/AstWriterProofs.v. *)
From PV Require Import Base.Prelude Spec.LuaTokens Spec.LuaGrammar Model.Tokens Model.Parser Model.ParserInst Model.WriterChunks
  Model.AstWriter Model.WriterDomain Model.FmtSpaces Model.FmtSpacesInst Proofs.FmtSpacesProofs Proofs.AstWriterProofs Proofs.AstWriterTop.

(* no silent loss: if a token that is not white space or a comment lies at or after the end position of the
   root node (the parser stopped early), the writer - whatever its spaces function - raises ParserError and
   writes nothing *)
Theorem C09_no_silent_loss : forall ts W tag s e sh fs,
  AstWriter.all_trivia (skipn (Z.to_nat e) ts) = false ->
  writer_chunks ts (Node tag s e sh fs) = Err ParserError /\ writer_text W ts (Node tag s e sh fs) = Err ParserError.
Proof. exact writer_refuses_unparsed_tail. Qed.
Print Assumptions C09_no_silent_loss.

(* alignment: on the tree the parser built for a program it read to the end, inside the writer's domain
   (Model/WriterDomain.v: writable = the lexer's token spelling, no parenthesised prefix with a suffix
   `(f or g)(x)`, no `if c do ... end`, none of the forms the parser accepts although they are not programs:
   `()`, `{,1}`, `for =1,2 do end`, `if then`, `if f(x) y=1`), the AST writer's walk never raises - no AssertionError, IndexError, AttributeError, no
   ParserError - ends with its cursor at the end of the token list, and its output chunk list is aligned with
   the input: the Code chunks are exactly the significant tokens of ts, in order, each with the token's own
   code (sig_codes ts 0 = the list of (index, code) of the tokens that are not white space, newlines or
   comments), and the chunks tile the token list, so that the Trivia chunks carry exactly the white-space and
   comment runs in between.  view root is the Python-visible tree; the statement holds for every spaces function
   (the chunk list does not depend on it). *)
Theorem C09_aligned : forall ts root e,
  lua_parse ts = Ok (root, e) -> consumed ts e = true -> writable ts root = true ->
  exists cs, writer_chunks ts (view root) = Ok (cs, zlen ts) /\ codes_of cs = sig_codes ts 0 /\ tiling ts 0 cs (zlen ts).
Proof. exact writer_aligned. Qed.
Print Assumptions C09_aligned.

(* non-vacuity: a program with a function, a table constructor with all three field forms, a one-line if with
   else, a compound assignment, parentheses, a numeric for, a method call with a string argument, varargs and
   a comment is parsed to its end and lies in the domain *)
Definition C09_example_tokens : list token :=
  [mkTok CKeyword 0 [102; 117; 110; 99; 116; 105; 111; 110] [102; 117; 110; 99; 116; 105; 111; 110];
   mkTok CSpace 0 [32] [32];
   mkTok CName 0 [102] [102];
   mkTok CSymbol 0 [40] [40];
   mkTok CName 0 [97] [97];
   mkTok CSymbol 0 [44] [44];
   mkTok CSpace 0 [32] [32];
   mkTok CSymbol 0 [46; 46; 46] [46; 46; 46];
   mkTok CSymbol 0 [41] [41];
   mkTok CNewline 0 [10] [10];
   mkTok CSpace 0 [32; 32] [32; 32];
   mkTok CKeyword 0 [108; 111; 99; 97; 108] [108; 111; 99; 97; 108];
   mkTok CSpace 0 [32] [32];
   mkTok CName 0 [116] [116];
   mkTok CSpace 0 [32] [32];
   mkTok CSymbol 0 [61] [61];
   mkTok CSpace 0 [32] [32];
   mkTok CSymbol 0 [123] [123];
   mkTok CNumber 0 [49] [49];
   mkTok CSymbol 0 [44] [44];
   mkTok CSpace 0 [32] [32];
   mkTok CName 0 [120] [120];
   mkTok CSymbol 0 [61] [61];
   mkTok CNumber 0 [50] [50];
   mkTok CSymbol 0 [59] [59];
   mkTok CSpace 0 [32] [32];
   mkTok CSymbol 0 [91] [91];
   mkTok CNumber 0 [51] [51];
   mkTok CSymbol 0 [93] [93];
   mkTok CSymbol 0 [61] [61];
   mkTok CName 0 [103] [103];
   mkTok CSymbol 0 [40] [40];
   mkTok CName 0 [97] [97];
   mkTok CSymbol 0 [41] [41];
   mkTok CSymbol 0 [125] [125];
   mkTok CNewline 0 [10] [10];
   mkTok CSpace 0 [32; 32] [32; 32];
   mkTok CKeyword 0 [105; 102] [105; 102];
   mkTok CSpace 0 [32] [32];
   mkTok CSymbol 0 [40] [40];
   mkTok CName 0 [97] [97];
   mkTok CSymbol 0 [41] [41];
   mkTok CSpace 0 [32] [32];
   mkTok CName 0 [116] [116];
   mkTok CSymbol 0 [46] [46];
   mkTok CName 0 [120] [120];
   mkTok CSpace 0 [32] [32];
   mkTok CSymbol 0 [43; 61] [43; 61];
   mkTok CSpace 0 [32] [32];
   mkTok CNumber 0 [49] [49];
   mkTok CSpace 0 [32] [32];
   mkTok CKeyword 0 [101; 108; 115; 101] [101; 108; 115; 101];
   mkTok CSpace 0 [32] [32];
   mkTok CName 0 [97] [97];
   mkTok CSpace 0 [32] [32];
   mkTok CSymbol 0 [61] [61];
   mkTok CSpace 0 [32] [32];
   mkTok CSymbol 0 [40] [40];
   mkTok CName 0 [97] [97];
   mkTok CSpace 0 [32] [32];
   mkTok CSymbol 0 [43] [43];
   mkTok CSpace 0 [32] [32];
   mkTok CNumber 0 [49] [49];
   mkTok CSymbol 0 [41] [41];
   mkTok CSpace 0 [32] [32];
   mkTok CSymbol 0 [42] [42];
   mkTok CSpace 0 [32] [32];
   mkTok CNumber 0 [50] [50];
   mkTok CSpace 0 [32] [32];
   mkTok CComment 0 [45; 45; 32; 99] [45; 45; 32; 99];
   mkTok CNewline 0 [10] [10];
   mkTok CSpace 0 [32; 32] [32; 32];
   mkTok CKeyword 0 [102; 111; 114] [102; 111; 114];
   mkTok CSpace 0 [32] [32];
   mkTok CName 0 [105] [105];
   mkTok CSymbol 0 [61] [61];
   mkTok CNumber 0 [49] [49];
   mkTok CSymbol 0 [44] [44];
   mkTok CSymbol 0 [35] [35];
   mkTok CName 0 [116] [116];
   mkTok CSpace 0 [32] [32];
   mkTok CKeyword 0 [100; 111] [100; 111];
   mkTok CSpace 0 [32] [32];
   mkTok CName 0 [116] [116];
   mkTok CSymbol 0 [91] [91];
   mkTok CName 0 [105] [105];
   mkTok CSymbol 0 [93] [93];
   mkTok CSymbol 0 [58] [58];
   mkTok CName 0 [109] [109];
   mkTok CString 34 [115] [34; 115; 34];
   mkTok CSpace 0 [32] [32];
   mkTok CKeyword 0 [101; 110; 100] [101; 110; 100];
   mkTok CNewline 0 [10] [10];
   mkTok CSpace 0 [32; 32] [32; 32];
   mkTok CKeyword 0 [114; 101; 116; 117; 114; 110] [114; 101; 116; 117; 114; 110];
   mkTok CSpace 0 [32] [32];
   mkTok CSymbol 0 [46; 46; 46] [46; 46; 46];
   mkTok CNewline 0 [10] [10];
   mkTok CKeyword 0 [101; 110; 100] [101; 110; 100];
   mkTok CNewline 0 [10] [10]].

Example C09_aligned_nonvacuous :
  exists root e, lua_parse C09_example_tokens = Ok (root, e) /\ consumed C09_example_tokens e = true /\
                 writable C09_example_tokens root = true /\ (60 <? zlen (sig_codes C09_example_tokens 0)) = true.
Proof.
  destruct (lua_parse C09_example_tokens) as [[root e]|] eqn:E; [|vm_compute in E; discriminate E].
  exists root, e. split; [reflexivity|]. vm_compute in E. injection E as <- <-. vm_compute. repeat split; reflexivity.
Qed.

(* only white space changes (chunk level).  Under the hypotheses of C09_aligned:
   - the echo writer (LuaASTEchoWriter) writes the input back byte for byte: its text is the concatenation of the
     codes of all tokens of the input;
   - for every spaces function W that is white-space faithful - the bytes it writes for a run of white-space /
     newline / comment tokens are, outside white space (space, tab, line feed, carriage return), the bytes of the
     run, in order - the text is  chunks_text W cs  for the aligned chunk list cs of C09_aligned: every code token of
     the input, in order, verbatim, with W's rendering of the white-space run in between; hence outside white space the
     written text has exactly the bytes of the input, in order (comment text is kept up to white space).
   echo_spaces and fmt_spaces w (= `p8tool luafmt --indentwidth w`, every w) are white-space faithful
   (C10_run_keeps_comment_text).  Not stated here: that the real lexer reads the written text back into the same
   tokens (same_code / holds_C09 on re-lexed output are evaluated by the monitor; the lexer is C07's subject). *)
Theorem C09_whitespace_only : forall ts root e,
  lua_parse ts = Ok (root, e) -> consumed ts e = true -> writable ts root = true ->
  writer_text echo_spaces ts (view root) = Ok (flat_map tcode ts) /\
  forall W, ws_faithful W ->
    exists cs, writer_text W ts (view root) = Ok (chunks_text W cs) /\
               codes_of cs = sig_codes ts 0 /\ tiling ts 0 cs (zlen ts) /\
               nonws (chunks_text W cs) = nonws (flat_map tcode ts).
Proof. exact writer_whitespace_only. Qed.
Print Assumptions C09_whitespace_only.

Theorem C09_luafmt_faithful : forall w, ws_faithful (fmt_spaces w).
Proof. exact fmt_faithful. Qed.
Print Assumptions C09_luafmt_faithful.

Theorem C09_echo_faithful : ws_faithful echo_spaces.
Proof. exact echo_faithful. Qed.
Print Assumptions C09_echo_faithful.

(* for luafmt with any indent width: same bytes outside white space as the input *)
Corollary C09_luafmt_whitespace_only : forall w ts root e,
  lua_parse ts = Ok (root, e) -> consumed ts e = true -> writable ts root = true ->
  exists out, writer_text (fmt_spaces w) ts (view root) = Ok out /\ nonws out = nonws (flat_map tcode ts).
Proof.
  intros w ts root e Hp Hc Hw. destruct (writer_whitespace_only ts root e Hp Hc Hw) as [_ H].
  destruct (H (fmt_spaces w) (fmt_faithful w)) as (cs & H1 & _ & _ & H2). eexists. split; [exact H1 | exact H2].
Qed.
Print Assumptions C09_luafmt_whitespace_only.

(* non-vacuity: on the example program both writers succeed; luafmt (width 2) changes the text (the comment gets two
   spaces) but not its bytes outside white space *)
Example C09_whitespace_only_nonvacuous :
  exists root e out, lua_parse C09_example_tokens = Ok (root, e) /\
    writer_text echo_spaces C09_example_tokens (view root) = Ok (flat_map tcode C09_example_tokens) /\
    writer_text (fmt_spaces 2) C09_example_tokens (view root) = Ok out /\
    zlist_eqb out (flat_map tcode C09_example_tokens) = false /\ nonws out = nonws (flat_map tcode C09_example_tokens).
Proof.
  eexists _, _, _. split; [vm_compute; reflexivity|]. split; [vm_compute; reflexivity|]. split; [vm_compute; reflexivity|].
  split; vm_compute; reflexivity.
Qed.

(* the exclusions are needed: on these programs (parsed to their end, each outside exactly one of the conditions of
   writable) the walk raises AssertionError: the known findings C09-paren-suffix-assert and C09-shortif-do-body-assert. *)
Definition C09_paren_prefix_tokens : list token :=
  [mkTok CSymbol 0 [40] [40];
   mkTok CName 0 [102] [102];
   mkTok CSpace 0 [32] [32];
   mkTok CKeyword 0 [111; 114] [111; 114];
   mkTok CSpace 0 [32] [32];
   mkTok CName 0 [103] [103];
   mkTok CSymbol 0 [41] [41];
   mkTok CSymbol 0 [40] [40];
   mkTok CName 0 [120] [120];
   mkTok CSymbol 0 [41] [41];
   mkTok CNewline 0 [10] [10]].
Definition C09_if_do_tokens : list token :=
  [mkTok CKeyword 0 [105; 102] [105; 102];
   mkTok CSpace 0 [32] [32];
   mkTok CSymbol 0 [40] [40];
   mkTok CName 0 [97] [97];
   mkTok CSymbol 0 [41] [41];
   mkTok CSpace 0 [32] [32];
   mkTok CKeyword 0 [100; 111] [100; 111];
   mkTok CSpace 0 [32] [32];
   mkTok CName 0 [120] [120];
   mkTok CSymbol 0 [61] [61];
   mkTok CNumber 0 [49] [49];
   mkTok CSpace 0 [32] [32];
   mkTok CKeyword 0 [101; 110; 100] [101; 110; 100];
   mkTok CNewline 0 [10] [10]].

Definition C09_refutes (ts : list token) : bool :=
  match lua_parse ts with
  | Ok (root, e) =>
      consumed ts e &&
      match writer_chunks ts (view root) with Err AssertionError => true | _ => false end
  | Err _ => false
  end.

Theorem C09_aligned_paren_prefix_refuted : C09_refutes C09_paren_prefix_tokens = true.
Proof. vm_compute. reflexivity. Qed.

Theorem C09_aligned_if_do_refuted : C09_refutes C09_if_do_tokens = true.
Proof. vm_compute. reflexivity. Qed.


(* the one-line if with an empty else branch (`if (a) b=1 else`, which the parser accepts and whose else branch it
   drops from the tree) is inside the domain since the writers look for the `else` token themselves (fix b221330;
   before it the writers raised AssertionError or, at the end of the program, silently wrote the program without its
   `else`): both writers reproduce it *)
Definition C09_empty_else_tokens : list token :=
  [mkTok CKeyword 0 [100; 111] [100; 111];
   mkTok CSpace 0 [32] [32];
   mkTok CKeyword 0 [105; 102] [105; 102];
   mkTok CSpace 0 [32] [32];
   mkTok CSymbol 0 [40] [40];
   mkTok CName 0 [97] [97];
   mkTok CSymbol 0 [41] [41];
   mkTok CSpace 0 [32] [32];
   mkTok CName 0 [98] [98];
   mkTok CSymbol 0 [61] [61];
   mkTok CNumber 0 [49] [49];
   mkTok CSpace 0 [32] [32];
   mkTok CKeyword 0 [101; 108; 115; 101] [101; 108; 115; 101];
   mkTok CSpace 0 [32] [32];
   mkTok CSymbol 0 [59] [59];
   mkTok CSpace 0 [32] [32];
   mkTok CComment 0 [45; 45; 32; 120] [45; 45; 32; 120];
   mkTok CNewline 0 [10] [10];
   mkTok CKeyword 0 [101; 110; 100] [101; 110; 100];
   mkTok CSpace 0 [32] [32];
   mkTok CKeyword 0 [105; 102] [105; 102];
   mkTok CSpace 0 [32] [32];
   mkTok CSymbol 0 [40] [40];
   mkTok CName 0 [97] [97];
   mkTok CSymbol 0 [41] [41];
   mkTok CSpace 0 [32] [32];
   mkTok CName 0 [98] [98];
   mkTok CSymbol 0 [61] [61];
   mkTok CNumber 0 [49] [49];
   mkTok CSpace 0 [32] [32];
   mkTok CKeyword 0 [101; 108; 115; 101] [101; 108; 115; 101]].

Example C09_empty_short_else_in_domain :
  exists root e, lua_parse C09_empty_else_tokens = Ok (root, e) /\ consumed C09_empty_else_tokens e = true /\
    writable C09_empty_else_tokens root = true /\
    writer_text echo_spaces C09_empty_else_tokens (view root) = Ok (flat_map tcode C09_empty_else_tokens).
Proof.
  eexists _, _. split; [vm_compute; reflexivity|]. split; [vm_compute; reflexivity|]. split; vm_compute; reflexivity.
Qed.

(* ------------------------------------------------------------------ the written text, lexed again *)
From PV Require Spec.LuaLex Spec.SameCode Instances.HoldsC09 Model.Lexer Model.LexToken Proofs.FmtRelexMain.

(* the token-level clause: "its output contains exactly the input's tokens and comments, in order, with identical
   spelling (comments up to white space inside them); ... and the token count is unchanged".
   For every byte string src of the reference dialect (Spec/LuaLex.v: spec_lex src = Some _), lts the tokens of the
   lexer model (Model/Lexer.v; C07: they are the reference tokens), seen by the parser as map lex_token lts: if the
   parser model reads them to the end and the tree lies in the writer's domain, then luafmt (every indent width w)
   writes a text out that is again a byte string of the reference dialect, the lexer model reads it, and the tokens
   it reads have the same code view (Spec/SameCode.v same_code, the predicate the monitor evaluates on the real
   output): the same significant tokens, class and code, in the same order, and between them exactly the same
   comments, in order, with the same bytes outside white space.  In particular no end-of-line comment swallows
   code, no two tokens are glued, no block comment ends early, the token count is unchanged.
   Proof (Proofs/FmtRelex*.v): a byte-level automaton for white-space / comment text; every re.sub of
   LuaFormatterWriter._get_code_for_spaces is neutral for it in every state (fmt_run_arun); the automaton and the
   reference lexer agree on trivia text (seg_arun, arun_seg); a code token is read back in front of the same first
   byte / a blank / a line feed / nothing (sig_relex: Proofs/SpecLexChunk.v step_ctx and the per-kind lemmas of C01);
   unless it is the first thing in the file a formatted run still begins with white space if the run did and is
   empty only at the end of the file (fmt_hd); main induction relex_rend over the aligned chunk list of C09_aligned. *)
Theorem C09_same_code : forall w src ss lts root e,
  Forall byte src -> LuaLex.spec_lex src = Some ss -> Lexer.model_lex [src] = Ok lts ->
  lua_parse (map LexToken.lex_token lts) = Ok (root, e) -> consumed (map LexToken.lex_token lts) e = true ->
  writable (map LexToken.lex_token lts) root = true ->
  exists out ss' lts',
    writer_text (fmt_spaces w) (map LexToken.lex_token lts) (view root) = Ok out /\ Forall byte out /\
    LuaLex.spec_lex out = Some ss' /\ Lexer.model_lex [out] = Ok lts' /\
    SameCode.same_code (map LexToken.lex_token lts) (map LexToken.lex_token lts') = true.
Proof. exact FmtRelexMain.luafmt_same_code. Qed.
Print Assumptions C09_same_code.

(* the same for the echo writer LuaASTEchoWriter (its text is the codes of the input's tokens, C09_whitespace_only) *)
Theorem C09_echo_same_code : forall src ss lts root e,
  Forall byte src -> LuaLex.spec_lex src = Some ss -> Lexer.model_lex [src] = Ok lts ->
  lua_parse (map LexToken.lex_token lts) = Ok (root, e) -> consumed (map LexToken.lex_token lts) e = true ->
  writable (map LexToken.lex_token lts) root = true ->
  exists out ss' lts',
    writer_text echo_spaces (map LexToken.lex_token lts) (view root) = Ok out /\ Forall byte out /\
    LuaLex.spec_lex out = Some ss' /\ Lexer.model_lex [out] = Ok lts' /\
    SameCode.same_code (map LexToken.lex_token lts) (map LexToken.lex_token lts') = true.
Proof. exact FmtRelexMain.echo_same_code. Qed.
Print Assumptions C09_echo_same_code.

(* the whole instance predicate, for the model: inside the domain the observation (input tokens, tree, end position,
   tokens of the text luafmt wrote) satisfies holds_C09 (Instances/HoldsC09.v: the predicate the extracted monitor
   evaluates on the implementation's output) - parsed to the end, same code view, and the line-scoped constructs
   keep their extent.  The last clause holds in the strongest form: for every code token, there is a newline token
   between it and the previous code token in the written text exactly when there was one in the input (nl_before
   is unchanged): the formatter never removes the last line break of a run, never adds one to a run without, and
   line breaks inside block comments stay inside.  So a one-line `if (c) stmt [else stmt]` stays on one line and
   what followed it on a later line stays on a later line. *)
Theorem C09_luafmt_holds : forall w src ss lts root e valid,
  Forall byte src -> LuaLex.spec_lex src = Some ss -> Lexer.model_lex [src] = Ok lts ->
  lua_parse (map LexToken.lex_token lts) = Ok (root, e) -> consumed (map LexToken.lex_token lts) e = true ->
  writable (map LexToken.lex_token lts) root = true ->
  exists out ss' lts',
    writer_text (fmt_spaces w) (map LexToken.lex_token lts) (view root) = Ok out /\ Forall byte out /\
    LuaLex.spec_lex out = Some ss' /\ Lexer.model_lex [out] = Ok lts' /\
    SameCode.nl_before (map LexToken.lex_token lts') = SameCode.nl_before (map LexToken.lex_token lts) /\
    HoldsC09.holds_C09 (map LexToken.lex_token lts) root e valid (Some (map LexToken.lex_token lts')) = true.
Proof. exact FmtRelexMain.luafmt_holds_C09. Qed.
Print Assumptions C09_luafmt_holds.

Theorem C09_echo_holds : forall src ss lts root e valid,
  Forall byte src -> LuaLex.spec_lex src = Some ss -> Lexer.model_lex [src] = Ok lts ->
  lua_parse (map LexToken.lex_token lts) = Ok (root, e) -> consumed (map LexToken.lex_token lts) e = true ->
  writable (map LexToken.lex_token lts) root = true ->
  exists out ss' lts',
    writer_text echo_spaces (map LexToken.lex_token lts) (view root) = Ok out /\ Forall byte out /\
    LuaLex.spec_lex out = Some ss' /\ Lexer.model_lex [out] = Ok lts' /\
    SameCode.nl_before (map LexToken.lex_token lts') = SameCode.nl_before (map LexToken.lex_token lts) /\
    HoldsC09.holds_C09 (map LexToken.lex_token lts) root e valid (Some (map LexToken.lex_token lts')) = true.
Proof. exact FmtRelexMain.echo_holds_C09. Qed.
Print Assumptions C09_echo_holds.

(* run level: the formatter pipeline does not change what the trivia automaton sees - the comments of the run, in order,
   each with its bytes outside white space, whether a line break occurs outside block comments, and whether the run
   ends inside an end-of-line comment - whatever the position flags, indent width and depth *)
Theorem C09_run_same_comments : forall cfg r V,
  FmtRelexAuto.arun (V, FmtRelexAuto.AN) (fmt_run cfg r) = FmtRelexAuto.arun (V, FmtRelexAuto.AN) r.
Proof. exact FmtRelexAuto.fmt_run_arun. Qed.
Print Assumptions C09_run_same_comments.

(* non-vacuity: a program with comments of all three kinds (`--`, `//`, `--[[ ]]` over two lines), adjacent tokens
   `x=-1`, `a..b`, `f"s"`, a one-line if with else directly after a block comment and a tab in front of a comment
   satisfies the hypotheses; luafmt (width 2) changes its text, the lexer model reads the new text and the code
   view is the same *)
Definition C09_relex_src : list Z := unBS "-- header
x=-1 // c2
y=a..b f""s""
--[[ block
  comment ]] if (x) y=2 else y=3
z = {1,2}	-- tab
"%bs.

Example C09_same_code_nonvacuous :
  exists ss lts root e,
    Forall byte C09_relex_src /\ LuaLex.spec_lex C09_relex_src = Some ss /\ Lexer.model_lex [C09_relex_src] = Ok lts /\
    lua_parse (map LexToken.lex_token lts) = Ok (root, e) /\ consumed (map LexToken.lex_token lts) e = true /\
    writable (map LexToken.lex_token lts) root = true /\
    exists out lts',
      writer_text (fmt_spaces 2) (map LexToken.lex_token lts) (view root) = Ok out /\ zlist_eqb out C09_relex_src = false /\
      Lexer.model_lex [out] = Ok lts' /\
      HoldsC09.holds_C09 (map LexToken.lex_token lts) root e true (Some (map LexToken.lex_token lts')) = true.
Proof.
  eexists _, _, _, _. split.
  { apply Forall_forall. intros x Hx. apply byteb_spec. revert x Hx. apply forallb_forall. vm_compute. reflexivity. }
  split; [vm_compute; reflexivity|]. split; [vm_compute; reflexivity|]. split; [vm_compute; reflexivity|].
  split; [vm_compute; reflexivity|]. split; [vm_compute; reflexivity|].
  eexists _, _. split; [vm_compute; reflexivity|]. split; [vm_compute; reflexivity|]. split; vm_compute; reflexivity.
Qed.


(* ------------------------------------------------------------------ valid programs lie inside the writer domain *)
From PV Require Proofs.ParserComplete2 Proofs.ParserComplete6 Proofs.ValidDomain1 Proofs.ValidDomain6 Proofs.ValidDomainLex.
Import ParserComplete2 ValidDomain1.

(* "For every valid program `p8tool luafmt` succeeds".  The theorems above are stated for parser trees inside the
   writer domain; C08_complete is stated for token lists with a derivation g in the reference grammar
   (Spec/LuaGrammar.v).  Here the two meet: the tree the parser model builds for a token list that has a derivation is
   inside the domain.  Hypotheses on the derivation:
     derives ts g, line_scoped ts g   g is a derivation of ts whose one-line ifs own the rest of their lines
     excl g                           the side condition of C08_complete (Proofs/ParserComplete2.v): Lua's call
                                      ambiguity (a statement starting with `(` follows a `;` or begins its block), the
                                      body of a one-line if is not empty and does not begin with a do-block - finding
                                      C09-shortif-do-body-assert / C08-shortif-do-body: `if (c) do ... end` is read as
                                      `if (c) then ... end`, C09_aligned_if_do_refuted -, the else part of a one-line if
                                      holds a statement
     g_no_paren_suffix g              no call / index / field / method suffix is applied to a parenthesised expression
                                      (Proofs/ValidDomain1.v) - finding C09-paren-suffix-assert,
                                      C09_aligned_paren_prefix_refuted
   and one hypothesis on the tokens: plain_tokens ts.  It does not follow from the derivation (the grammar reads class
   and data of a token, keywords case-insensitively; the writers re-spell the code): it is a fact about the lexer,
   C09_lexer_plain_tokens below.  `strict`, `no_if_do` and `no_paren_prefix` do follow: C09_valid_tree_in_domain.
   Proof: Proofs/ValidDomain1..6.v re-run the completeness proof of C08 with the relation "the tree denotes the
   derivation AND lies in the domain"; `denotes g (view root)` alone cannot give it, the view forgets the hidden
   keyword leaves and the parentheses the domain conditions speak about. *)
Theorem C09_valid_tree_in_domain : forall ts g,
  derives ts g = true -> line_scoped ts g = true -> excl g = true -> g_no_paren_suffix g = true ->
  exists root e, lua_parse ts = Ok (root, e) /\ consumed ts e = true /\ denotes g (view root) = true /\
                 strict root = true /\ no_if_do ts root = true /\ no_paren_prefix root = true.
Proof. exact ValidDomain6.parse_in_domain. Qed.
Print Assumptions C09_valid_tree_in_domain.

Theorem C09_valid_in_domain : forall ts g,
  derives ts g = true -> line_scoped ts g = true -> excl g = true -> g_no_paren_suffix g = true ->
  plain_tokens ts = true ->
  exists root e, lua_parse ts = Ok (root, e) /\ consumed ts e = true /\ writable ts root = true.
Proof. exact ValidDomain6.valid_in_domain. Qed.
Print Assumptions C09_valid_in_domain.

(* plain_tokens is a fact about the lexer: for every source of the reference dialect the tokens of the lexer model, as
   the parser and the writers see them, have code = data for keyword / symbol / name / label tokens, keywords are
   lower case (an upper-case word is a name) and a label is `::name::` *)
Theorem C09_lexer_plain_tokens : forall src ss lts,
  Forall byte src -> LuaLex.spec_lex src = Some ss -> Lexer.model_lex [src] = Ok lts ->
  plain_tokens (map LexToken.lex_token lts) = true.
Proof. exact ValidDomainLex.lexer_plain. Qed.
Print Assumptions C09_lexer_plain_tokens.

Theorem C09_valid_source_in_domain : forall src ss lts g,
  Forall byte src -> LuaLex.spec_lex src = Some ss -> Lexer.model_lex [src] = Ok lts ->
  derives (map LexToken.lex_token lts) g = true -> line_scoped (map LexToken.lex_token lts) g = true -> excl g = true ->
  g_no_paren_suffix g = true ->
  exists root e, lua_parse (map LexToken.lex_token lts) = Ok (root, e) /\ consumed (map LexToken.lex_token lts) e = true /\
                 writable (map LexToken.lex_token lts) root = true.
Proof. exact ValidDomainLex.valid_source_in_domain. Qed.
Print Assumptions C09_valid_source_in_domain.

(* the property for valid programs, for the models: for every source of the reference dialect whose lexer tokens have a
   derivation (within the stated conditions) the parser model reads them to the end, luafmt (every indent width) SUCCEEDS
   - no AssertionError / IndexError / AttributeError / ParserError -, the text it writes is again in the dialect, the
   lexer model reads it, and the whole instance predicate of the monitor holds with valid = true: consumed, the same
   code view (same significant tokens in order with identical spelling, same comments up to white space, token count
   unchanged) and the same line breaks between code tokens. *)
Theorem C09_valid_programs : forall w src ss lts g,
  Forall byte src -> LuaLex.spec_lex src = Some ss -> Lexer.model_lex [src] = Ok lts ->
  derives (map LexToken.lex_token lts) g = true -> line_scoped (map LexToken.lex_token lts) g = true -> excl g = true ->
  g_no_paren_suffix g = true ->
  exists root e out ss' lts',
    lua_parse (map LexToken.lex_token lts) = Ok (root, e) /\
    writer_text (fmt_spaces w) (map LexToken.lex_token lts) (view root) = Ok out /\ Forall byte out /\
    LuaLex.spec_lex out = Some ss' /\ Lexer.model_lex [out] = Ok lts' /\
    SameCode.nl_before (map LexToken.lex_token lts') = SameCode.nl_before (map LexToken.lex_token lts) /\
    HoldsC09.holds_C09 (map LexToken.lex_token lts) root e true (Some (map LexToken.lex_token lts')) = true.
Proof. exact ValidDomainLex.luafmt_valid. Qed.
Print Assumptions C09_valid_programs.

(* the same for the echo writer LuaASTEchoWriter *)
Theorem C09_valid_programs_echo : forall src ss lts g,
  Forall byte src -> LuaLex.spec_lex src = Some ss -> Lexer.model_lex [src] = Ok lts ->
  derives (map LexToken.lex_token lts) g = true -> line_scoped (map LexToken.lex_token lts) g = true -> excl g = true ->
  g_no_paren_suffix g = true ->
  exists root e out ss' lts',
    lua_parse (map LexToken.lex_token lts) = Ok (root, e) /\
    writer_text echo_spaces (map LexToken.lex_token lts) (view root) = Ok out /\ Forall byte out /\
    LuaLex.spec_lex out = Some ss' /\ Lexer.model_lex [out] = Ok lts' /\
    SameCode.nl_before (map LexToken.lex_token lts') = SameCode.nl_before (map LexToken.lex_token lts) /\
    HoldsC09.holds_C09 (map LexToken.lex_token lts) root e true (Some (map LexToken.lex_token lts')) = true.
Proof. exact ValidDomainLex.echo_valid. Qed.
Print Assumptions C09_valid_programs_echo.

(* the two conditions on the derivation are needed, and each excludes its finding:
   `(f or g)(x)` has a derivation inside excl whose call suffix sits on a parenthesised expression - the walk raises
   (C09_aligned_paren_prefix_refuted);  `if (a) do x=1 end` has a derivation - a one-line if whose body is a do-block -
   without such a suffix, outside excl - the walk raises (C09_aligned_if_do_refuted) *)
Definition C09_paren_prefix_deriv : tree :=
  match lua_parse C09_paren_prefix_tokens with Ok (root, _) => ValidDomainLex.deriv_of_tree root | Err _ => PNone end.
Definition C09_if_do_deriv : tree :=
  let ex t := Node tExpValue 0 0 false [t] in
  let nm i c := Node tVarName 0 0 false [Tok i (mkTok CName 0 c c)] in
  Node tChunk 0 0 false [Lst [
    Node tStatIf 0 0 true [Kw 0; Lst [Lst [Paren 2 4 (ex (nm 3 [97]));
      Node tChunk 0 0 false [Lst [
        Node tStatDo 0 0 false [Kw 6;
          Node tChunk 0 0 false [Lst [
            Node tStatAssignment 0 0 false [Node tVarList 0 0 false [Lst [nm 8 [120]]]; Tok 9 (mkTok CSymbol 0 [61] [61]);
                                            Node tExpList 0 0 false [Lst [ex (Tok 10 (mkTok CNumber 0 [49] [49]))]]]]];
          Kw 12]]]]]]]].

Example C09_conditions_needed :
  (derives C09_paren_prefix_tokens C09_paren_prefix_deriv = true /\ line_scoped C09_paren_prefix_tokens C09_paren_prefix_deriv = true /\
   excl C09_paren_prefix_deriv = true /\ plain_tokens C09_paren_prefix_tokens = true /\
   g_no_paren_suffix C09_paren_prefix_deriv = false /\ C09_refutes C09_paren_prefix_tokens = true) /\
  (derives C09_if_do_tokens C09_if_do_deriv = true /\ line_scoped C09_if_do_tokens C09_if_do_deriv = true /\
   g_no_paren_suffix C09_if_do_deriv = true /\ plain_tokens C09_if_do_tokens = true /\
   excl C09_if_do_deriv = false /\ C09_refutes C09_if_do_tokens = true).
Proof. repeat split; vm_compute; reflexivity. Qed.

(* non-vacuity: a program with every statement kind - local / global assignment, compound assignment, call (with a
   string argument), do, while, repeat, if with elseif and else, a one-line if with else and one whose body is `break`,
   numeric and generic for, function with a dotted method name, local function with varargs, goto, label, return -,
   a parenthesised expression WITHOUT suffix `(a+1)*2`, a table with all three field forms and a trailing separator,
   and comments of all three kinds (`--`, `//`, a `--[[ ]]` comment over two lines at the end of the one-line if)
   satisfies every hypothesis of C09_valid_programs; its derivation is the parser model's tree with the operator
   nests flattened (142 leaves, 2 one-line ifs); luafmt (width 2) changes the text *)
Definition C09_valid_src : list Z := unBS "-- header
local t={1,x=2,[""k""]=3;}
local function f(a,...) return (a+1)*2 end
function t.m:g(b) self.x=b // c2
end
for i=1,3 do t.x+=i end
for k,v in pairs(t) do f(k) end
while x<3 do x=x+1 if (x==2) break
end
repeat x-=1 until x<=0
if x then y=1 elseif z then y=2 else y=3 end
if (y) f(y) else y=-y --[[ block
 comment ]]
do goto done end
::done::
f""s""
return t
"%bs.

Definition C09_valid_ts : list token :=
  match Lexer.model_lex [C09_valid_src] with Ok lts => map LexToken.lex_token lts | Err _ => [] end.
Definition C09_valid_g : tree :=
  match lua_parse C09_valid_ts with Ok (root, _) => ValidDomainLex.deriv_of_tree root | Err _ => PNone end.

Example C09_valid_programs_nonvacuous :
  exists ss lts,
    Forall byte C09_valid_src /\ LuaLex.spec_lex C09_valid_src = Some ss /\ Lexer.model_lex [C09_valid_src] = Ok lts /\
    derives (map LexToken.lex_token lts) C09_valid_g = true /\ line_scoped (map LexToken.lex_token lts) C09_valid_g = true /\
    excl C09_valid_g = true /\ g_no_paren_suffix C09_valid_g = true /\
    length (short_ifs C09_valid_g) = 2%nat /\ length (leaves C09_valid_g) = 142%nat /\
    exists root e out,
      lua_parse (map LexToken.lex_token lts) = Ok (root, e) /\
      writer_text (fmt_spaces 2) (map LexToken.lex_token lts) (view root) = Ok out /\ zlist_eqb out C09_valid_src = false.
Proof.
  eexists _, _. split.
  { apply Forall_forall. intros x Hx. apply byteb_spec. revert x Hx. apply forallb_forall. vm_compute. reflexivity. }
  split; [vm_compute; reflexivity|]. split; [vm_compute; reflexivity|]. split; [vm_compute; reflexivity|].
  split; [vm_compute; reflexivity|]. split; [vm_compute; reflexivity|]. split; [vm_compute; reflexivity|].
  split; [vm_compute; reflexivity|]. split; [vm_compute; reflexivity|].
  eexists _, _, _. split; [vm_compute; reflexivity|]. split; vm_compute; reflexivity.
Qed.
