(* C20 composed with the .p8 reader of C03 and the echo theorem of C06: for an included `.p8` target the spliced
   lines are a function of the BYTES of the file.  Property theorems only; proofs live in Proofs/SpliceP8Bytes.v.

   The reader P8Formatter.from_file(fh, do_includes=False) is Model/P8File.read_p8 - the model the C03 theorems are
   about (header, version line, section splitter, per-section readers; it never expands includes) - with the Lua
   object instantiated by the lexer model and the echo writer (Proofs/P8FileLua.lex_read); `inc_game.lua.to_lines()`
   is  echo (c_lua c).  [p8_chunks file] is that composition, [p8_code_lines file] the lines of the file's __lua__
   section as the section splitter alone delivers them (P8SCII bytes; no lexer involved). *)
From PV Require Import Base.Prelude Model.Gfx Model.P8File Generated.K_p8file Generated.T_lexer Model.Lexer Model.EchoWriter
  Instances.HoldsC06 Proofs.LexerChunk Proofs.P8FileLua.
From PV Require Import Model.Paths Model.Include Model.FilesInst Spec.SpliceSpec Proofs.SpliceProofs Proofs.SpliceRefine
  Proofs.SpliceP8Bytes.

(* what the reader returns for the bytes of a .p8 file is the echo of the lexed code lines of that file ... *)
Theorem C20_p8_reader_bytes : forall file chunks,
  p8_chunks file = Some chunks ->
  exists ls, p8_code_lines file = Ok ls /\ echo_source ls = Ok chunks.
Proof. exact p8_chunks_code. Qed.
Print Assumptions C20_p8_reader_bytes.

(* ... hence (C06_echo_chunks) its text repeats those lines byte for byte outside quoted strings and with the same
   denotation inside them, whenever the code lines are split after line feeds and consist of bytes *)
Theorem C20_p8_code_echo : forall file chunks,
  p8_chunks file = Some chunks ->
  exists ls, p8_code_lines file = Ok ls /\
    (Forall ends_lf (removelast ls) -> Forall byte (concat ls) -> holds_C06 (concat ls) (concat chunks) = true).
Proof. exact p8_chunks_echo. Qed.
Print Assumptions C20_p8_code_echo.

(* C20_expand for `#include NAME.p8[:n]`: if the view's cart reader at the resolved path is the model reader applied
   to the bytes [file], the line expands to the - selected - text lines of the code computed from those bytes, each
   given its newline; a file the reader rejects fails the load *)
Theorem C20_expand_p8_bytes : forall cwd home fs f l path tab nm p file,
  match_include_line l = Some (path, ext_p8, tab) ->
  decode_name_now path = Ok nm ->
  resolve_include_now cwd home (fs_isfile fs) f (nm ++ ext_p8) = Ok p ->
  fs_cart fs p = p8_chunks file ->
  expand_now cwd home fs (Some f) l =
  match p8_chunks file with
  | Some chunks => Ok (map (yielded 1) (lines_for_tab (Include.file_lines (concat chunks)) tab))
  | None => Err OtherError
  end.
Proof. exact expand_p8_bytes. Qed.
Print Assumptions C20_expand_p8_bytes.

(* C20_in_place with the directory content given as BYTES for .lua and .p8 files (content_of_bytes: the code of a
   .p8 file is p8_chunks of its bytes, joined; .p8.png carts keep an abstract code - their reader is C04/C05's
   subject): for every cart and every view that reads the named files (fs_agrees_bytes: text files as their bytes,
   the cart reader at a named .p8 file = the model reader on its bytes, which accepts it), whenever the reference
   splice is defined the model produces exactly the reference lines, and fails when a file is missing *)
Theorem C20_in_place_p8_bytes : forall cwd home fs f files png bodies,
  fs_agrees_bytes cwd home fs f files png ->
  Forall no_nl bodies ->
  let hs := map (fun b => b ++ [10]) bodies in
  let impl := model_outcome (process_includes_now cwd home fs (Some f) hs) in
  text_lines (concat hs) = bodies /\
  match ref_splice (content_of_bytes files png) bodies with
  | SpOk ls => exists t, impl = Some t /\ text_lines t = ls
  | SpMissing => impl = None
  | SpUndefined => True
  end.
Proof. exact in_place_p8_bytes. Qed.
Print Assumptions C20_in_place_p8_bytes.

(* non-vacuity: the bytes of a two-tab .p8 file whose second tab spells a string with a decimal escape; the code
   lines are the section's bytes, the reader's chunks respell the string (s="\65" -> s="A"), and `NAME.p8:1`
   selects the respelled line *)
Definition ex_p8_file : list Z :=
  unBS "pico-8 cartridge // http://www.pico-8.com"%bs ++ [10] ++ unBS "version 41"%bs ++ [10] ++
  unBS "__lua__"%bs ++ [10] ++ unBS "x=1"%bs ++ [10] ++ unBS "-->8"%bs ++ [10] ++ unBS "s=""\65"""%bs ++ [10] ++
  unBS "__gfx__"%bs ++ [10] ++ unBS "00"%bs ++ [10].
Example C20_bytes_nonvacuous :
  p8_code_lines ex_p8_file = Ok [[120; 61; 49; 10]; [45; 45; 62; 56; 10]; [115; 61; 34; 92; 54; 53; 34; 10]]
  /\ p8_chunks ex_p8_file = Some [[120; 61; 49; 10]; [45; 45; 62; 56; 10]; [115; 61; 34; 65; 34; 10]]
  /\ match p8_chunks ex_p8_file with
     | Some ch => lines_for_tab (Include.file_lines (concat ch)) (Some 1)
     | None => []
     end = [[115; 61; 34; 65; 34; 10]].
Proof. repeat split; vm_compute; reflexivity. Qed.
