(* C13 - build takes each cart section from exactly the source the arguments name.
   Property theorems only; proofs live in Proofs/BuildProofs.v. *)
From PV Require Import Base.Prelude Spec.BuildSpec Model.Build Model.BuildInst Instances.HoldsC13 Proofs.BuildProofs
  Generated.T_build_do.

(* For EVERY command line (any of the 4^6 x ... source/empty assignments, any file names - the
   configuration space is finite only in its shape, file names are arbitrary byte strings), every
   state of the files (which exist, what carts they hold, which fail to load and how) and every
   section content (A is abstract): what the model of do_build + to_file leaves in OUT is exactly
   what the selection rule of the property statement prescribes - the named source's section, the
   empty default, or OUT's previous section; the label picture / label section of an existing OUT
   is kept; and the command fails without a write exactly when the rule says the arguments are
   conflicting or unusable (--X with --empty-X, missing file, wrong extension, bad OUT extension,
   unreadable cart). *)
Theorem C13_select : forall (A : Type) (w : world A) (args : build_args),
  spec_view_now w (b_out args) (do_build_now w (namespace_now args)) = build_spec w args.
Proof. exact @build_select. Qed.
Print Assumptions C13_select.

(* error cases: no to_file call is made at all, so OUT is not even opened *)
Theorem C13_fail_untouched : forall (A : Type) (w : world A) (args : build_args),
  build_spec w args = None -> not_wrote (do_build_now w (namespace_now args)).
Proof. exact @build_fail_no_write. Qed.
Print Assumptions C13_fail_untouched.

(* success cases: exactly one to_file(result, OUT) call, with the echo writer, and the label taken
   from OUT iff it existed *)
Theorem C13_ok_written : forall (A : Type) (w : world A) (args : build_args) x req,
  build_spec w args = Some (x, req) ->
  exists c, do_build_now w (namespace_now args) = Wrote c WDefault (w_exists w (b_out args)) /\ c_secs c = x.
Proof. exact @build_ok_writes. Qed.
Print Assumptions C13_ok_written.

(* for every Namespace whatsoever (also with --lua-minify, --lua-format, ...): at most one write,
   to args.filename, which ends in .p8/.p8.png; label section and version come from OUT's previous
   contents *)
Theorem C13_write_shape : forall (A : Type) (w : world A) (ns : namespace) c wr l,
  do_build_now w ns = Wrote c wr l ->
  exists filename prev,
    ns_get ns "filename"%bs = Some (VStr filename) /\ out_name_ok filename = true /\
    l = w_exists w filename /\
    (if w_exists w filename then w_cart w filename else Ok (w_empty w)) = Ok prev /\
    c_label c = c_label prev /\ c_version c = c_version prev.
Proof. exact @do_build_write_shape. Qed.
Print Assumptions C13_write_shape.

(* the instance predicate evaluated by the monitor implies the statement of the property *)
Theorem C13_monitor_sound : forall (A : Type) (eqb : A -> A -> bool),
  (forall a b, eqb a b = true -> a = b) ->
  forall w args o, holds_C13 eqb w args o = true -> C13_statement w args o.
Proof. exact @holds_C13_sound. Qed.
Print Assumptions C13_monitor_sound.

(* the model's own run passes the monitor *)
Theorem C13_model_holds : forall (A : Type) (eqb : A -> A -> bool),
  (forall a, eqb a a = true) ->
  forall (w : world A) (args : build_args), holds_C13 eqb w args (model_observation w args) = true.
Proof. exact @model_holds. Qed.
Print Assumptions C13_model_holds.

(* observation O1 (outside the statement): `build --lua-format` cannot write while the Namespace lacks an
   attribute that branch reads (today `indentwidth`: the regenerated destinations of `build` do not have it) *)
Theorem C13_O1_lua_format_never_writes : forall (A : Type) (w : world A) (ns : namespace),
  truthy (getattr_d ns "lua_format"%bs (VBool false)) = true ->
  (exists a, In a do_build_format_attrs /\ ns_get ns a = None) ->
  not_wrote (do_build_now w ns).
Proof. exact @build_lua_format_never_writes. Qed.
Print Assumptions C13_O1_lua_format_never_writes.

(* ---------- non-vacuity ---------- *)
Definition ex_world : world Z :=
  mkWorld (fun p => zlist_eqb p "a.p8"%bs || zlist_eqb p "out.p8"%bs)
          (fun p => if zlist_eqb p "a.p8"%bs then Ok (mkCart (mkSecs 1 2 3 4 5 6) None 33)
                    else if zlist_eqb p "out.p8"%bs then Ok (mkCart (mkSecs 11 12 13 14 15 16) (Some 17) 8)
                    else Err OtherError)
          (fun _ _ => Err OtherError)
          (mkCart (mkSecs 0 0 0 0 0 0) (Some 0) 33)
          (fun _ => None).
Definition ex_args : build_args :=
  mkArgs "out.p8"%bs (fun s => match s with SGfx => Some ("a.p8"%bs : bytes) | _ => None end)
         (fun s => match s with SMap => true | _ => false end) None.

(* gfx from a.p8, map emptied, the rest and the label kept from out.p8 *)
Example C13_nonvacuous_ok :
  build_spec ex_world ex_args = Some (mkSecs 11 2 13 0 15 16, KeepLabel (Some 17))
  /\ do_build_now ex_world (namespace_now ex_args) = Wrote (mkCart (mkSecs 11 2 13 0 15 16) (Some 17) 8) WDefault true.
Proof. split; vm_compute; reflexivity. Qed.

(* --gfx together with --empty-gfx: refused *)
Example C13_nonvacuous_conflict :
  let args := mkArgs "out.p8"%bs (b_src ex_args) (fun _ => true) None in
  build_spec ex_world args = None /\ do_build_now ex_world (namespace_now args) = Ret1 (Conflict "gfx"%bs).
Proof. split; vm_compute; reflexivity. Qed.
