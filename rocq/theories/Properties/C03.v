(* C03 - .p8 text cart write/read round trip preserves the whole cart.
   Property theorems only; proofs live in Proofs/P8File*.v (and the per-section proofs of C16).
   The model (Model/P8File.v) interprets the statement sequence of P8Formatter.to_file and the section
   dispatch of from_file as regenerated from p8.py on every run; the Lua object is abstract (Section
   variables lua_from_lines / lua_to_lines): what the theorems need from the lexer stack is stated as
   explicit hypotheses (sanity re-lex succeeds, the echo writer's last chunk is not empty, echo_stable). *)
From PV Require Import Base.Prelude Model.P8File Spec.P8Format Spec.P8FileSpec
  Proofs.P8FileWrite Proofs.P8FileRoundtrip Proofs.P8FileRewrite Instances.HoldsC03 Proofs.P8FileShortSpec Generated.K_p8file
  Generated.T_lexer Model.Lexer Model.EchoWriter Proofs.LexerChunk Proofs.EchoStable Proofs.P8FileLua Spec.LuaLex Proofs.P8FileLuaDialect.

Section C03.
Variable lua : Type.
Variable lua_from_lines : list (list Z) -> result lua.   (* Lua.from_lines: lexer + parser *)
Variable lua_to_lines : lua -> list (list Z).            (* Lua.to_lines(): chunks of the echo writer *)
Variable lua_empty : lua.

(* Every well-formed cart - any bytes in the five regions, any label or none, any version >= 0, any Lua
   object whose echoed text has no line reading as a __section__ header - is written, and reading the file
   back hands the lexer exactly the echoed text with a missing final newline supplied, and yields the same
   version, regions (music minus the one unrepresentable bit) and label. *)
Theorem C03_roundtrip : forall (c : cart lua) l0,
  wf_cart lua lua_to_lines c ->
  lua_from_lines (lua_to_lines (c_lua c)) = Ok l0 ->
  ended_flag (lua_to_lines (c_lua c)) = ends_with_nl (code_text lua lua_to_lines c) ->
  code_in_format (code_text lua lua_to_lines c) = true ->
  exists file, write_p8 lua lua_from_lines lua_to_lines c = Ok file /\
    file = concat (file_lines lua lua_to_lines c) /\
    read_p8 lua lua_from_lines lua_empty file =
      (l' <- lua_from_lines (code_lines lua lua_to_lines c) ;; Ok (norm_cart lua c l')) /\
    concat (code_lines lua lua_to_lines c) = supply_nl (code_text lua lua_to_lines c).
Proof.
  intros c l0 W Hs He Hf.
  destruct (p8_roundtrip lua lua_from_lines lua_to_lines lua_empty c l0 W Hs He Hf) as (f & A & B & C).
  exists f. repeat split; try assumption.
  destruct W as (_ & _ & _ & _ & _ & _ & _ & _ & _ & _ & _ & _ & Hch).
  apply (code_lines_facts lua lua_to_lines c Hch).
Qed.

(* the writer's ended_in_newline flag is "the text ends in a newline" whenever the last chunk is not empty *)
Theorem C03_ended_flag : forall chunks,
  match rev chunks with [] => True | l :: _ => l <> [] end ->
  ended_flag chunks = ends_with_nl (concat chunks).
Proof. exact ended_flag_text. Qed.

(* Re-writing the re-read cart produces a byte-identical file, provided the re-read Lua object echoes
   the text it was lexed from (echo_stable: the lexer stack's obligation). *)
Theorem C03_rewrite_identical : forall (c : cart lua) l0 l',
  wf_cart lua lua_to_lines c ->
  lua_from_lines (lua_to_lines (c_lua c)) = Ok l0 ->
  ended_flag (lua_to_lines (c_lua c)) = ends_with_nl (code_text lua lua_to_lines c) ->
  code_in_format (code_text lua lua_to_lines c) = true ->
  echo_stable lua lua_from_lines lua_to_lines c l' ->
  write_p8 lua lua_from_lines lua_to_lines (norm_cart lua c l') = write_p8 lua lua_from_lines lua_to_lines c.
Proof. exact (p8_rewrite lua lua_from_lines lua_to_lines lua_empty). Qed.

(* Short sections.  Newer PICO-8 versions leave out the empty tail of a data section.  For every cart whose data
   regions stop early at a row boundary (wf_short: gfx / label k <= 128 rows of 64 bytes, gff <= 256 and map <= 4096
   bytes, music k <= 64 patterns; sfx whole) the file that spells out just those rows (file_lines: the section of a
   region of k rows has k lines) is what the writer produces for it, and READING that file gives every region at
   its full length: the bytes of the lines present followed by the empty default - zeros for gfx, label, gff and
   map, the silent pattern 41 42 43 44 for every music pattern left out.  (C03_roundtrip is the case of whole
   regions, where nothing is appended.) *)
Theorem C03_short_sections_padded : forall (c : cart lua) l0,
  wf_short lua lua_to_lines c ->
  lua_from_lines (lua_to_lines (c_lua c)) = Ok l0 ->
  ended_flag (lua_to_lines (c_lua c)) = ends_with_nl (code_text lua lua_to_lines c) ->
  code_in_format (code_text lua lua_to_lines c) = true ->
  exists file, write_p8 lua lua_from_lines lua_to_lines c = Ok file /\
    file = concat (file_lines lua lua_to_lines c) /\
    read_p8 lua lua_from_lines lua_empty file =
      (l' <- lua_from_lines (code_lines lua lua_to_lines c) ;; Ok (pad_cart lua (norm_cart lua c l'))) /\
    forall l', let c' := pad_cart lua (norm_cart lua c l') in
      c_version c' = c_version c /\ c_lua c' = l' /\ c_sfx c' = c_sfx c /\
      c_gfx c' = c_gfx c ++ repeat 0 (Z.to_nat 8192 - length (c_gfx c)) /\ length (c_gfx c') = Z.to_nat 8192 /\
      c_gff c' = c_gff c ++ repeat 0 (256 - length (c_gff c)) /\ length (c_gff c') = 256%nat /\
      c_map c' = c_map c ++ repeat 0 (Z.to_nat 4096 - length (c_map c)) /\ length (c_map c') = Z.to_nat 4096 /\
      c_music c' = music_norm (c_music c) ++ skipn (length (c_music c)) (concat (repeat [65; 66; 67; 68] 64)) /\
      length (c_music c') = 256%nat /\
      c_label c' = match c_label c with
                   | Some d => Some (d ++ repeat 0 (Z.to_nat 8192 - length d))
                   | None => None
                   end /\
      match c_label c' with Some d => length d = Z.to_nat 8192 | None => True end.
Proof.
  intros c l0 W Hs He Hf.
  destruct (p8_roundtrip_short lua lua_from_lines lua_to_lines lua_empty c l0 W Hs He Hf) as (f & A & B & C).
  exists f. split; [exact A|]. split; [exact B|]. split; [exact C|].
  intros l'. exact (pad_cart_facts lua lua_to_lines c l' W).
Qed.

(* ... and that reading is the cart the file DENOTES by the reference semantics of the format (Spec/P8Format.v "short
   sections", Spec/P8FileSpec.v denoted_p8cart): the instance predicate holds_C03_short - extracted and evaluated by
   the check on what the real from_file returns for files with short sections - holds of the model's reader, for any
   code text the Lua object echoes. *)
Theorem C03_short_holds : forall (c : cart lua) l' code,
  wf_short lua lua_to_lines c ->
  holds_C03_short (p8cart_of lua c code) false
                  (p8cart_of lua (pad_cart lua (norm_cart lua c l')) (supply_nl code)) = true.
Proof. exact (short_holds lua lua_to_lines). Qed.

(* every well-formed cart is such a cart (so the theorem above contains C03_roundtrip's reading clause) *)
Theorem C03_whole_is_short : forall (c : cart lua), wf_cart lua lua_to_lines c -> wf_short lua lua_to_lines c.
Proof. exact (wf_cart_short lua lua_to_lines). Qed.

End C03.

(* the default contents the code fills in (regenerated from the running code on every run: <Section>.empty()._data)
   are the empty defaults of the format description *)
Theorem C03_fill_defaults_are_the_formats :
  p8_pad_sections = [(0, repeat 0 (Z.to_nat 8192)); (2, repeat 0 (Z.to_nat 256)); (1, repeat 0 (Z.to_nat 4096));
                     (4, spec_default_sfx); (3, spec_default_music); (6, repeat 0 (Z.to_nat 8192))].
Proof. exact spec_defaults_are_code_defaults. Qed.
Print Assumptions C03_fill_defaults_are_the_formats.
Print Assumptions C03_short_holds.
Print Assumptions C03_short_sections_padded.
Print Assumptions C03_whole_is_short.
Print Assumptions C03_roundtrip.
Print Assumptions C03_ended_flag.
Print Assumptions C03_rewrite_identical.

(* The same with the Lua object instantiated by the lexer model (Model/Lexer.v, regenerated tables) and the
   echo writer (Model/EchoWriter.v): for every cart whose Lua object came out of the lexer, the file is written,
   reading it back re-lexes the written text successfully (no hypothesis), the re-read object echoes exactly
   that text with the final newline supplied, the regions / label / version are the same, and re-writing
   gives the identical file. Still assumed: the writer's own sanity re-lex of its echoed lines succeeds
   (once for the cart, once for the re-read cart) - a statement about lexing line chunks that end in a
   newline TOKEN rather than in a line feed - and that the parser accepts what the lexer accepts. *)
Theorem C03_roundtrip_lexer : forall (c : lex_cart) l0,
  wf_cart (list tok) echo c -> from_lexer c ->
  model_lex (echo (c_lua c)) = Ok l0 ->
  code_in_format (concat (echo (c_lua c))) = true ->
  exists file l',
    lex_write c = Ok file /\
    lex_read file = Ok (norm_cart (list tok) c l') /\
    concat (echo l') = supply_nl (concat (echo (c_lua c))) /\
    (forall l1, model_lex (echo l') = Ok l1 -> lex_write (norm_cart (list tok) c l') = Ok file).
Proof. exact p8_roundtrip_lexer. Qed.
Print Assumptions C03_roundtrip_lexer.

(* ... and with the sanity re-lex discharged as well: it succeeds whenever no newline token of the Lua object is
   a lone carriage return (always so for sources of the reference dialect: EchoStable.dialect_no_lone_cr;
   a CR not followed by LF is outside the reference grammar). No hypothesis about lexing is left for the
   written cart; for the byte-identical re-write the same side condition is asked of the re-read object. *)
Theorem C03_roundtrip_lexer_full : forall (c : lex_cart),
  wf_cart (list tok) echo c -> from_lexer c -> no_lone_cr_newline (c_lua c) ->
  code_in_format (concat (echo (c_lua c))) = true ->
  exists file l',
    lex_write c = Ok file /\
    lex_read file = Ok (norm_cart (list tok) c l') /\
    concat (echo l') = supply_nl (concat (echo (c_lua c))) /\
    (no_lone_cr_newline l' -> lex_write (norm_cart (list tok) c l') = Ok file).
Proof. exact p8_roundtrip_lexer_full. Qed.
Print Assumptions C03_roundtrip_lexer_full.

(* ... and for carts whose code was lexed from a byte text of the REFERENCE DIALECT (Spec/LuaLex.v), split after
   line feeds: no side condition about carriage returns at all - the text the echo writer yields for a source of the
   dialect is again in the dialect (C06_relex_reference / C06_echo_in_dialect), so the re-read cart is again such a
   cart (from_dialect is inherited: the round trip can be iterated) and re-writing it gives the identical file,
   unconditionally.  Hypotheses left: the cart is well formed and no echoed line reads as a section header. *)
Theorem C03_roundtrip_lexer_dialect : forall (c : lex_cart),
  wf_cart (list tok) echo c -> from_dialect c ->
  code_in_format (concat (echo (c_lua c))) = true ->
  exists file l',
    lex_write c = Ok file /\
    lex_read file = Ok (norm_cart (list tok) c l') /\
    concat (echo l') = supply_nl (concat (echo (c_lua c))) /\
    lex_write (norm_cart (list tok) c l') = Ok file /\
    from_dialect (norm_cart (list tok) c l').
Proof. exact p8_roundtrip_lexer_dialect. Qed.
Print Assumptions C03_roundtrip_lexer_dialect.

(* non-vacuity: a cart lexed from CRLF source lines with a re-spelled string, glyph bytes in a comment and no final
   newline meets the hypotheses *)
Definition ex_lines : list (list Z) := [[45; 45; 32; 128; 255; 13; 10]; unBS "s=""a\65"" print(s)"%bs].
Definition ex_lcart : lex_cart :=
  {| c_version := 41; c_lua := match model_lex ex_lines with Ok ts => ts | Err _ => [] end;
     c_gfx := repeat 7 (Z.to_nat 8192); c_label := Some (repeat 1 (Z.to_nat 8192));
     c_gff := repeat 255 256; c_map := repeat 3 (Z.to_nat 4096); c_sfx := repeat 9 4352;
     c_music := repeat 200 256 |}.
Example C03_dialect_nonvacuous :
  from_dialect ex_lcart /\ code_in_format (concat (echo (c_lua ex_lcart))) = true /\
  concat (echo (c_lua ex_lcart)) = [45; 45; 32; 128; 255; 13; 10] ++ unBS "s=""aA"" print(s)"%bs /\
  match lex_write ex_lcart with Ok f => match lex_read f with Ok c' => c_version c' =? 41 | Err _ => false end | Err _ => false end = true.
Proof.
  split; [|vm_compute; repeat split; reflexivity].
  exists ex_lines. split; [repeat constructor; exists [45; 45; 32; 128; 255; 13]; reflexivity|].
  split; [apply all_bytes_Forall; vm_compute; reflexivity|]. split; [vm_compute; discriminate | vm_compute; reflexivity].
Qed.

(* non-vacuity: with the identity lexer, a concrete cart (glyph bytes in a comment, no final newline,
   a label) meets every hypothesis *)
Example C03_nonvacuous :
  let c : cart (list (list Z)) :=
    {| c_version := 41; c_lua := [[45; 45; 32; 128; 255; 10]; [120; 61; 49]];
       c_gfx := repeat 7 (Z.to_nat 8192); c_label := Some (repeat 1 (Z.to_nat 8192));
       c_gff := repeat 255 256; c_map := repeat 3 (Z.to_nat 4096); c_sfx := repeat 9 4352;
       c_music := repeat 200 256 |} in
  code_in_format (code_text _ (fun l => l) c) = true /\
  ended_flag (c_lua c) = ends_with_nl (code_text _ (fun l => l) c) /\
  match write_p8_of_chunks c with Ok f => match read_p8_chunks f with Ok c' => c_version c' =? 41 | Err _ => false end | Err _ => false end = true.
Proof. vm_compute. repeat split; reflexivity. Qed.

(* non-vacuity of C03_short_sections_padded: (1) a cart with a two-row gfx region, a one-pattern music region, a
   one-row label, no gff and map bytes at all meets every hypothesis (identity lexer), its file has a two-line
   __gfx__ and a one-line __music__ section, and reading it gives whole regions; (2) a file the way PICO-8 writes it
   (no blank lines, sections left out altogether) reads to whole regions: the two rows, then zeros; the one pattern
   (loop-start flag in bit 7 of its first byte), then 41 42 43 44 ... *)
Definition ex_short : cart (list (list Z)) :=
  {| c_version := 41; c_lua := [[120; 61; 49; 10]];
     c_gfx := repeat 18 64 ++ repeat 52 64; c_label := Some (repeat 255 64);
     c_gff := []; c_map := []; c_sfx := repeat 9 4352; c_music := [129; 2; 3; 68] |}.
Definition ex_short_file : list Z :=
  unBS "pico-8 cartridge // http://www.pico-8.com"%bs ++ [10] ++ unBS "version 41"%bs ++ [10] ++ unBS "__lua__"%bs ++ [10] ++ unBS "x=1"%bs ++ [10] ++
  unBS "__gfx__"%bs ++ [10] ++ repeat 49 128 ++ [10] ++ repeat 50 128 ++ [10] ++
  unBS "__music__"%bs ++ [10] ++ unBS "01 01020344"%bs ++ [10].
Example C03_short_nonvacuous :
  wf_short _ (fun l => l) ex_short /\
  code_in_format (code_text _ (fun l => l) ex_short) = true /\
  ended_flag (c_lua ex_short) = ends_with_nl (code_text _ (fun l => l) ex_short) /\
  match write_p8_of_chunks ex_short with
  | Ok f => match read_p8_chunks f with
            | Ok c' => (zlen (c_gfx c') =? 8192) && zlist_eqb (firstn 130 (c_gfx c')) (c_gfx ex_short ++ [0; 0]) &&
                       zlist_eqb (firstn 12 (c_music c')) [129; 2; 3; 68; 65; 66; 67; 68; 65; 66; 67; 68] &&
                       (zlen (c_music c') =? 256) && (zlen (c_map c') =? 4096) && (zlen (c_gff c') =? 256) &&
                       match c_label c' with Some d => zlen d =? 8192 | None => false end
            | Err _ => false
            end
  | Err _ => false
  end = true /\
  match read_p8_chunks ex_short_file with
  | Ok c' => (zlen (c_gfx c') =? 8192) && zlist_eqb (firstn 130 (c_gfx c')) (repeat 17 64 ++ repeat 34 64 ++ [0; 0]) &&
             zlist_eqb (c_music c') ([129; 2; 3; 68] ++ concat (repeat [65; 66; 67; 68] 63)) &&
             zlist_eqb (c_map c') (repeat 0 (Z.to_nat 4096)) && (zlen (c_sfx c') =? 4352) &&
             match c_label c' with None => true | Some _ => false end
  | Err _ => false
  end = true.
Proof.
  split; [|vm_compute; repeat split; reflexivity].
  unfold wf_short, ex_short. cbn [c_version c_lua c_gfx c_label c_gff c_map c_sfx c_music].
  repeat split; try (apply all_bytes_Forall; vm_compute; reflexivity); try (cbn; lia).
  - exists 2%nat. split; [reflexivity | lia].
  - exists 1%nat. split; [reflexivity | lia].
  - exists 1%nat. split; [reflexivity | lia].
  - repeat constructor; unfold byte; lia.
Qed.
