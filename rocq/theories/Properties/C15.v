(* C15 - P8SCII <-> Unicode text conversion is a bijection on all byte strings.
   The tables are the regenerated runtime values of lua.py; the decidable side conditions
   are recomputed on them by vm_compute on every run; the theorems quantify over all
   byte strings of any length. *)
From PV Require Import Base.Prelude Base.Utf8 Generated.T_p8scii Model.P8scii Model.P8sciiInst Proofs.P8sciiProofs Proofs.P8sciiTable.

Notation p2u := p8_p2u.
Notation u2p := p8_u2p.
Notation spelling := p8_spelling.

(* converting any byte string to Unicode text and back returns the original bytes *)
Theorem C15_roundtrip : forall bs, Forall byte bs -> u2p (p2u bs) = Ok bs.
Proof. exact (fun bs H => u2p_p2u _ _ _ bs table_ok_now H). Qed.
Print Assumptions C15_roundtrip.

(* distinct spellings, none a prefix of another (in particular none equal) *)
Theorem C15_distinct_prefix_free : forall i j, byte i -> byte j -> i <> j ->
  ~ exists r, spelling j = spelling i ++ r.
Proof. exact (prefix_free_spec _ prefix_free_now). Qed.
Print Assumptions C15_distinct_prefix_free.

(* the Unicode text is always encodable as UTF-8 and decodes back to itself *)
Theorem C15_utf8 : forall bs, Forall byte bs ->
  Forall valid_scalar (p2u bs) /\ utf8_decode (utf8_encode (p2u bs)) = Some (p2u bs).
Proof.
  intros bs H. pose proof (p2u_valid _ bs scalars_ok_now H) as Hv.
  split; [exact Hv | apply utf8_decode_encode; exact Hv].
Qed.
Print Assumptions C15_utf8.

(* the whole .p8 text path: bytes -> Unicode -> UTF-8 -> Unicode -> bytes *)
Theorem C15_utf8_roundtrip : forall bs, Forall byte bs ->
  match utf8_decode (utf8_encode (p2u bs)) with Some s => u2p s = Ok bs | None => False end.
Proof.
  intros bs H. destruct (C15_utf8 bs H) as [_ E]. rewrite E. apply C15_roundtrip. exact H.
Qed.
Print Assumptions C15_utf8_roundtrip.

Example C15_nonvacuous : Forall byte [0; 10; 65; 131; 142; 255] /\ p2u [65; 131] = [65; 11015; 65039].
Proof. split; [repeat constructor; unfold byte; lia | vm_compute; reflexivity]. Qed.
