(* C19 - luamin keeps the title and author comments that PICO-8 reads.
   Same model, reference lexer and hypothesis [lexer_agrees] (= C07) as Properties/C01.v. *)
From PV Require Proofs.LexerChunk.
From PV Require Import Base.Prelude Spec.LuaLex Instances.HoldsC02 Instances.HoldsC01
  Generated.T_lexer Model.NameFactory Model.Lexer Model.TokWriters
  Proofs.LuaLexFacts Proofs.TokWritersProofs Proofs.MinifyRelex Proofs.MinifyRelations Proofs.MinifyEndToEnd Proofs.MinifyCount Proofs.MinifyChunks.

(* the first two comments that precede any code ([leading_comments]) are written verbatim, each
   followed by a line break, at the very top of the text ([header_text] is a prefix); under the
   reference rules the output starts with exactly these comment tokens, each followed by a newline
   token ([after_header]); no other comment token is in the output; the title and byline `stats`
   derives are those of the two comments ([titles_ok]); and there are as many code tokens as before
   (a comment never turns into code, code never into a comment) *)
Theorem C19_header : forall cfg src ss ts chunks,
  spec_toks src = Some ss -> lexer_agrees ss ts -> minify cfg ts = Ok chunks ->
  exists ss' rest body, spec_toks (concat chunks) = Some ss'
    /\ concat chunks = header_text (firstn 2 (leading_comments ss)) ++ body
    /\ after_header (firstn 2 (leading_comments ss)) ss' = Some rest /\ no_comments rest = true
    /\ titles_ok ss ss' = true
    /\ length (sig_toks ss') = length (sig_toks ss).
Proof. exact luamin_header_text. Qed.
Print Assumptions C19_header.

Theorem C19_holds : forall cfg src ss ts chunks,
  spec_toks src = Some ss -> lexer_agrees ss ts -> minify cfg ts = Ok chunks ->
  holds_C19 src (concat chunks) = true.
Proof. exact holds_C19_minify. Qed.
Print Assumptions C19_holds.

Theorem C19_holds_spec_tokens : forall cfg src ss chunks,
  spec_toks src = Some ss -> minify_gen cfg (map sk ss) = Ok chunks -> holds_C19 src (concat chunks) = true.
Proof. exact holds_C19_luamin. Qed.
Print Assumptions C19_holds_spec_tokens.

(* the writer always yields, and both instance predicates hold of what it yields *)
Theorem C19_total : forall cfg src ss ts, spec_toks src = Some ss -> lexer_agrees ss ts ->
  exists chunks, minify cfg ts = Ok chunks /\ holds_C01 src (concat chunks) = true /\ holds_C19 src (concat chunks) = true.
Proof. exact luamin_total. Qed.
Print Assumptions C19_total.

(* composed with C07 (lex_agrees_code of the lexer worker): from the source bytes through lexer model
   and writer model, no hypothesis about the lexer *)
Theorem C19_end_to_end : forall cfg src ss, Forall byte src -> spec_toks src = Some ss ->
  exists out, luamin_text cfg [src] = Ok out /\ holds_C01 src out = true /\ holds_C19 src out = true.
Proof. exact luamin_end_to_end. Qed.
Print Assumptions C19_end_to_end.

Theorem C19_lines : forall cfg ls out,
  Forall LexerChunk.ends_lf (removelast ls) -> Forall byte (concat ls) -> luamin_text cfg ls = Ok out ->
  holds_C01 (concat ls) out = true /\ holds_C19 (concat ls) out = true.
Proof. exact luamin_lines_all. Qed.
Print Assumptions C19_lines.

(* per-line chunks (R4): C19_lines above is C01_holds_all for chunk lists; here the totality statement and the
   header statement itself, from the lines the .p8 reader / Lua.from_lines feed to the lexer *)
Theorem C19_end_to_end_chunks : forall cfg ls ss,
  Forall LexerChunk.ends_lf (removelast ls) -> Forall byte (concat ls) -> spec_toks (concat ls) = Some ss ->
  exists out, luamin_text cfg ls = Ok out /\ holds_C01 (concat ls) out = true /\ holds_C19 (concat ls) out = true.
Proof. exact luamin_lines. Qed.
Print Assumptions C19_end_to_end_chunks.

Theorem C19_header_chunks : forall cfg ls ss,
  Forall LexerChunk.ends_lf (removelast ls) -> Forall byte (concat ls) -> spec_toks (concat ls) = Some ss ->
  exists out ss' rest body, luamin_text cfg ls = Ok out /\ spec_toks out = Some ss'
    /\ out = header_text (firstn 2 (leading_comments ss)) ++ body
    /\ after_header (firstn 2 (leading_comments ss)) ss' = Some rest /\ no_comments rest = true
    /\ titles_ok ss ss' = true
    /\ length (sig_toks ss') = length (sig_toks ss).
Proof. exact (fun cfg ls ss H => luamin_chunks_header cfg ls ss (lines_same_as_joined ls H)). Qed.
Print Assumptions C19_header_chunks.

(* what the title / byline rule of `stats` reads from a text that starts with the header *)
Theorem C19_titles : forall hc out rest, after_header hc out = Some rest ->
  match hc with
  | [] => True
  | [c1] => stats_title out = Some (comment_text c1)
  | c1 :: c2 :: _ => stats_title out = Some (comment_text c1) /\ stats_byline out = Some (comment_text c2)
  end.
Proof. exact after_header_titles. Qed.
Print Assumptions C19_titles.

(* ---------- non-vacuity ---------- *)
Example C19_example :
  let src := unBS "

  -- title
// by me

--[[ third ]] x=1 -- late
--[[ l2 ]] y=2
"%bs in
  exists ss ts chunks, spec_toks src = Some ss /\ model_lex [src] = Ok ts /\ lexer_agrees ss ts /\
    minify (mk_config false None) ts = Ok chunks /\
    concat chunks = unBS "-- title
// by me
a=1
b=2
"%bs /\ map s_raw (firstn 2 (leading_comments ss)) = [unBS "-- title"%bs; unBS "// by me"%bs].
Proof.
  cbv zeta. eexists. eexists. eexists. split; [vm_compute; reflexivity|]. split; [vm_compute; reflexivity|].
  split; [vm_compute; reflexivity|]. split; [vm_compute; reflexivity|]. split; vm_compute; reflexivity.
Qed.

(* a block comment header with code on its line; one leading comment only *)
Example C19_block_same_line :
  let src := unBS "--[[ t ]] x=1"%bs in
  exists ss chunks, spec_toks src = Some ss /\ minify_gen (mk_config false None) (map sk ss) = Ok chunks /\
    concat chunks = unBS "--[[ t ]]
a=1"%bs.
Proof.
  cbv zeta. eexists. eexists. split; [vm_compute; reflexivity|]. split; vm_compute; reflexivity.
Qed.

(* per-line chunks: the header example fed line by line *)
Example C19_chunks_example :
  let ls := [[10]; unBS "  -- title"%bs ++ [10]; unBS "// by me"%bs ++ [10]; [10]; unBS "--[[ third ]] x=1 -- late"%bs ++ [10];
             unBS "--[[ l2 ]] y=2"%bs] in
  exists ss, spec_toks (concat ls) = Some ss /\ Forall LexerChunk.ends_lf (removelast ls) /\
    luamin_text (mk_config false None) ls = Ok (unBS "-- title
// by me
a=1
b=2"%bs).
Proof.
  cbv zeta. eexists. split; [vm_compute; reflexivity|]. split; [|vm_compute; reflexivity].
  apply ends_lf_check. vm_compute. reflexivity.
Qed.
