(* C19 - luamin keeps the title and author comments (work in progress: first theorems). *)
From PV Require Import Base.Prelude Generated.T_lexer Model.NameFactory Model.Lexer Model.TokWriters
  Proofs.TokWritersProofs.

Theorem C19_minify_total : forall cfg ts, exists chunks, minify cfg ts = Ok chunks.
Proof. exact minify_total. Qed.
Print Assumptions C19_minify_total.
