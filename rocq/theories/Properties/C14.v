(* C14 - build embeds each require()d package once and leaves all code intact.
   Property theorems only; proofs live in Proofs/ReqEmbedProofs.v and Proofs/ReqEmbedInstProofs.v.

   The first group is stated for the embedding model of Model/ReqEmbed.v over an ARBITRARY Lua text
   stack (lexer + parser [parse_lines], token echo [echo], game-loop stripping [strip], require
   walker [walk]), ARBITRARY name check and file lookup [find] (every file map, every load path) and
   arbitrary constants - hence also for the concrete instance of Model/ReqEmbedInst.v, for which the
   second group gives the fuel bound. *)
From PV Require Import Base.Prelude Model.ReqEmbed Model.ReqEmbedInst Proofs.ReqEmbedProofs
  Proofs.ReqEmbedInstProofs.

Section Abstract.
Variable P : Type.
Variable parse_lines : list bytes -> result P.
Variable echo : P -> list bytes.
Variable strip : P -> result P.
Variable walk : P -> list (bytes * bool) * option err.
Variable file_lines : bytes -> list bytes.
Variable check_name : bytes -> result unit.
Variable find : bytes -> bytes -> option (bytes * bytes).
Variable preamble_package preamble_require : list bytes.
Variable header_line : bytes -> bytes.
Variable end_line nl_line : bytes.

Notation build_lua := (build_lua P parse_lines echo strip walk file_lines check_name find
                                 preamble_package preamble_require header_line end_line nl_line).
Notation build_code := (build_code P parse_lines echo strip walk file_lines check_name find
                                   preamble_package preamble_require header_line end_line nl_line).
Notation eval := (eval P parse_lines strip walk file_lines check_name find).
Notation load := (load P parse_lines strip file_lines find).
Notation block := (block P echo header_line end_line nl_line).
Notation names := (names P).
Notation req_names := (req_names P walk).
Notation reachable := (reachable P walk).
Notation disc := (disc P walk).
Notation loaded := (loaded P parse_lines strip file_lines find).

(* structure: when packages were required, the text handed to the final lexer + parser is the
   package preamble, one block per package of the table (header line, the package's lines, a
   newline if its last line has none, `end`), the require() preamble, the main program's lines *)
Theorem C14_structure : forall fuel main_path main_content r pk,
  build_lua fuel main_path main_content = Ok (r, pk) ->
  exists m, parse_lines (file_lines main_content) = Ok m /\ eval fuel m main_path [] = Ok pk /\
    match pk with
    | [] => r = m
    | _ => parse_lines (preamble_package ++ flat_map block pk ++ preamble_require ++ echo m) = Ok r
    end.
Proof. exact (build_structure P parse_lines echo strip walk file_lines check_name find
                               preamble_package preamble_require header_line end_line nl_line). Qed.

(* the same on the bytes of the __lua__ section, for any lexer whose token echo is faithful (this
   hypothesis is property C06's statement): the main program's bytes are unchanged at the end, and a
   package required with {use_game_loop=true} is embedded byte for byte *)
Theorem C14_structure_bytes :
  (forall ls q, parse_lines ls = Ok q -> concat (echo q) = concat ls) ->
  (forall c, concat (file_lines c) = c) ->
  forall fuel main_path main_content out,
  build_code fuel main_path main_content = Ok out ->
  exists r pk tail, build_lua fuel main_path main_content = Ok (r, pk) /\ (tail = [] \/ tail = [10]) /\
    out = match pk with
          | [] => main_content
          | _ => concat preamble_package ++ concat (map (fun e => concat (block e)) pk)
                 ++ concat preamble_require ++ main_content
          end ++ tail.
Proof. exact (build_code_bytes P parse_lines echo strip walk file_lines check_name find
                                preamble_package preamble_require header_line end_line nl_line). Qed.

Theorem C14_unstripped_block :
  (forall ls q, parse_lines ls = Ok q -> concat (echo q) = concat ls) ->
  (forall c, concat (file_lines c) = c) ->
  forall rpath n qpath q, load rpath n true = Ok (qpath, q) ->
  exists content, find rpath n = Some (qpath, content) /\ concat (echo q) = content.
Proof. exact (block_of_unstripped P parse_lines echo strip file_lines find). Qed.

(* once: the names of the table are distinct; they are exactly the names reachable through
   require() from the main program; every package comes after something that asked for it (order of
   first use); every package is a located file, lexed, parsed and stripped unless asked not to *)
Theorem C14_once : forall fuel main_path main_content r pk,
  build_lua fuel main_path main_content = Ok (r, pk) ->
  exists m, parse_lines (file_lines main_content) = Ok m /\
    NoDup (names pk) /\
    (forall n, In n (names pk) <-> reachable m pk n) /\
    disc (req_names m) pk /\
    Forall loaded pk.
Proof. exact (build_once P parse_lines echo strip walk file_lines check_name find
                          preamble_package preamble_require header_line end_line nl_line). Qed.

(* errors: a build that succeeds met, in the main program and in every embedded package, no
   exception of the require walker (bad arguments), no refused name and no missing file ... *)
Theorem C14_errors : forall fuel main_path main_content r pk,
  build_lua fuel main_path main_content = Ok (r, pk) ->
  exists m, parse_lines (file_lines main_content) = Ok m /\
    forall q, (q = m \/ exists n, In (n, q) pk) ->
      snd (walk q) = None /\
      forall n gl, In (n, gl) (fst (walk q)) ->
        check_name n = Ok tt /\
        exists q' rpath gl' qpath, In (n, q') pk /\ load rpath n gl' = Ok (qpath, q').
Proof. exact (build_no_errors P parse_lines echo strip walk file_lines check_name find
                               preamble_package preamble_require header_line end_line nl_line). Qed.

(* ... so each of the three makes the build fail (no output), whatever the fuel *)
Theorem C14_errors_bad_arguments : forall fuel main_path main_content m e,
  parse_lines (file_lines main_content) = Ok m -> snd (walk m) = Some e ->
  exists e', build_lua fuel main_path main_content = Err e'.
Proof. exact (build_bad_arguments P parse_lines echo strip walk file_lines check_name find
                                   preamble_package preamble_require header_line end_line nl_line). Qed.

Theorem C14_errors_bad_name : forall fuel main_path main_content m n gl e,
  parse_lines (file_lines main_content) = Ok m -> In (n, gl) (fst (walk m)) -> check_name n = Err e ->
  exists e', build_lua fuel main_path main_content = Err e'.
Proof. exact (build_bad_name P parse_lines echo strip walk file_lines check_name find
                              preamble_package preamble_require header_line end_line nl_line). Qed.

Theorem C14_errors_missing_file : forall fuel main_path main_content m n gl,
  parse_lines (file_lines main_content) = Ok m -> In (n, gl) (fst (walk m)) ->
  (forall rpath, find rpath n = None) ->
  exists e', build_lua fuel main_path main_content = Err e'.
Proof. exact (build_missing_file P parse_lines echo strip walk file_lines check_name find
                                  preamble_package preamble_require header_line end_line nl_line). Qed.

(* termination: if every require string any loadable package or the main program can yield lies in
   a list U, then |U| + 1 levels of recursion suffice - a larger fuel never changes the result
   (cycles stop at the visited check; the table only grows) *)
Theorem C14_terminates : forall (U : list bytes) fuel fuel' main_path main_content,
  (forall rpath n gl qpath q, load rpath n gl = Ok (qpath, q) -> incl (req_names q) U) ->
  (forall m, parse_lines (file_lines main_content) = Ok m -> incl (req_names m) U) ->
  (length U < fuel)%nat -> (fuel <= fuel')%nat ->
  build_lua fuel' main_path main_content = build_lua fuel main_path main_content.
Proof. exact (build_fuel P parse_lines echo strip walk file_lines check_name find
                         preamble_package preamble_require header_line end_line nl_line). Qed.
End Abstract.

(* the concrete instance: lexer and parser models, walker and stripping as in build.py, the
   regenerated constants, a finite file map [fs] keyed by normalised absolute path, any load path:
   the fuel the runner supplies (1 + number of require strings occurring in the files of the map and
   the main program) is enough *)
Theorem C14_terminates_now : forall cwd fs lua_path main_path main_content fuel',
  (fuel_now fs main_content <= fuel')%nat ->
  build_lua_now cwd fs lua_path fuel' main_path main_content =
  build_lua_now cwd fs lua_path (fuel_now fs main_content) main_path main_content.
Proof. exact build_fuel_now. Qed.

Print Assumptions C14_structure.
Print Assumptions C14_structure_bytes.
Print Assumptions C14_unstripped_block.
Print Assumptions C14_once.
Print Assumptions C14_errors.
Print Assumptions C14_errors_bad_arguments.
Print Assumptions C14_errors_bad_name.
Print Assumptions C14_errors_missing_file.
Print Assumptions C14_terminates.
Print Assumptions C14_terminates_now.
