(* C14 - build embeds each require()d package once and leaves all code intact.
   Property theorems only; proofs live in Proofs/ReqEmbedProofs.v and Proofs/ReqEmbedInstProofs.v.

   The first group is stated for the embedding model of Model/ReqEmbed.v over an ARBITRARY Lua text
   stack (lexer + parser [parse_lines], token echo [echo], game-loop stripping [strip], require
   walker [walk]), ARBITRARY name check and file lookup [find] (every file map, every load path) and
   arbitrary constants - hence also for the concrete instance of Model/ReqEmbedInst.v, for which the
   second group gives the fuel bound. *)
From PV Require Import Base.Prelude Spec.LuaLex Instances.HoldsC01 Generated.T_files_build Model.ReqEmbed
  Model.ReqEmbedInst Proofs.ReqEmbedProofs Proofs.ReqEmbedInstProofs Proofs.SpecLexChunk Proofs.ReqEmbedSpecTokens
  Instances.HoldsC06 Proofs.LexerChunk Proofs.ReqEmbedEchoGood Proofs.LexerChunkNl Proofs.ReqEmbedSepNl Proofs.SpecLexCut Proofs.StripRelex Proofs.ReqEmbedStrip.
From PV Require Spec.RequireSpec.

Section Abstract.
Variable P : Type.
Variable parse_lines : list bytes -> result P.
Variable echo : P -> list bytes.
Variable strip : P -> result P.
Variable walk : P -> list (bytes * bool) * option err.
Variable file_lines : bytes -> list bytes.
Variable check_name : bytes -> result unit.
Variable find : bytes -> bytes -> option (bytes * bytes).
Variable preamble_package preamble_require : list bytes.
Variable header_line : bytes -> bytes.
Variable end_line nl_line : bytes.

Notation build_lua := (build_lua P parse_lines echo strip walk file_lines check_name find
                                 preamble_package preamble_require header_line end_line nl_line).
Notation build_code := (build_code P parse_lines echo strip walk file_lines check_name find
                                   preamble_package preamble_require header_line end_line nl_line).
Notation eval := (eval P parse_lines strip walk file_lines check_name find).
Notation load := (load P parse_lines strip file_lines find).
Notation block := (block P echo header_line end_line nl_line).
Notation names := (names P).
Notation req_names := (req_names P walk).
Notation reachable := (reachable P walk).
Notation disc := (disc P walk).
Notation loaded := (loaded P parse_lines strip file_lines find).

(* structure: when packages were required, the text handed to the final lexer + parser is the
   package preamble, one block per package of the table (header line, the package's lines, a
   newline if its last line has none, `end`), the require() preamble, the main program's lines *)
Theorem C14_structure : forall fuel main_path main_content r pk,
  build_lua fuel main_path main_content = Ok (r, pk) ->
  exists m, parse_lines (file_lines main_content) = Ok m /\ eval fuel m main_path [] = Ok pk /\
    match pk with
    | [] => r = m
    | _ => parse_lines (preamble_package ++ flat_map block pk ++ preamble_require ++ echo m) = Ok r
    end.
Proof. exact (build_structure P parse_lines echo strip walk file_lines check_name find
                               preamble_package preamble_require header_line end_line nl_line). Qed.

(* the same on the bytes of the __lua__ section, for any lexer whose token echo is byte-faithful: the
   main program's bytes are unchanged at the end, and a package required with {use_game_loop=true} is
   embedded byte for byte.  (picotool's echo is byte-faithful except that a quoted string with a
   non-canonical spelling is re-spelled - C06; the token-level theorems below need only the
   token-faithful echo.) *)
Theorem C14_structure_bytes :
  (forall ls q, parse_lines ls = Ok q -> concat (echo q) = concat ls) ->
  (forall c, concat (file_lines c) = c) ->
  forall fuel main_path main_content out,
  build_code fuel main_path main_content = Ok out ->
  exists r pk tail, build_lua fuel main_path main_content = Ok (r, pk) /\ (tail = [] \/ tail = [10]) /\
    out = match pk with
          | [] => main_content
          | _ => concat preamble_package ++ concat (map (fun e => concat (block e)) pk)
                 ++ concat preamble_require ++ main_content
          end ++ tail.
Proof. exact (build_code_bytes P parse_lines echo strip walk file_lines check_name find
                                preamble_package preamble_require header_line end_line nl_line). Qed.

Theorem C14_unstripped_block :
  (forall ls q, parse_lines ls = Ok q -> concat (echo q) = concat ls) ->
  (forall c, concat (file_lines c) = c) ->
  forall rpath n qpath q, load rpath n true = Ok (qpath, q) ->
  exists content, find rpath n = Some (qpath, content) /\ concat (echo q) = content.
Proof. exact (block_of_unstripped P parse_lines echo strip file_lines find). Qed.

(* once: the names of the table are distinct; they are exactly the names reachable through
   require() from the main program; every package comes after something that asked for it (order of
   first use); every package is a located file, lexed, parsed and stripped unless asked not to *)
Theorem C14_once : forall fuel main_path main_content r pk,
  build_lua fuel main_path main_content = Ok (r, pk) ->
  exists m, parse_lines (file_lines main_content) = Ok m /\
    NoDup (names pk) /\
    (forall n, In n (names pk) <-> reachable m pk n) /\
    disc (req_names m) pk /\
    Forall loaded pk.
Proof. exact (build_once P parse_lines echo strip walk file_lines check_name find
                          preamble_package preamble_require header_line end_line nl_line). Qed.

(* errors: a build that succeeds met, in the main program and in every embedded package, no
   exception of the require walker (bad arguments), no refused name and no missing file ... *)
Theorem C14_errors : forall fuel main_path main_content r pk,
  build_lua fuel main_path main_content = Ok (r, pk) ->
  exists m, parse_lines (file_lines main_content) = Ok m /\
    forall q, (q = m \/ exists n, In (n, q) pk) ->
      snd (walk q) = None /\
      forall n gl, In (n, gl) (fst (walk q)) ->
        check_name n = Ok tt /\
        exists q' rpath gl' qpath, In (n, q') pk /\ load rpath n gl' = Ok (qpath, q').
Proof. exact (build_no_errors P parse_lines echo strip walk file_lines check_name find
                               preamble_package preamble_require header_line end_line nl_line). Qed.

(* ... so each of the three makes the build fail (no output), whatever the fuel *)
Theorem C14_errors_bad_arguments : forall fuel main_path main_content m e,
  parse_lines (file_lines main_content) = Ok m -> snd (walk m) = Some e ->
  exists e', build_lua fuel main_path main_content = Err e'.
Proof. exact (build_bad_arguments P parse_lines echo strip walk file_lines check_name find
                                   preamble_package preamble_require header_line end_line nl_line). Qed.

Theorem C14_errors_bad_name : forall fuel main_path main_content m n gl e,
  parse_lines (file_lines main_content) = Ok m -> In (n, gl) (fst (walk m)) -> check_name n = Err e ->
  exists e', build_lua fuel main_path main_content = Err e'.
Proof. exact (build_bad_name P parse_lines echo strip walk file_lines check_name find
                              preamble_package preamble_require header_line end_line nl_line). Qed.

Theorem C14_errors_missing_file : forall fuel main_path main_content m n gl,
  parse_lines (file_lines main_content) = Ok m -> In (n, gl) (fst (walk m)) ->
  (forall rpath, find rpath n = None) ->
  exists e', build_lua fuel main_path main_content = Err e'.
Proof. exact (build_missing_file P parse_lines echo strip walk file_lines check_name find
                                  preamble_package preamble_require header_line end_line nl_line). Qed.

(* the search is exactly the fuel-free depth-first relation Run (Proofs/ReqEmbedProofs.v: for each
   require of a name not yet in the table, append the package, then everything its own evaluation
   appends, then go on): some fuel computes pk' iff pk' = pk ++ new for a run of the relation *)
Theorem C14_dfs_exact : forall p path pk pk',
  (exists k, eval k p path pk = Ok pk') <->
  (exists new, pk' = pk ++ new /\ Run P parse_lines strip walk file_lines check_name find p path pk new).
Proof. exact (eval_iff_Run P parse_lines strip walk file_lines check_name find). Qed.

(* termination: if every require string any loadable package or the main program can yield lies in
   a list U, then |U| + 1 levels of recursion suffice - a larger fuel never changes the result
   (cycles stop at the visited check; the table only grows) *)
Theorem C14_terminates : forall (U : list bytes) fuel fuel' main_path main_content,
  (forall rpath n gl qpath q, load rpath n gl = Ok (qpath, q) -> incl (req_names q) U) ->
  (forall m, parse_lines (file_lines main_content) = Ok m -> incl (req_names m) U) ->
  (length U < fuel)%nat -> (fuel <= fuel')%nat ->
  build_lua fuel' main_path main_content = build_lua fuel main_path main_content.
Proof. exact (build_fuel P parse_lines echo strip walk file_lines check_name find
                         preamble_package preamble_require header_line end_line nl_line). Qed.

(* tokens (partial): relative to a reference tokenizer [sigt] (significant tokens of a text, None if it
   does not lex) that has the CHUNKING property - the three hypotheses on sigt below, which are the
   lexer stack's C07 chunking lemma - and to the TOKEN-faithful echo of the lexer (C06: the echoed text
   has the source's tokens; quoted strings may be re-spelled with the same denotation), the significant tokens of the
   cart's code are: the tokens of the package preamble, then for each table entry the tokens of its
   header line, of the package's echoed code and of `end`, then the tokens of the require()
   preamble, then the main program's tokens, unchanged.  Not discharged for the concrete stack
   (hence _partial); what is NOT covered even relative to the hypotheses is the link between the
   echoed code of a stripped package and the package's tokens minus its game loop functions - that
   clause is checked on every run by the monitor holds_C14. *)
Theorem C14_tokens_partial : forall (T : Type) (sigt : bytes -> option (list T)) (good : list bytes -> Prop),
  (forall a b ta tb, ends_with_nl a = true -> sigt a = Some ta -> sigt b = Some tb ->
                     sigt (a ++ b) = Some (ta ++ tb)) ->
  (forall a ta, sigt a = Some ta -> sigt (a ++ [10]) = Some ta) ->
  sigt [] = Some [] ->
  (forall ls q t, good ls -> parse_lines ls = Ok q -> sigt (concat ls) = Some t -> sigt (concat (echo q)) = Some t) ->
  (forall c, concat (file_lines c) = c) ->
  nl_line = [10] ->
  (forall n, ends_with_nl (header_line n) = true) ->
  ends_with_nl end_line = true ->
  Forall (fun l => ends_with_nl l = true) preamble_package ->
  Forall (fun l => ends_with_nl l = true) preamble_require ->
  forall fuel main_path main_content out,
  build_code fuel main_path main_content = Ok out ->
  exists r pk, build_lua fuel main_path main_content = Ok (r, pk) /\
    let toks := toks T sigt in
    let lexes := lexes T sigt in
    (Forall lexes preamble_package -> Forall lexes preamble_require -> lexes end_line ->
     Forall (fun e => lexes (header_line (fst e)) /\ lexes (concat (echo (snd e)))) pk ->
     lexes main_content ->
     good (file_lines main_content) ->
     (forall m, parse_lines (file_lines main_content) = Ok m ->
                good (prepend_lines P echo preamble_package preamble_require header_line end_line nl_line m pk)) ->
     sigt out = Some match pk with
                     | [] => toks main_content
                     | _ => concat (map toks preamble_package)
                            ++ concat (map (fun e => toks (header_line (fst e)) ++ toks (concat (echo (snd e)))
                                                     ++ toks end_line) pk)
                            ++ concat (map toks preamble_require) ++ toks main_content
                     end).
Proof.
  exact (fun T sigt good H1 H2 H3 =>
    build_code_tokens P parse_lines echo strip walk file_lines check_name find
      preamble_package preamble_require header_line end_line nl_line T sigt H1 H2 H3 good).
Qed.

(* ... and, relative to one more hypothesis - the stripping step acts on significant tokens as a
   function [sstrip] does (for the concrete stack: as Spec/RequireSpec.spec_strip, the removal of the
   top-level game loop function definitions) - every embedded package's tokens are its file's tokens,
   minus only what [sstrip] removes unless {use_game_loop=true} was in force when it was loaded *)
Theorem C14_block_tokens_partial : forall (T : Type) (sigt : bytes -> option (list T)) (good : list bytes -> Prop)
    (sstrip : list T -> list T),
  (forall ls q t, good ls -> parse_lines ls = Ok q -> sigt (concat ls) = Some t -> sigt (concat (echo q)) = Some t) ->
  (forall c, concat (file_lines c) = c) ->
  (forall q q', strip q = Ok q' -> sigt (concat (echo q')) = option_map sstrip (sigt (concat (echo q)))) ->
  forall fuel main_path main_content r pk,
  build_lua fuel main_path main_content = Ok (r, pk) ->
  Forall (fun e => exists rpath (gl : bool) qpath content, find rpath (fst e) = Some (qpath, content) /\
            (lexes T sigt content -> good (file_lines content) ->
             lexes T sigt (concat (echo (snd e))) /\
             toks T sigt (concat (echo (snd e))) =
               if gl then toks T sigt content else sstrip (toks T sigt content))) pk.
Proof.
  exact (fun T sigt good sstrip He Hf Hs =>
    build_block_tokens P parse_lines echo strip walk file_lines check_name find
      preamble_package preamble_require header_line end_line nl_line T sigt good He Hf sstrip Hs).
Qed.
End Abstract.

(* the concrete instance: lexer and parser models, walker and stripping as in build.py, the
   regenerated constants, a finite file map [fs] keyed by normalised absolute path, any load path:
   the fuel the runner supplies (1 + number of require strings occurring in the files of the map and
   the main program) is enough *)
Theorem C14_terminates_now : forall cwd fs lua_path main_path main_content fuel',
  (fuel_now fs main_content <= fuel')%nat ->
  build_lua_now cwd fs lua_path fuel' main_path main_content =
  build_lua_now cwd fs lua_path (fuel_now fs main_content) main_path main_content.
Proof. exact build_fuel_now. Qed.

(* the token-level statement for the concrete stack: the constants' side conditions and the loss-free
   file iteration are discharged; what remains assumed concerns the lexer stack only - the chunking
   property of the reference tokenizer and the faithful echo of the lexer model (C07 / C06) *)
Theorem C14_tokens_partial_now : forall (T : Type) (sigt : bytes -> option (list T)) (good : list bytes -> Prop),
  (forall a b ta tb, ends_with_nl a = true -> sigt a = Some ta -> sigt b = Some tb ->
                     sigt (a ++ b) = Some (ta ++ tb)) ->
  (forall a ta, sigt a = Some ta -> sigt (a ++ [10]) = Some ta) ->
  sigt [] = Some [] ->
  (forall ls q t, good ls -> from_lines ls = Ok q -> sigt (concat ls) = Some t ->
                  sigt (concat (echo_lines q)) = Some t) ->
  forall cwd fs lua_path fuel main_path main_content out,
  build_code_now cwd fs lua_path fuel main_path main_content = Ok out ->
  exists r pk, build_lua_now cwd fs lua_path fuel main_path main_content = Ok (r, pk) /\
    let toks := toks T sigt in
    let lexes := lexes T sigt in
    (Forall lexes require_lua_preamble_package -> Forall lexes require_lua_preamble_require ->
     lexes end_line_now ->
     Forall (fun e => lexes (header_line_now (fst e)) /\ lexes (concat (echo_lines (snd e)))) pk ->
     lexes main_content ->
     good (file_lines main_content) ->
     (forall m, from_lines (file_lines main_content) = Ok m ->
                good (prepend_lines lua echo_lines require_lua_preamble_package require_lua_preamble_require
                                    header_line_now end_line_now nl_line_now m pk)) ->
     sigt out = Some match pk with
                     | [] => toks main_content
                     | _ => concat (map toks require_lua_preamble_package)
                            ++ concat (map (fun e => toks (header_line_now (fst e))
                                                     ++ toks (concat (echo_lines (snd e))) ++ toks end_line_now) pk)
                            ++ concat (map toks require_lua_preamble_require) ++ toks main_content
                     end).
Proof. exact build_code_tokens_now. Qed.

(* the reference tokenizer of Spec/LuaLex.v HAS the chunking property (Proofs/SpecLexChunk.v):
   [sig_views src] = its significant tokens without positions.  A text that ends in a line feed and
   lexes, followed by a text that lexes, lexes to the concatenation; a final line feed adds nothing *)
Theorem C14_reference_chunking : forall a b ta tb,
  (a = [] \/ last a 0 = 10) -> sig_views a = Some ta -> sig_views b = Some tb ->
  sig_views (a ++ b) = Some (ta ++ tb).
Proof. exact sig_views_app. Qed.

Theorem C14_reference_final_lf : forall a ta, sig_views a = Some ta -> sig_views (a ++ [10]) = Some ta.
Proof. exact sig_views_final_lf. Qed.

(* C06's predicate is enough: if holds_C06 (source, echoed text) and the echoed text has no lone
   carriage return, the echoed text is in the dialect whenever the source is, with the same
   significant token views (Proofs/SpecLexChunk.v: step_ctx - a token is read the same way in front
   of any text that starts with the same byte - and walk_chain) *)
Theorem C14_echo_predicate_suffices : forall src out t,
  holds_C06 src out = true -> crlf_only out = true -> sig_views src = Some t -> sig_views out = Some t.
Proof. exact holds_C06_sig_views. Qed.

(* ... which, with C06's theorems about the lexer model (model_holds_C06, echo_crlf_only,
   model_lex_chunking), gives the token-faithful echo of the concrete stack on line lists whose lines
   (all but the last) end in a line feed and consist of bytes *)
Theorem C14_echo_views : forall ls q t,
  Forall ends_lf (removelast ls) /\ Forall byte (concat ls) ->
  from_lines ls = Ok q -> sig_views (concat ls) = Some t -> sig_views (concat (echo_lines q)) = Some t.
Proof. exact echo_views. Qed.

(* the echo of a text of the dialect given as lines ending in LF is again such a line list, of bytes *)
Theorem C14_echo_lines_good : forall ls ts,
  good_lines ls -> spec_lex (concat ls) <> None -> Model.Lexer.model_lex ls = Ok ts ->
  good_lines (echo_toks ts [] false).
Proof. exact dialect_echo_good. Qed.

(* THE token-level clause for the concrete stack against the reference tokenizer, without any hypothesis
   about the lexer, the chunking, the echo or the constants.  For a main program of bytes in the dialect
   and a package table each of whose entries e satisfies
     - its header line  package._c["name"]=function()  is made of bytes and is in the dialect,
     - its echoed code is in the dialect,
     - [pkg_shape e]: the lines of its echoed code are bytes, end in LF, including the last one,
   the significant tokens of the cart's code are: the package preamble, then per table entry header +
   echoed package + `end`, then the require() preamble, then the main program's tokens, unchanged. *)
Theorem C14_tokens_spec :
  forall cwd fs lua_path fuel main_path main_content out,
  build_code_now cwd fs lua_path fuel main_path main_content = Ok out ->
  exists r pk, build_lua_now cwd fs lua_path fuel main_path main_content = Ok (r, pk) /\
    let toks := toks (Z * list Z * Z * Z * Z) sig_views in
    let lexes := lexes (Z * list Z * Z * Z * Z) sig_views in
    (lexes main_content -> Forall byte main_content ->
     Forall (fun e => lexes (header_line_now (fst e)) /\ lexes (concat (echo_lines (snd e))) /\ pkg_shape e) pk ->
     sig_views out = Some match pk with
                          | [] => toks main_content
                          | _ => concat (map toks require_lua_preamble_package)
                                 ++ concat (map (fun e => toks (header_line_now (fst e))
                                                          ++ toks (concat (echo_lines (snd e))) ++ toks end_line_now) pk)
                                 ++ concat (map toks require_lua_preamble_require) ++ toks main_content
                          end).
Proof. exact build_code_tokens_full. Qed.

(* the per-entry conditions are THEOREMS for a package embedded with its game loop ({use_game_loop=true}:
   its object is the lexed + parsed file) whose file is made of bytes, is in the dialect and is empty or
   ends in a newline - and its echoed code then has exactly the file's tokens.
   RESIDUAL (why the clause as a whole stays partial; both are checked on every run by holds_C14):
   (1) a package whose file does not end in a newline (build.py then adds a separate one-byte newline
       line; the lexer stack's chunking theorem does not cover a line without LF followed by that line);
   (2) a package embedded WITHOUT its game loop (the default): its object is the re-lexed echo of the token
       list with the game loop functions taken out; that this text is in the dialect, ends in a newline and
       has the file's tokens minus the top-level game loop definitions (Spec/RequireSpec.spec_strip) is not
       proved (it needs the parser's statement ranges to agree with the reference description);
       C14_block_tokens_partial states it relative to that hypothesis, C14_strip_only_removes proves that
       stripping only removes tokens. *)
Theorem C14_pkg_conditions_unstripped : forall c q,
  Forall byte c -> lexes (Z * list Z * Z * Z * Z) sig_views c -> (c = [] \/ ends_lf c) ->
  from_lines (file_lines c) = Ok q ->
  lexes (Z * list Z * Z * Z * Z) sig_views (concat (echo_lines q)) /\
  toks (Z * list Z * Z * Z * Z) sig_views (concat (echo_lines q)) = toks (Z * list Z * Z * Z * Z) sig_views c /\
  good_lines (echo_lines q) /\
  (echo_lines q = [] \/ ends_lf (last (echo_lines q) [])).
Proof. exact unstripped_pkg_ok. Qed.

(* RESIDUAL (1) REMOVED (Proofs/LexerChunkNl.v, Proofs/ReqEmbedSepNl.v).  The token-level clause WITHOUT the
   condition that the last echoed line of an entry ends in LF: [pkg_shape_nl e] only says that the header line and
   the echoed lines are bytes and that the echoed lines - all but the last - end in LF.  When the last line has no
   newline build.py inserts a separate one-byte newline line before `end`; the lexer model reads that line list
   exactly as it reads the concatenated text (chunk_ok_sep_dialect: after a text of the dialect, at whose end the
   lexer is back in its Normal state and which cannot end in a carriage return, a line feed may come as a chunk of
   its own), so the tokens are the same: header + echoed package + `end` per entry. *)
Theorem C14_tokens_spec_any_newline :
  forall cwd fs lua_path fuel main_path main_content out,
  build_code_now cwd fs lua_path fuel main_path main_content = Ok out ->
  exists r pk, build_lua_now cwd fs lua_path fuel main_path main_content = Ok (r, pk) /\
    let toks := toks (Z * list Z * Z * Z * Z) sig_views in
    let lexes := lexes (Z * list Z * Z * Z * Z) sig_views in
    (lexes main_content -> Forall byte main_content ->
     Forall (fun e => lexes (header_line_now (fst e)) /\ lexes (concat (echo_lines (snd e))) /\ pkg_shape_nl e) pk ->
     sig_views out = Some match pk with
                          | [] => toks main_content
                          | _ => concat (map toks require_lua_preamble_package)
                                 ++ concat (map (fun e => toks (header_line_now (fst e))
                                                          ++ toks (concat (echo_lines (snd e))) ++ toks end_line_now) pk)
                                 ++ concat (map toks require_lua_preamble_require) ++ toks main_content
                          end).
Proof. exact build_code_tokens_nl. Qed.

(* ... and the per-entry conditions are theorems for a package embedded with its game loop from ANY byte file of
   the dialect, with or without a final newline; its echoed code has exactly the file's tokens *)
Theorem C14_pkg_conditions_unstripped_any_newline : forall c q,
  Forall byte c -> lexes (Z * list Z * Z * Z * Z) sig_views c ->
  from_lines (file_lines c) = Ok q ->
  lexes (Z * list Z * Z * Z * Z) sig_views (concat (echo_lines q)) /\
  toks (Z * list Z * Z * Z * Z) sig_views (concat (echo_lines q)) = toks (Z * list Z * Z * Z * Z) sig_views c /\
  good_lines (echo_lines q).
Proof. exact unstripped_pkg_ok_nl. Qed.

(* the lexer-stack fact behind it, for the line list handed to the final parse: lexing it line by line reaches the
   same lexer state (tokens, positions) as lexing the concatenated text *)
Theorem C14_prepended_lines_chunking : forall m pk,
  Forall (fun e => lexes (Z * list Z * Z * Z * Z) sig_views (header_line_now (fst e)) /\
                   lexes (Z * list Z * Z * Z * Z) sig_views (concat (echo_lines (snd e))) /\
                   Forall byte (header_line_now (fst e)) /\ good_lines (echo_lines (snd e))) pk ->
  good_lines (echo_lines m) ->
  let ls := prepend_lines lua echo_lines require_lua_preamble_package require_lua_preamble_require
                          header_line_now end_line_now nl_line_now m pk in
  Forall byte (concat ls) /\ Model.Lexer.model_lex ls = Model.Lexer.model_lex [concat ls].
Proof.
  exact (fun m pk Hpk Hm => match prepend_good_nl m pk Hpk Hm with conj HB Hc => conj HB (chunk_ok_model_lex _ Hc) end).
Qed.

(* RESIDUAL (2), the lexer-stack half (Proofs/SpecLexCut.v, StripRelex.v, ReqEmbedStrip.v).  A package embedded
   WITHOUT its game loop: strip_lua removes the token ranges of the game-loop statements (last one first, each
   replaced by one space token), writes the codes out and lexes + parses the text again.
   C14_strip_lexical - pure reference grammar + Token.code: for a source of the dialect with reference tokens ss, if
   runs of whole tokens (each non-empty, below the previous one, starting at a word token: ranges_ok) are replaced
   by a space, the concatenated codes are a text of the dialect whose significant token views are exactly those of
   the tokens outside the runs.
   C14_stripped_pkg_partial - for the concrete stack: the re-lexed package has these views and its echoed lines are
   bytes ending in LF (the per-entry conditions of C14_tokens_spec_any_newline), relative to ranges_ok of the ranges
   strip_stats actually cuts (strip_ranges).  C14_stripped_pkg_spec_partial: with the second half of what the parser
   owes - the tokens outside the ranges are those Spec/RequireSpec.spec_strip keeps - the package's tokens are the
   file's tokens minus the top-level game-loop definitions.  Both hypotheses are statements about the parser's
   statement ranges (not provable from C08_leaves / C08_ranges: see notes/C14.md). *)
Theorem C14_strip_lexical : forall src ss0 ranges, Forall byte src -> spec_lex src = Some ss0 ->
  let ss := map unpos ss0 in
  ranges_ok (map recode ss) (length ss) ranges ->
  sig_views (concat (cuts [32] (map LexerView.spec_code ss) ranges)) = Some (map tview (nontriv (drops ss ranges))).
Proof. exact cuts_sig_views. Qed.

Theorem C14_stripped_pkg_partial : forall c ss0 q q' ranges,
  Forall byte c -> spec_lex c = Some ss0 -> from_lines (file_lines c) = Ok q -> strip_lua q = Ok q' ->
  strip_ranges (rev' (root_stats (l_root q))) (l_toks q) = Ok ranges ->
  ranges_ok (map recode (map unpos ss0)) (length (map unpos ss0)) ranges ->
  sig_views (concat (echo_lines q')) = Some (map tview (nontriv (drops (map unpos ss0) ranges))) /\
  good_lines (echo_lines q').
Proof. exact stripped_pkg. Qed.

Theorem C14_stripped_pkg_spec_partial : forall c ss0 q q' ranges,
  Forall byte c -> spec_lex c = Some ss0 -> from_lines (file_lines c) = Ok q -> strip_lua q = Ok q' ->
  strip_ranges (rev' (root_stats (l_root q))) (l_toks q) = Ok ranges ->
  ranges_ok (map recode (map unpos ss0)) (length (map unpos ss0)) ranges ->
  nontriv (drops (map unpos ss0) ranges) = RequireSpec.spec_strip (nontriv (map unpos ss0)) ->
  sig_views (concat (echo_lines q')) = Some (map tview (RequireSpec.spec_strip (nontriv (map unpos ss0)))) /\
  good_lines (echo_lines q').
Proof. exact stripped_pkg_spec. Qed.

(* the stripping step of the concrete model, before the text is lexed again: whatever statements of
   the tree are taken for game loop functions and wherever their token ranges lie, the significant
   tokens that remain are a subsequence of the file's significant tokens - stripping removes, it never
   adds, reorders or alters a token *)
Theorem C14_strip_only_removes : forall stats ts ts',
  strip_stats stats ts = Ok ts' -> subseq (sig_toks_of ts') (sig_toks_of ts).
Proof. exact strip_stats_removes. Qed.

Print Assumptions C14_structure.
Print Assumptions C14_structure_bytes.
Print Assumptions C14_unstripped_block.
Print Assumptions C14_once.
Print Assumptions C14_errors.
Print Assumptions C14_errors_bad_arguments.
Print Assumptions C14_errors_bad_name.
Print Assumptions C14_errors_missing_file.
Print Assumptions C14_terminates.
Print Assumptions C14_tokens_partial.
Print Assumptions C14_block_tokens_partial.
Print Assumptions C14_terminates_now.
Print Assumptions C14_dfs_exact.
Print Assumptions C14_tokens_partial_now.
Print Assumptions C14_strip_only_removes.
Print Assumptions C14_reference_chunking.
Print Assumptions C14_reference_final_lf.
Print Assumptions C14_echo_lines_good.
Print Assumptions C14_tokens_spec.
Print Assumptions C14_pkg_conditions_unstripped.
Print Assumptions C14_echo_predicate_suffices.
Print Assumptions C14_echo_views.
Print Assumptions C14_tokens_spec_any_newline.
Print Assumptions C14_pkg_conditions_unstripped_any_newline.
Print Assumptions C14_prepended_lines_chunking.
Print Assumptions C14_strip_lexical.
Print Assumptions C14_stripped_pkg_partial.
Print Assumptions C14_stripped_pkg_spec_partial.

(* non-vacuity: a main program and two packages that require each other (a cycle), one game loop
   function each, one package without a final newline; the build succeeds, embeds each package once
   in order of first use, strips the game loop functions (for b the first request - the one made by
   a - decides, as build.py's TODO says) and leaves the main program unchanged at the end *)
Definition ex_main : bytes := "x=require(""a"")
y=require(""b"",{use_game_loop=true})
"%bs.
Definition ex_a : bytes := "function _init() end
b=require(""b"")
return 1"%bs.
Definition ex_b : bytes := "function _draw() end
a=require(""a"")
"%bs.
Definition ex_fs : list (bytes * bytes) :=
  [("/sb/main.lua"%bs : bytes, ex_main); ("/sb/a.lua"%bs : bytes, ex_a); ("/sb/b.lua"%bs : bytes, ex_b)].
Definition ex_out : bytes := "package={loaded={},_c={}}
package._c[""a""]=function()
 
b=require(""b"")
return 1
end
package._c[""b""]=function()
 
a=require(""a"")
end
function require(p)
local l=package.loaded
if (l[p]==nil) l[p]=package._c[p]()
if (l[p]==nil) l[p]=true
return l[p]
end
x=require(""a"")
y=require(""b"",{use_game_loop=true})
"%bs.

Example C14_example_build :
  run_build "/sb"%bs ex_fs "?;?.lua"%bs "main.lua"%bs ex_main = Ok (ex_out, ["a"%bs : bytes; "b"%bs : bytes]).
Proof. vm_compute. reflexivity. Qed.

(* ... and a missing file / a third argument make it fail *)
Example C14_example_missing :
  run_build "/sb"%bs [("/sb/main.lua"%bs : bytes, ex_main); ("/sb/a.lua"%bs : bytes, ex_a)]
            "?;?.lua"%bs "main.lua"%bs ex_main = Err BuildError.
Proof. vm_compute. reflexivity. Qed.

Example C14_example_bad_arguments :
  run_build "/sb"%bs ex_fs "?;?.lua"%bs "main.lua"%bs "x=require(""a"",{use_game_loop=true},3)"%bs = Err BuildError.
Proof. vm_compute. reflexivity. Qed.

(* non-vacuity of the any-newline theorems: a package file without a final newline; its echoed lines end with a
   line that has no newline (so C14_pkg_conditions_unstripped / C14_tokens_spec do not apply), the block built
   for it contains the separate newline line, is NOT a list of LF-terminated lines, and yet lexes - line by
   line - to the same tokens as its concatenation *)
Definition ex_nonl : bytes := "x=1
return x"%bs.
Example C14_example_no_final_newline :
  match from_lines (file_lines ex_nonl) with
  | Ok q =>
    let blk := block lua echo_lines header_line_now end_line_now nl_line_now ("a"%bs : bytes, q) in
    echo_lines q = ["x=1
"%bs : bytes; "return x"%bs : bytes] /\
    blk = ["package._c[""a""]=function()
"%bs : bytes; "x=1
"%bs : bytes; "return x"%bs : bytes; [10]; "end
"%bs : bytes] /\
    forallb ends_with_nl (removelast blk) = false /\
    Model.Lexer.model_lex blk = Model.Lexer.model_lex [concat blk] /\
    (match Model.Lexer.model_lex blk with Ok ts => Nat.ltb 10 (length ts) | Err _ => false end) = true /\
    sig_views (concat (echo_lines q)) = sig_views ex_nonl /\ sig_views ex_nonl <> None
  | Err _ => False
  end.
Proof. vm_compute. repeat split; try reflexivity. discriminate. Qed.

(* non-vacuity of the stripped-package theorems: a package with two game-loop functions (one directly after white
   space on a line of its own, one after code on the same line), a look-alike that stays, no final newline: both
   hypotheses about the ranges hold (decided by computation), the re-lexed text is as expected *)
Definition ex_strip : bytes := "function _init() x=1 end
y=2  function _draw()
 if (y) then y=3 end
end local function _init() end
return y"%bs.
Example C14_example_stripped :
  match spec_lex ex_strip, from_lines (file_lines ex_strip) with
  | Some ss0, Ok q =>
    match strip_lua q, strip_ranges (rev' (root_stats (l_root q))) (l_toks q) with
    | Ok q', Ok ranges =>
      ranges = [(16, 38); (0, 11)]%nat /\
      ranges_okb (map recode (map unpos ss0)) (length (map unpos ss0)) ranges = true /\
      nontriv (drops (map unpos ss0) ranges) = RequireSpec.spec_strip (nontriv (map unpos ss0)) /\
      concat (echo_lines q') = " 
y=2    local function _init() end
return y"%bs
    | _, _ => False
    end
  | _, _ => False
  end.
Proof. vm_compute. repeat split; reflexivity. Qed.

(* RESIDUAL (2), the parser half (Proofs/ParserExtent1-3.v, ReqEmbedStripFull.v): the two hypotheses about the
   parser's statement ranges are theorems about the parser model.

   C14_parse_extent - the statement-extent / block-balance theorem of Model/Parser.v, for every token list: the items
   of the root chunk (statements and `;`) are laid end to end from token 0 to the final cursor (tiles); every
   statement node is Node tag p e .. with p the cursor at which the statement was entered and e the cursor behind its
   last token, the significant tokens of [p, e) are block-balanced (function / do / then / repeat open, end / until /
   elseif close, never negative, zero at the end; a one-line if has neither then nor end), none of them at depth 0
   looks like the head of a game-loop definition unless the statement is exposed (is, or contains in the body / else
   part of a one-line if, such a definition), and a StatFunction node is the `function` keyword, a balanced middle and
   its matching `end`, with the node's end directly behind that `end` (fun_ok).  Proved for every node the parser
   builds, by one specification per parse function (36 of them) and induction over the recursion levels.
   C14_strip_ranges_ok - for EVERY package file of the dialect the ranges build.py cuts satisfy ranges_ok.
   C14_stripped_pkg - hence, with no hypothesis left: the package embedded without its game loop has exactly the
   file's tokens outside those ranges, and meets the per-entry conditions of C14_tokens_spec_any_newline.
   C14_strip_ranges_spec / C14_stripped_pkg_spec_clean_partial - and those are the file's tokens minus its top-level
   game-loop definitions as Spec/RequireSpec.spec_strip describes them, for a file that the parser consumes entirely
   (fully_parsed; by C08_complete every file with a derivation in the reference grammar is such a file:
   C14_fully_parsed_of_derivation) and in which no game-loop definition stands directly in the body or else part of
   a one-line if of the root chunk (shortif_clean).  The second condition cannot be dropped:
   C14_spec_strip_shortif_refuted - `if (x) function _init() y=2 end` is one statement of the root chunk, build.py
   keeps it (real code replayed: notes/C14.md), spec_strip - which sees tokens, not lines - removes the definition. *)
From PV Require Import Spec.LuaTokens Spec.LuaGrammar Model.Parser Model.ParserInst Proofs.ParserTheorems Proofs.ParserComplete2
  Proofs.ParserExtent2 Proofs.ReqEmbedStripFull.

Theorem C14_parse_extent : forall ts root e, lua_parse ts = Ok (root, e) ->
  chunk_ok ts game_loop_function_names root 0 e.
Proof.
  intros ts root e H.
  exact (parse_extent ts lua_binops lua_unops game_loop_function_names lua_binops_nontrivia lua_unops_nontrivia
           lua_binops_plain lua_unops_plain root e H).
Qed.

Theorem C14_strip_ranges_ok : forall c ss0 q ranges,
  Forall byte c -> spec_lex c = Some ss0 -> from_lines (file_lines c) = Ok q ->
  strip_ranges (rev' (root_stats (l_root q))) (l_toks q) = Ok ranges ->
  StripRelex.ranges_ok (map recode (map unpos ss0)) (length (map unpos ss0)) ranges.
Proof. exact strip_ranges_ok. Qed.

Theorem C14_stripped_pkg : forall c ss0 q q',
  Forall byte c -> spec_lex c = Some ss0 -> from_lines (file_lines c) = Ok q -> strip_lua q = Ok q' ->
  exists ranges, strip_ranges (rev' (root_stats (l_root q))) (l_toks q) = Ok ranges /\
    sig_views (concat (echo_lines q')) = Some (map tview (nontriv (drops (map unpos ss0) ranges))) /\
    good_lines (echo_lines q').
Proof. exact stripped_pkg_ranges. Qed.

Theorem C14_strip_ranges_spec : forall c ss0 q ranges,
  Forall byte c -> spec_lex c = Some ss0 -> from_lines (file_lines c) = Ok q ->
  strip_ranges (rev' (root_stats (l_root q))) (l_toks q) = Ok ranges ->
  fully_parsed q = true -> shortif_clean (l_root q) = true ->
  StripRelex.ranges_ok (map recode (map unpos ss0)) (length (map unpos ss0)) ranges /\
  nontriv (drops (map unpos ss0) ranges) = RequireSpec.spec_strip (nontriv (map unpos ss0)).
Proof. exact strip_ranges_facts. Qed.

Theorem C14_stripped_pkg_spec_clean_partial : forall c ss0 q q',
  Forall byte c -> spec_lex c = Some ss0 -> from_lines (file_lines c) = Ok q -> strip_lua q = Ok q' ->
  fully_parsed q = true -> shortif_clean (l_root q) = true ->
  sig_views (concat (echo_lines q')) = Some (map tview (RequireSpec.spec_strip (nontriv (map unpos ss0)))) /\
  good_lines (echo_lines q').
Proof. exact stripped_pkg_full. Qed.

(* the per-entry conditions of C14_tokens_spec_any_newline, for a package embedded WITHOUT its game loop from any
   byte file of the dialect: the echoed code is in the dialect, its lines are good, its tokens are the file's tokens
   outside the cut ranges - and, under the two conditions, the file's tokens minus its game-loop definitions *)
Theorem C14_pkg_conditions_stripped : forall c ss0 q q',
  Forall byte c -> spec_lex c = Some ss0 -> from_lines (file_lines c) = Ok q -> strip_lua q = Ok q' ->
  lexes (Z * list Z * Z * Z * Z) sig_views (concat (echo_lines q')) /\
  good_lines (echo_lines q') /\
  (exists ranges, strip_ranges (rev' (root_stats (l_root q))) (l_toks q) = Ok ranges /\
     toks (Z * list Z * Z * Z * Z) sig_views (concat (echo_lines q')) = map tview (nontriv (drops (map unpos ss0) ranges))) /\
  (fully_parsed q = true -> shortif_clean (l_root q) = true ->
   toks (Z * list Z * Z * Z * Z) sig_views (concat (echo_lines q')) = map tview (RequireSpec.spec_strip (nontriv (map unpos ss0)))).
Proof. exact stripped_pkg_conditions. Qed.

Theorem C14_fully_parsed_of_derivation : forall ls q g,
  from_lines ls = Ok q ->
  derives (map token_of_tok (l_toks q)) g = true -> line_scoped (map token_of_tok (l_toks q)) g = true ->
  excl g = true ->
  fully_parsed q = true.
Proof. exact fully_parsed_of_derivation. Qed.

Theorem C14_spec_strip_shortif_refuted :
  match spec_lex shortif_witness, from_lines (file_lines shortif_witness) with
  | Some ss0, Ok q =>
    match strip_ranges (rev' (root_stats (l_root q))) (l_toks q) with
    | Ok ranges =>
      ranges = [] /\ fully_parsed q = true /\ shortif_clean (l_root q) = false /\
      length (nontriv (drops (map unpos ss0) ranges)) = 18%nat /\
      length (RequireSpec.spec_strip (nontriv (map unpos ss0))) = 10%nat
    | Err _ => False
    end
  | _, _ => False
  end.
Proof. exact spec_strip_shortif_refuted. Qed.

Print Assumptions C14_parse_extent.
Print Assumptions C14_strip_ranges_ok.
Print Assumptions C14_stripped_pkg.
Print Assumptions C14_strip_ranges_spec.
Print Assumptions C14_stripped_pkg_spec_clean_partial.
Print Assumptions C14_pkg_conditions_stripped.
Print Assumptions C14_fully_parsed_of_derivation.
Print Assumptions C14_spec_strip_shortif_refuted.

(* non-vacuity: a package with a game-loop definition between other statements; inside it a for loop, a one-line if
   with an else part, a while loop and an ordinary if; after it a dotted look-alike and a one-line if whose body is an
   ordinary function definition (allowed by shortif_clean).  Both conditions hold, the one range is the definition
   from `function` to its matching `end`, and the embedded text is the file with that range blanked *)
Definition ex_full : bytes := "local t={}
function _update()
 for i=1,3 do
  if (t[i]) t[i]+=1 else t[i]=0
  while t[i]>9 do t[i]-=1 end
 end
 if t[1] then return end
end
function t.draw() end
if (t) function helper() end
return t
"%bs.
Example C14_example_stripped_full :
  match spec_lex ex_full, from_lines (file_lines ex_full) with
  | Some ss0, Ok q =>
    match strip_lua q, strip_ranges (rev' (root_stats (l_root q))) (l_toks q) with
    | Ok q', Ok ranges =>
      fully_parsed q = true /\ shortif_clean (l_root q) = true /\ ranges = [(7, 89)]%nat /\
      length (RequireSpec.spec_strip (nontriv (map unpos ss0))) = 23%nat /\
      concat (echo_lines q') = "local t={}
 
function t.draw() end
if (t) function helper() end
return t
"%bs
    | _, _ => False
    end
  | _, _ => False
  end.
Proof. vm_compute. repeat split; reflexivity. Qed.
