(* Source pins of pico8/lua/lua.py: the generic tree walk alone (what build's RequireWalker inherits), for the properties that do not stand on the AST writers.
   WRITTEN BY gen/mkpins.py (developer step) from the sources the hand-written model was compared with;
   each lemma fails when the function it names has been edited since (digest of ast.unparse, docstrings
   dropped; regenerated on every run into Generated/T_pins_walker.v). *)
From Coq Require Import ZArith List.
Import ListNotations.
Open Scope Z_scope.
From PV Require Import Generated.T_pins_walker.

Lemma pin__BaseASTWalker____init___ok : pin__BaseASTWalker____init__ = [222; 199; 86; 151; 31; 175; 186; 107].
Proof. reflexivity. Qed.
Lemma pin__BaseASTWalker___walk_token_ok : pin__BaseASTWalker___walk_token = [41; 14; 16; 51; 81; 77; 84; 100].
Proof. reflexivity. Qed.
Lemma pin__BaseASTWalker___walk_value_ok : pin__BaseASTWalker___walk_value = [254; 38; 117; 1; 0; 198; 13; 177].
Proof. reflexivity. Qed.
Lemma pin__BaseASTWalker___walk_ok : pin__BaseASTWalker___walk = [206; 152; 159; 218; 72; 219; 202; 219].
Proof. reflexivity. Qed.
Lemma pin__BaseASTWalker__walk_ok : pin__BaseASTWalker__walk = [64; 216; 112; 59; 157; 179; 113; 91].
Proof. reflexivity. Qed.

(* no function was added to or removed from the pinned classes *)
Lemma pin_names__walker_ok : pin_names__walker =
  [[112; 105; 110; 95; 95; 66; 97; 115; 101; 65; 83; 84; 87; 97; 108; 107; 101; 114; 95; 95; 95; 95; 105; 110; 105; 116; 95; 95]; [112; 105; 110; 95; 95; 66; 97; 115; 101; 65; 83; 84; 87; 97; 108; 107; 101; 114; 95; 95; 95; 119; 97; 108; 107; 95; 116; 111; 107; 101; 110]; [112; 105; 110; 95; 95; 66; 97; 115; 101; 65; 83; 84; 87; 97; 108; 107; 101; 114; 95; 95; 95; 119; 97; 108; 107; 95; 118; 97; 108; 117; 101]; [112; 105; 110; 95; 95; 66; 97; 115; 101; 65; 83; 84; 87; 97; 108; 107; 101; 114; 95; 95; 95; 119; 97; 108; 107]; [112; 105; 110; 95; 95; 66; 97; 115; 101; 65; 83; 84; 87; 97; 108; 107; 101; 114; 95; 95; 119; 97; 108; 107]].
Proof. reflexivity. Qed.
