(* The lexical half of build.py's game-loop stripping: in the token list of a package whose text is in the reference
   dialect, runs of whole tokens [a, b) - each starting with a word (`function`) - are replaced by one space token
   (tokens[start:end] = [TokSpace(b' ')], last run first), the codes are written out and the text is lexed again.
   THEOREM (cuts_sig_views): the new text is in the dialect and its significant token views are exactly those of the
   tokens outside the runs.  Reference grammar + Token.code (spec_code) only; the runs are parameters (which runs the
   parser's statement ranges are is the parser's half).
   Method: [recode] - the echoed text has the chain of the source with quoted strings re-spelled, so that the code of
   every token IS the raw text of a reference token; then SpecLexCut.chain_cut once per run, with an invariant. *)
From PV Require Import Base.Prelude Generated.T_lexer Model.Lexer Model.EchoWriter Spec.LuaLex Instances.HoldsC02 Instances.HoldsC01 Instances.HoldsC06
  Instances.HoldsC07 Proofs.LuaLexFacts Proofs.SpecLexChunk Proofs.SpecLexCut Proofs.LexerProofs Proofs.LexerEnc
  Proofs.LexerMain Proofs.LexerView Proofs.EchoProofs.
From Coq Require Import ZifyBool.

(* ---------- the tokens of the echoed text ---------- *)
Definition recode (s : stok) : stok :=
  if is_quoted s then mk_stok SString (reencode (firstn 1 (s_raw s)) (s_text s)) (s_text s) 0 1 (-1) 0 0 else s.

Lemma recode_raw s : s_raw (recode s) = spec_code s.
Proof.
  unfold recode, spec_code, is_quoted. destruct (s_kind s); try reflexivity. destruct (s_long s <? 0); reflexivity.
Qed.

Lemma recode_trivia s : is_trivia (recode s) = is_trivia s.
Proof.
  unfold recode, is_quoted, is_trivia. destruct (s_kind s) eqn:K; try (rewrite K; reflexivity).
  destruct (s_long s <? 0); [reflexivity | rewrite K; reflexivity].
Qed.

Lemma nontriv_recode ss : nontriv (map recode ss) = map recode (nontriv ss).
Proof.
  unfold nontriv. induction ss as [|s ss IH]; [reflexivity|]. cbn [map filter]. rewrite recode_trivia, IH.
  destruct (negb (is_trivia s)); reflexivity.
Qed.

Lemma chain_recode_tview src ss : chain src ss -> map tview (map recode ss) = map tview ss.
Proof.
  induction 1 as [|s t rest ts Hs _ IH]; [reflexivity|]. cbn [map]. rewrite IH. f_equal.
  unfold recode. destruct (is_quoted t) eqn:Q; [|reflexivity].
  destruct (quoted_shape _ _ _ Hs Q) as (q & raw & v & _ & ->). reflexivity.
Qed.

Lemma spec_code_hd s t rest : spec_step s = Some (t, rest) -> qs_ok t -> hd 0 (spec_code t) = hd 0 (s_raw t).
Proof.
  intros Hs Hq. rewrite <- recode_raw. unfold recode. destruct (is_quoted t) eqn:Q; [|reflexivity].
  destruct (Hq Q) as (q & _ & Hf & _). cbn [s_raw]. rewrite Hf. unfold reencode. cbn [app hd].
  destruct (s_raw t) as [|x r]; [discriminate|]. cbn [firstn] in Hf. injection Hf as ->. reflexivity.
Qed.

(* the echoed text (every token by its code) has the chain of the source, quoted strings re-spelled *)
Theorem chain_recode src ss : chain src ss -> Forall qs_ok ss ->
  chain (concat (map spec_code ss)) (map recode ss).
Proof.
  induction 1 as [|s t rest ts Hs Hc IH]; intros Hq; [constructor|]. inversion Hq as [|? ? Hqt Hq']; subst.
  cbn [map concat]. econstructor; [|apply IH, Hq'].
  destruct (is_quoted t) eqn:Q.
  - destruct (Hqt Q) as (q & Hq34 & Hf & Hby).
    assert (Ec : spec_code t = reencode [q] (s_text t)).
    { unfold spec_code. unfold is_quoted in Q. destruct (s_kind t); try discriminate Q. rewrite Q, Hf. reflexivity. }
    unfold recode. rewrite Q, Ec, Hf. unfold reencode. cbn [app]. rewrite <- app_assoc. cbn [app].
    pose proof (reencode_lexes q (s_text t) (concat (map spec_code ts)) Hq34 Hby) as Hu.
    destruct Hq34 as [-> | ->]; unfold spec_step; cbn -[unescape_until escape_bytes app]; rewrite Hu; reflexivity.
  - assert (Ec : spec_code t = s_raw t).
    { unfold spec_code. unfold is_quoted in Q. destruct (s_kind t); try reflexivity. rewrite Q. reflexivity. }
    unfold recode. rewrite Q, Ec. destruct (spec_step_split _ _ _ Hs) as (Hsplit & _).
    destruct Hc as [|s2 t2 rest2 ts2 Hs2 Hc2].
    + cbn [map concat]. rewrite app_nil_r in *. rewrite <- Hsplit. exact Hs.
    + destruct (spec_step_split _ _ _ Hs2) as (Hsplit2 & Hne2). inversion Hq' as [|? ? Hq2 _]; subst.
      pose proof (spec_code_hd _ _ _ Hs2 Hq2) as Hhd. cbn [map concat].
      assert (Hne : spec_code t2 <> []).
      { rewrite <- recode_raw. unfold recode. destruct (is_quoted t2) eqn:Q2; [|exact Hne2]. cbn [s_raw]. unfold reencode.
        destruct (Hq2 Q2) as (q & _ & Hf & _). rewrite Hf. discriminate. }
      destruct (spec_code t2) as [|c cr] eqn:E2; [congruence|]. destruct (s_raw t2) as [|c' rr] eqn:Er; [congruence|].
      cbn [hd] in Hhd. subst c'. cbn [app] in *. eapply step_ctx. exact Hs.
Qed.

(* ---------- list bookkeeping ---------- *)
Lemma firstn_le_eq {A} (a p : nat) (x y : list A) : (a <= p)%nat -> firstn p x = firstn p y -> firstn a x = firstn a y.
Proof.
  intros Hap H. rewrite <- (Nat.min_l a p Hap), <- !firstn_firstn, H. reflexivity.
Qed.

Lemma firstn_eq_length {A} (p : nat) (x y : list A) : firstn p x = firstn p y -> (p <= length y)%nat -> (p <= length x)%nat.
Proof.
  intros H Hy. apply (f_equal (@length A)) in H. rewrite !firstn_length in H. lia.
Qed.

Lemma firstn_nth_error {A} : forall (p a : nat) (x y : list A), firstn p x = firstn p y -> (a < p)%nat -> nth_error x a = nth_error y a.
Proof.
  induction p as [|p IH]; intros a x y H Ha; [lia|]. destruct x as [|x0 x], y as [|y0 y]; cbn [firstn] in H; try discriminate.
  - reflexivity.
  - injection H as <- H. destruct a as [|a]; [reflexivity|]. cbn [nth_error]. apply IH; [exact H | lia].
Qed.

Lemma nth_error_skipn {A} (l : list A) a k : nth_error l a = Some k -> exists r, skipn a l = k :: r.
Proof.
  intros Hn. apply nth_error_split in Hn. destruct Hn as (l1 & l2 & E & L). exists l2. rewrite E, skipn_app, <- L, skipn_all, Nat.sub_diag. reflexivity.
Qed.

Lemma firstn_S_nth {A} : forall (a1 : nat) (l : list A) x, nth_error l a1 = Some x -> firstn (S a1) l = firstn a1 l ++ [x].
Proof.
  induction a1 as [|a1 IH]; intros l x H; destruct l as [|y l]; try discriminate.
  - cbn in H. injection H as ->. reflexivity.
  - cbn [nth_error] in H. change (firstn (S (S a1)) (y :: l)) with (y :: firstn (S a1) l). rewrite (IH l x H). reflexivity.
Qed.

Lemma firstn_S_snoc {A} (l : list A) a1 tpk sp : (S a1 <= length l)%nat -> firstn (S a1) l = tpk ++ [sp] ->
  tpk = firstn a1 l /\ nth_error l a1 = Some sp.
Proof.
  intros Hl E. destruct (nth_error l a1) as [x|] eqn:En; [|apply nth_error_None in En; lia].
  rewrite (firstn_S_nth a1 l x En) in E. apply app_inj_tail in E. destruct E as [<- <-]. split; reflexivity.
Qed.

Lemma raws_firstn rs a : raws (firstn a rs) = concat (firstn a (map s_raw rs)).
Proof. unfold raws. rewrite firstn_map. reflexivity. Qed.

Lemma crlf_no_final_cr P w X : crlf_only (P ++ w :: X) = true -> w <> 10 -> no_final_cr P.
Proof.
  intros H Hw p E. subst P. rewrite <- app_assoc in H. cbn [app] in H. apply crlf_only_suffix in H.
  rewrite crlf_only_cons in H. cbn in H. destruct (w =? 10) eqn:E; [lia | discriminate].
Qed.

Lemma name_start_not_lf w : is_name_start w = true -> w <> 10.
Proof. unfold is_name_start, is_alpha. lia. Qed.

(* ---------- one cut ---------- *)
Section Cuts.
Variable rs : list stok.              (* the tokens of the echoed text: code = raw *)

Definition is_space (s : stok) : bool := match s_kind s with SSpace => true | _ => false end.

(* how many leading tokens are certainly untouched after a cut at a *)
Definition bound_after (a : nat) : nat :=
  match a with
  | O => O
  | S a1 => match nth_error rs a1 with Some sp => if is_space sp then a1 else a | None => a end
  end.

Record Inv (cur : list (list Z)) (ref : list stok) (p : nat) (kept : list stok) : Prop := {
  inv_chain : chain (concat cur) ref;
  inv_cr : crlf_only (concat cur) = true;
  inv_cur : firstn p cur = firstn p (map s_raw rs);
  inv_ref : firstn p ref = firstn p rs;
  inv_kept : firstn p kept = firstn p rs;
  inv_sig : nontriv ref = nontriv kept;
  inv_p : (p <= length rs)%nat }.

Definition cut1 {A} (sp : A) (l : list A) (a b : nat) : list A := firstn a l ++ sp :: skipn b l.
Definition drop1 {A} (l : list A) (a b : nat) : list A := firstn a l ++ skipn b l.

Lemma split_at {A} (n : nat) (l : list A) : l = firstn n l ++ skipn n l.
Proof. symmetry. apply firstn_skipn. Qed.

Lemma inv_cut cur ref p kept a b k :
  Inv cur ref p kept -> (a < b)%nat -> (b <= p)%nat -> nth_error rs a = Some k -> is_name_start (hd 0 (s_raw k)) = true ->
  exists ref', Inv (cut1 [32] cur a b) ref' (bound_after a) (drop1 kept a b).
Proof.
  intros [Hch Hcr Hcur Href Hkept Hsig Hp] Hab Hbp Hk Hw.
  assert (Hap : (a <= p)%nat) by lia.
  set (tp := firstn a rs).
  (* the current text and chain, split at a and at b *)
  assert (Ecur_a : firstn a cur = firstn a (map s_raw rs)) by (apply (firstn_le_eq a p); assumption).
  assert (Eref_a : firstn a ref = tp) by (apply (firstn_le_eq a p); assumption).
  assert (Eref_b : firstn b ref = firstn b rs) by (apply (firstn_le_eq b p); assumption).
  assert (Ecur_b : firstn b cur = firstn b (map s_raw rs)) by (apply (firstn_le_eq b p); assumption).
  assert (Ekept_b : firstn b kept = firstn b rs) by (apply (firstn_le_eq b p); assumption).
  assert (Ta : concat cur = raws tp ++ concat (skipn a cur)).
  { rewrite (split_at a cur) at 1. rewrite concat_app, Ecur_a. unfold tp. rewrite raws_firstn. reflexivity. }
  assert (Tb : concat cur = raws (firstn b rs) ++ concat (skipn b cur)).
  { rewrite (split_at b cur) at 1. rewrite concat_app, Ecur_b, raws_firstn. reflexivity. }
  pose proof Hch as Hch_a. rewrite (split_at a ref), Eref_a in Hch_a. apply steps_chain in Hch_a.
  destruct (steps_app_inv _ _ _ _ Hch_a) as (s1 & Hs_tp & Hs_rest).
  pose proof (steps_text _ _ _ Hs_tp) as Es1. rewrite Ta in Es1. apply app_inv_head in Es1.
  pose proof Hch as Hch_b. rewrite (split_at b ref), Eref_b in Hch_b. apply steps_chain in Hch_b.
  destruct (steps_app_inv _ _ _ _ Hch_b) as (s2 & Hs_b & Hs_S).
  pose proof (steps_text _ _ _ Hs_b) as Es2. rewrite Tb in Es2. apply app_inv_head in Es2. subst s2.
  apply steps_chain in Hs_S.
  (* the text after tp starts with the word byte of rs[a] *)
  assert (Hlen_cur : (p <= length cur)%nat) by (eapply firstn_eq_length; [exact Hcur | rewrite map_length; exact Hp]).
  assert (Ecura : exists rest, skipn a cur = s_raw k :: rest).
  { apply nth_error_skipn. rewrite (firstn_nth_error p a cur (map s_raw rs) Hcur) by lia. rewrite nth_error_map, Hk. reflexivity. }
  destruct Ecura as (crest & Ecura).
  destruct (s_raw k) as [|w kr] eqn:Ekr; [cbn in Hw; discriminate|]. cbn [hd] in Hw.
  assert (Es1' : s1 = w :: (kr ++ concat crest)) by (rewrite <- Es1, Ecura; reflexivity).
  rewrite Ta, <- Es1, Ecura in Hs_tp. cbn [concat app] in Hs_tp.
  destruct (chain_cut tp w (kr ++ concat crest) (concat (skipn b cur)) (skipn b ref) Hw Hs_tp Hs_S)
    as (tpk & mid2 & Hnew & Htpk & Hn2 & Hnall).
  assert (Etext : concat (cut1 [32] cur a b) = raws tp ++ 32 :: concat (skipn b cur)).
  { unfold cut1. rewrite concat_app, Ecur_a. unfold tp. rewrite raws_firstn. reflexivity. }
  assert (Hlen_a : length tp = a) by (unfold tp; rewrite firstn_length; lia).
  (* which tokens in front are kept as they are *)
  assert (Htpk' : tpk = firstn (bound_after a) rs /\ (bound_after a <= a)%nat).
  { destruct Htpk as [(-> & Hns) | (sp & Etp & Ksp)].
    - (* the token in front of the run is not white space, or there is none *)
      unfold bound_after. destruct a as [|a1]; [split; [reflexivity | lia]|].
      destruct (nth_error rs a1) as [sp|] eqn:En; [|split; [reflexivity | lia]].
      destruct (is_space sp) eqn:Esp; [|split; [reflexivity | lia]].
      exfalso. apply (Hns (firstn a1 rs) sp); [|unfold is_space in Esp; destruct (s_kind sp); try discriminate Esp; reflexivity].
      unfold tp. apply firstn_S_nth, En.
    - unfold bound_after. destruct a as [|a1]; [destruct tpk; discriminate Etp|].
      destruct (firstn_S_snoc rs a1 tpk sp ltac:(lia) Etp) as (-> & En).
      rewrite En. unfold is_space. rewrite Ksp. split; [reflexivity | lia]. }
  destruct Htpk' as (Etpk & Hba).
  exists (tpk ++ mid2). constructor.
  - rewrite Etext. exact Hnew.
  - rewrite Etext.
    assert (Hcr' : crlf_only (raws tp ++ w :: kr ++ concat crest) = true) by (rewrite <- Es1', <- Es1, <- Ta; exact Hcr).
    pose proof (crlf_no_final_cr _ w (kr ++ concat crest) Hcr' (name_start_not_lf w Hw)) as Hnf.
    apply crlf_only_app; [apply (crlf_only_prefix _ (w :: kr ++ concat crest)); assumption | exact Hnf|].
    rewrite crlf_only_cons. cbn [Z.eqb Pos.eqb andb]. rewrite Tb in Hcr. apply crlf_only_suffix in Hcr. exact Hcr.
  - unfold cut1. rewrite firstn_app, firstn_firstn, Nat.min_l by lia.
    replace (bound_after a - length (firstn a cur))%nat with O by (rewrite firstn_length; lia). cbn [firstn]. rewrite app_nil_r.
    apply (firstn_le_eq _ p); [lia | exact Hcur].
  - rewrite Etpk. rewrite firstn_app, firstn_firstn, Nat.min_id.
    replace (bound_after a - length (firstn (bound_after a) rs))%nat with O by (rewrite firstn_length; lia).
    cbn [firstn]. apply app_nil_r.
  - unfold drop1. rewrite firstn_app, firstn_firstn, Nat.min_l by lia.
    assert (Lk : (p <= length kept)%nat) by (eapply firstn_eq_length; [exact Hkept | exact Hp]).
    replace (bound_after a - length (firstn a kept))%nat with O by (rewrite firstn_length; lia). cbn [firstn]. rewrite app_nil_r.
    apply (firstn_le_eq _ p); [lia | exact Hkept].
  - rewrite Hnall. unfold drop1. rewrite !nontriv_app. f_equal; [unfold tp; f_equal; symmetry; apply (firstn_le_eq a p); assumption|].
    rewrite (split_at b ref), (split_at b kept), Eref_b, Ekept_b, !nontriv_app in Hsig. apply app_inv_head in Hsig. exact Hsig.
  - lia.
Qed.
End Cuts.

(* ---------- all cuts, last run first ---------- *)
Fixpoint cuts {A} (sp : A) (l : list A) (ranges : list (nat * nat)) : list A :=
  match ranges with [] => l | (a, b) :: r => cuts sp (cut1 sp l a b) r end.
Fixpoint drops {A} (l : list A) (ranges : list (nat * nat)) : list A :=
  match ranges with [] => l | (a, b) :: r => drops (drop1 l a b) r end.

(* the runs, in the order they are cut (descending): non-empty, below the tokens known to be untouched, starting with
   a word; a white-space token in front of a run merges with the new space and counts as touched *)
Fixpoint ranges_ok (rs : list stok) (p : nat) (ranges : list (nat * nat)) : Prop :=
  match ranges with
  | [] => True
  | (a, b) :: r =>
    (a < b)%nat /\ (b <= p)%nat /\ (exists k, nth_error rs a = Some k /\ is_name_start (hd 0 (s_raw k)) = true) /\
    ranges_ok rs (bound_after rs a) r
  end.

Lemma inv_cuts rs ranges : forall cur ref p kept, Inv rs cur ref p kept -> ranges_ok rs p ranges ->
  exists ref' p', Inv rs (cuts [32] cur ranges) ref' p' (drops kept ranges).
Proof.
  induction ranges as [|[a b] r IH]; intros cur ref p kept HI Hr; [exists ref, p; exact HI|].
  cbn [ranges_ok] in Hr. destruct Hr as (Hab & Hbp & (k & Hk & Hw) & Hr).
  destruct (inv_cut rs cur ref p kept a b k HI Hab Hbp Hk Hw) as (ref1 & HI1).
  cbn [cuts drops]. apply (IH _ _ _ _ HI1 Hr).
Qed.

Lemma map_cuts {A B} (f : A -> B) sp ranges : forall l, map f (cuts sp l ranges) = cuts (f sp) (map f l) ranges.
Proof.
  induction ranges as [|[a b] r IH]; intros l; [reflexivity|]. cbn [cuts]. rewrite IH. f_equal.
  unfold cut1. rewrite map_app. cbn [map]. rewrite firstn_map, skipn_map. reflexivity.
Qed.

Lemma map_drops {A B} (f : A -> B) ranges : forall l, map f (drops l ranges) = drops (map f l) ranges.
Proof.
  induction ranges as [|[a b] r IH]; intros l; [reflexivity|]. cbn [drops]. rewrite IH. f_equal.
  unfold drop1. rewrite map_app, firstn_map, skipn_map. reflexivity.
Qed.

Lemma In_firstn {A} (x : A) : forall n l, In x (firstn n l) -> In x l.
Proof. intros n l H. rewrite <- (firstn_skipn n l). apply in_or_app. left. exact H. Qed.
Lemma In_skipn {A} (x : A) : forall n l, In x (skipn n l) -> In x l.
Proof. intros n l H. rewrite <- (firstn_skipn n l). apply in_or_app. right. exact H. Qed.

Lemma drops_incl {A} ranges : forall (l : list A) x, In x (drops l ranges) -> In x l.
Proof.
  induction ranges as [|[a b] r IH]; intros l x H; [exact H|]. cbn [drops] in H. apply IH in H. unfold drop1 in H.
  apply in_app_or in H. destruct H as [H|H]; [eapply In_firstn | eapply In_skipn]; exact H.
Qed.

Lemma spec_code_unpos s : spec_code (unpos s) = spec_code s.
Proof. reflexivity. Qed.

Lemma chain_tview_recode src ss : chain src ss -> Forall (fun t => tview (recode t) = tview t) ss.
Proof.
  induction 1 as [|s t rest ts Hs _ IH]; constructor; [|exact IH].
  unfold recode. destruct (is_quoted t) eqn:Q; [|reflexivity].
  destruct (quoted_shape _ _ _ Hs Q) as (q & raw & v & _ & ->). reflexivity.
Qed.

(* THE lexical statement: source of the dialect; its reference tokens ss (positions dropped); the codes of the
   tokens with the runs replaced by a space, concatenated, are a text of the dialect whose significant token views
   are those of the tokens outside the runs *)
Theorem cuts_sig_views src ss0 ranges : Forall byte src -> spec_lex src = Some ss0 ->
  let ss := map unpos ss0 in
  ranges_ok (map recode ss) (length ss) ranges ->
  sig_views (concat (cuts [32] (map spec_code ss) ranges)) = Some (map tview (nontriv (drops ss ranges))).
Proof.
  intros HB Hs ss Hr. set (rs := map recode ss).
  assert (Hc : chain src ss) by (apply (spec_toks_chain src); unfold HoldsC01.spec_toks; rewrite Hs; reflexivity).
  assert (Hq : Forall qs_ok ss).
  { pose proof (spec_lex_qs _ _ HB Hs) as H. unfold ss. clear -H. induction H as [|s l Hs _ IH]; constructor; [exact Hs | exact IH]. }
  pose proof (chain_recode _ _ Hc Hq) as Hcr.
  assert (Eraw : map s_raw rs = map spec_code ss).
  { unfold rs. rewrite map_map. apply map_ext. intros s. apply recode_raw. }
  assert (Hcrlf : crlf_only (concat (map spec_code ss)) = true).
  { destruct (echo_crlf_only src ss0 HB Hs) as (lines & El & Hcl).
    destruct (lex_agrees_code src ss0 HB Hs) as (ts & Hm & Hcodes & _). unfold echo_source in El. rewrite Hm in El.
    injection El as <-. rewrite echo_concat in Hcl.
    apply (f_equal (map snd)) in Hcodes. rewrite !map_map in Hcodes. cbn [snd] in Hcodes.
    assert (E : map tok_code ts = map spec_code ss0) by exact Hcodes. rewrite E in Hcl.
    unfold ss. rewrite map_map. exact Hcl. }
  assert (HI : Inv rs (map s_raw rs) rs (length rs) rs).
  { constructor; try reflexivity; try lia; [rewrite Eraw; exact Hcr | rewrite Eraw; exact Hcrlf]. }
  assert (Hr' : ranges_ok rs (length rs) ranges) by (unfold rs; rewrite map_length; exact Hr).
  destruct (inv_cuts rs ranges _ _ _ _ HI Hr') as (ref' & p' & [Hch Hcl _ _ _ Hsig _]).
  rewrite Eraw in Hch, Hcl. unfold sig_views. rewrite (chain_spec_toks _ _ Hcl Hch). f_equal.
  fold (nontriv ref'). rewrite Hsig. unfold rs. rewrite <- map_drops, nontriv_recode, map_map.
  apply map_ext_in. intros t Ht. pose proof (chain_tview_recode _ _ Hc) as Hall. rewrite Forall_forall in Hall.
  apply Hall. unfold nontriv in Ht. apply filter_In in Ht. destruct Ht as [Ht _]. eapply drops_incl, Ht.
Qed.
Print Assumptions cuts_sig_views.
