(* Pins tying hand-modelled loops of the section readers to the loop bounds, length filters and
   slice bounds regenerated from the source: a change of `range(0, 128, 2)`, `len(line) != 129`,
   `line[i+2:i+3]` ... breaks these obligations (Model/Gfx.v swap_pairs 64 / zlen l =? 129,
   Model/Sfx.v sfx_read_line / sfx_read_note / zlen l =? 169 assume exactly these values). *)
From PV Require Import Base.Prelude Generated.K_gfx Generated.K_sfx.

Lemma pin_gfx_from_lines :
  (forall n, gfx_fl_skip n = negb (n =? 129)) /\
  (gfx_fl_range_lo, gfx_fl_range_hi, gfx_fl_range_step) = (0, 128, 2).
Proof. split; [intros n; reflexivity | reflexivity]. Qed.

Lemma pin_sfx_from_lines :
  (forall n, sfx_fl_skip n = negb (n =? 169)) /\
  (sfx_fl_range_lo, sfx_fl_range_hi, sfx_fl_range_step) = (8, 168, 5) /\
  (sfx_fl_prop0_lo, sfx_fl_prop0_hi, sfx_fl_prop1_lo, sfx_fl_prop1_hi,
   sfx_fl_prop2_lo, sfx_fl_prop2_hi, sfx_fl_prop3_lo, sfx_fl_prop3_hi) = (0, 2, 2, 4, 4, 6, 6, 8) /\
  (forall i, (sfx_fl_note0_lo i, sfx_fl_note0_hi i, sfx_fl_note1_lo i, sfx_fl_note1_hi i,
              sfx_fl_note2_lo i, sfx_fl_note2_hi i, sfx_fl_note3_lo i, sfx_fl_note3_hi i)
             = (i, i + 2, i + 2, i + 3, i + 3, i + 4, i + 4, i + 5)).
Proof. repeat split; intros; reflexivity. Qed.
