(* Valid programs lie inside the writer domain: the token side and the composition with the writer theorems.

     lexer_plain            plain_tokens (Model/WriterDomain.v) is a fact about the lexer: for every source of the reference
                            dialect the tokens of the lexer model, as the parser sees them, have code = data for keyword /
                            symbol / name / label tokens, lower-case keywords and labels of the form ::name::
     valid_source_in_domain a source whose lexer tokens have a derivation (derives / line_scoped / excl /
                            g_no_paren_suffix) is parsed to its end into a tree with `writable`
     luafmt_valid / echo_valid   composed with luafmt_holds_C09 / echo_holds_C09: the writers succeed on it and the whole
                            instance predicate holds_C09 holds with valid = true *)
From PV Require Import Base.Prelude Base.PySlice Spec.LuaTokens Spec.LuaGrammar Spec.LuaLex Spec.SameCode Instances.HoldsC01
  Model.Tokens Model.Parser Model.ParserInst Model.WriterChunks Model.AstWriter Model.WriterDomain Model.FmtSpaces Model.FmtSpacesInst
  Proofs.ParserProofs Proofs.ParserComplete2 Proofs.LuaLexFacts Proofs.MinifyRelex Proofs.FmtRelexMain Proofs.FmtRelexReindent
  Proofs.ValidDomain1 Proofs.ValidDomain6.
From PV Require Proofs.ParserComplete6.
From PV Require Model.Lexer Model.LexToken Instances.HoldsC09 Proofs.ParserComplete4.
From Coq Require Import Lia.
Import LexToken.

Lemma keywords_lower : forallb (fun k => zlist_eqb (lower k) k) spec_keywords = true.
Proof. vm_compute. reflexivity. Qed.

Lemma keyword_lower a : mem_bytes a spec_keywords = true -> lower a = a.
Proof.
  unfold mem_bytes. intros H. apply existsb_exists in H. destruct H as (k & Hin & Hk). apply zlist_eqb_eq in Hk. subst k.
  pose proof keywords_lower as HL. rewrite forallb_forall in HL. apply zlist_eqb_eq. apply HL, Hin.
Qed.

Lemma zlist_eqb_refl l : zlist_eqb l l = true.
Proof. apply zlist_eqb_eq. reflexivity. Qed.

Lemma label_data_slice n : py_slice (58 :: 58 :: n ++ [58; 58]) 2 (-2) = n.
Proof.
  rewrite ParserComplete4.label_slice. unfold label_name. cbn [length skipn]. rewrite app_length. cbn [length].
  replace (S (S (length n + 2)) - 4)%nat with (length n + 0)%nat by lia. rewrite firstn_app_2. cbn [firstn]. apply app_nil_r.
Qed.

(* one token of the reference lexer, seen by the parser, is plain *)
Lemma step_plain s t rest t' : spec_step s = Some (t, rest) -> corr t t' -> plain_token t' = true.
Proof.
  intros H (Hk & Hc & Hf). unfold plain_token. rewrite Hk. unfold tokfields in Hf. unfold MinifyRelex.spec_code in Hc.
  destruct (s_kind t) eqn:K; cbn [kc]; try reflexivity.
  - (* name *) destruct Hf as [_ Hd]. rewrite Hc, Hd. apply zlist_eqb_refl.
  - (* label *) destruct Hf as [_ Hd]. rewrite Hc, Hd, zlist_eqb_refl. cbn [andb].
    pose proof (spec_step_shape _ _ _ H) as Sh. destruct Sh; cbn [s_kind LuaLex.mk] in K; try discriminate K.
    + apply MinifyRelex.spec_number_kind in H1. rewrite H1 in K. discriminate K.
    + destruct (mem_bytes a spec_keywords); discriminate K.
    + cbn [s_raw LuaLex.mk]. rewrite label_data_slice. apply zlist_eqb_eq. reflexivity.
    + apply MinifyRelex.spec_symbol_kind in H0. rewrite H0 in K. discriminate K.
  - (* keyword *) destruct Hf as [_ Hd]. rewrite Hc, Hd, zlist_eqb_refl. cbn [andb].
    pose proof (spec_step_shape _ _ _ H) as Sh. destruct Sh; cbn [s_kind LuaLex.mk] in K; try discriminate K.
    + apply MinifyRelex.spec_number_kind in H1. rewrite H1 in K. discriminate K.
    + cbn [s_raw LuaLex.mk]. destruct (mem_bytes a spec_keywords) eqn:Em; [|discriminate K]. rewrite (keyword_lower _ Em). apply zlist_eqb_refl.
    + apply MinifyRelex.spec_symbol_kind in H0. rewrite H0 in K. discriminate K.
  - (* symbol *) destruct Hf as [_ Hd]. rewrite Hc, Hd. apply zlist_eqb_refl.
Qed.

Theorem lexer_plain src ss lts : Forall byte src -> spec_lex src = Some ss -> Lexer.model_lex [src] = Ok lts ->
  plain_tokens (map lex_token lts) = true.
Proof.
  intros HB Hs Hm. destruct (lexer_corr src ss lts HB Hs Hm) as [Hc Hch].
  revert Hc. generalize (map lex_token lts). generalize dependent (map unpos ss). clear. intros l Hch.
  induction Hch as [|s t rest ts Hs _ IH]; intros l' Hc; inversion Hc as [|s0 t' ss0 l'1 Hst Hc1]; subst; [reflexivity|].
  unfold plain_tokens. cbn [forallb]. fold (plain_tokens l'1). rewrite (IH _ Hc1), (step_plain _ _ _ _ Hs Hst). reflexivity.
Qed.

(* ------------------------------------------------------------------ valid sources *)
Theorem valid_source_in_domain src ss lts g :
  Forall byte src -> spec_lex src = Some ss -> Lexer.model_lex [src] = Ok lts ->
  derives (map lex_token lts) g = true -> line_scoped (map lex_token lts) g = true -> excl g = true ->
  g_no_paren_suffix g = true ->
  exists root e, lua_parse (map lex_token lts) = Ok (root, e) /\ consumed (map lex_token lts) e = true /\
                 writable (map lex_token lts) root = true.
Proof.
  intros HB Hs Hm Hd Hl He Hg. apply (valid_in_domain _ g Hd Hl He Hg). exact (lexer_plain src ss lts HB Hs Hm).
Qed.

Theorem valid_source_in_domain_nts src ss lts g :
  Forall byte src -> spec_lex src = Some ss -> Lexer.model_lex [src] = Ok lts ->
  derives (map lex_token lts) g = true -> line_scoped (map lex_token lts) g = true -> excl g = true ->
  g_no_paren_suffix g = true -> g_no_trailing_sep g = true ->
  exists root e, lua_parse (map lex_token lts) = Ok (root, e) /\ consumed (map lex_token lts) e = true /\
                 writable (map lex_token lts) root = true /\ AstWriterDepth.no_trailing_sep root = true.
Proof.
  intros HB Hs Hm Hd Hl He Hg Ht. apply (valid_in_domain_nts _ g Hd Hl He Hg Ht). exact (lexer_plain src ss lts HB Hs Hm).
Qed.

Section Writers.
Variable W : spaces_fn.
Hypothesis HW : forall src ss lts root e valid,
  Forall byte src -> spec_lex src = Some ss -> Lexer.model_lex [src] = Ok lts ->
  lua_parse (map lex_token lts) = Ok (root, e) -> consumed (map lex_token lts) e = true ->
  writable (map lex_token lts) root = true ->
  exists out ss' lts',
    writer_text W (map lex_token lts) (view root) = Ok out /\ Forall byte out /\
    spec_lex out = Some ss' /\ Lexer.model_lex [out] = Ok lts' /\
    nl_before (map lex_token lts') = nl_before (map lex_token lts) /\
    HoldsC09.holds_C09 (map lex_token lts) root e valid (Some (map lex_token lts')) = true.

Lemma writer_valid src ss lts g :
  Forall byte src -> spec_lex src = Some ss -> Lexer.model_lex [src] = Ok lts ->
  derives (map lex_token lts) g = true -> line_scoped (map lex_token lts) g = true -> excl g = true ->
  g_no_paren_suffix g = true ->
  exists root e out ss' lts',
    lua_parse (map lex_token lts) = Ok (root, e) /\
    writer_text W (map lex_token lts) (view root) = Ok out /\ Forall byte out /\
    spec_lex out = Some ss' /\ Lexer.model_lex [out] = Ok lts' /\
    nl_before (map lex_token lts') = nl_before (map lex_token lts) /\
    HoldsC09.holds_C09 (map lex_token lts) root e true (Some (map lex_token lts')) = true.
Proof.
  intros HB Hs Hm Hd Hl He Hg.
  destruct (valid_source_in_domain src ss lts g HB Hs Hm Hd Hl He Hg) as (root & e & Hp & Hc & Hw).
  destruct (HW src ss lts root e true HB Hs Hm Hp Hc Hw) as (out & ss' & lts' & H1 & H2 & H3 & H4 & H5 & H6).
  exists root, e, out, ss', lts'. repeat split; assumption.
Qed.
End Writers.

Definition luafmt_valid w := writer_valid (fmt_spaces w) (luafmt_holds_C09 w).
Definition echo_valid := writer_valid echo_spaces echo_holds_C09.

(* ------------------------------------------------------------------ for the non-vacuity examples *)
(* the derivation denoted by a tree of the parser model: operator nests flattened into chains (ParserComplete6.to_deriv),
   the marker of a trailing field separator (Hid PNone) dropped *)
Fixpoint drop_markers (n : nat) (t : tree) : tree :=
  match n with
  | O => t
  | S n =>
      let keep x := match x with Hid PNone => false | _ => true end in
      match t with
      | Node tag s e sh fs => Node tag s e sh (map (drop_markers n) (filter keep fs))
      | Lst l => Lst (map (drop_markers n) (filter keep l))
      | Paren i j x => Paren i j (drop_markers n x)
      | Hid x => Hid (drop_markers n x)
      | _ => t
      end
  end.

Definition deriv_of_tree (t : tree) : tree := drop_markers 100 (ParserComplete6.to_deriv 100 t).
