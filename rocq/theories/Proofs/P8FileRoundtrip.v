(* The .p8 round trip: reading what to_file wrote gives the same cart. *)
From PV Require Import Base.Prelude Base.ListX Base.PySlice Base.Hex Base.Utf8 Base.Dec Model.HexSection Model.Gfx Model.Gff
  Model.MapSec Model.Sfx Model.Music Model.P8sciiInst Model.P8File Generated.K_p8file Generated.K_gfx Generated.K_gff
  Generated.K_map Generated.K_sfx Generated.K_music Spec.P8Format Spec.P8FileSpec
  Proofs.HexSectionProofs Proofs.GfxProofs Proofs.MusicProofs Proofs.SfxLines Proofs.C16Proofs
  Proofs.P8FileLines Proofs.P8FileEnc Proofs.P8FileWrite Proofs.P8FileRead Proofs.P8FileCollect.
From Coq Require Import ZifyBool.

(* trailing blank lines are ignored by the gfx and music readers *)
Lemma gfx_from_lines_blank ls : gfx_from_lines (ls ++ [[10]]) = gfx_from_lines ls.
Proof.
  induction ls as [|l ls IH]; [reflexivity|]. cbn [app gfx_from_lines]. rewrite IH. reflexivity.
Qed.
Lemma music_from_lines_blank ls : music_from_lines (ls ++ [[10]]) = music_from_lines ls.
Proof.
  induction ls as [|l ls IH]; [reflexivity|]. cbn [app music_from_lines]. rewrite IH. reflexivity.
Qed.

Lemma ends_with_nl_app_r a b : b <> [] -> ends_with_nl (a ++ b) = ends_with_nl b.
Proof.
  intros Hb. induction a as [|c a IH]; [reflexivity|]. cbn [app].
  destruct (a ++ b) eqn:E; [destruct a; [cbn in E; congruence | discriminate]|]. exact IH.
Qed.

Lemma last_ends_nl_spec chunks : forall d,
  last_ends_nl chunks d = match rev chunks with [] => d | l :: _ => Some (ends_with_nl l) end.
Proof.
  induction chunks as [|ch chunks IH]; intros d; [reflexivity|].
  cbn [last_ends_nl rev]. rewrite IH. destruct (rev chunks); reflexivity.
Qed.

(* if the last chunk the echo writer yields is not empty, the writer's flag is "the text ends in \n" *)
Lemma ended_flag_text chunks :
  match rev chunks with [] => True | l :: _ => l <> [] end ->
  ended_flag chunks = ends_with_nl (concat chunks).
Proof.
  intros H. unfold ended_flag. rewrite last_ends_nl_spec.
  destruct (rev chunks) as [|l r] eqn:E.
  - assert (chunks = []) by (rewrite <- (rev_involutive chunks), E; reflexivity). subst. reflexivity.
  - assert (C : chunks = rev r ++ [l]) by (rewrite <- (rev_involutive chunks), E; reflexivity).
    rewrite C, concat_app. cbn [concat]. rewrite app_nil_r, ends_with_nl_app_r by exact H.
    destruct (ends_with_nl l); reflexivity.
Qed.

Lemma hdr_lua : match_section ("__lua__"%bs ++ [10]) = Some ("lua"%bs : list Z).
Proof. reflexivity. Qed.
Lemma hdr_gfx : match_section ("__gfx__"%bs ++ [10]) = Some ("gfx"%bs : list Z).
Proof. reflexivity. Qed.
Lemma hdr_label : match_section ("__label__"%bs ++ [10]) = Some ("label"%bs : list Z).
Proof. reflexivity. Qed.
Lemma hdr_gff : match_section ("__gff__"%bs ++ [10]) = Some ("gff"%bs : list Z).
Proof. reflexivity. Qed.
Lemma hdr_map : match_section ("__map__"%bs ++ [10]) = Some ("map"%bs : list Z).
Proof. reflexivity. Qed.
Lemma hdr_sfx : match_section ("__sfx__"%bs ++ [10]) = Some ("sfx"%bs : list Z).
Proof. reflexivity. Qed.
Lemma hdr_music : match_section ("__music__"%bs ++ [10]) = Some ("music"%bs : list Z).
Proof. reflexivity. Qed.

Ltac sect HDR B := erewrite (fun fr => collect_section _ _ _ _ _ _ _ HDR fr B); [ | reflexivity ].

Section WithLua.
Variable lua : Type.
Variable lua_from_lines : list (list Z) -> result lua.
Variable lua_to_lines : lua -> list (list Z).
Variable lua_empty : lua.
Notation cart := (cart lua).
Notation write_p8_chunks := (write_p8_chunks lua lua_from_lines lua_to_lines).
Notation write_p8 := (write_p8 lua lua_from_lines lua_to_lines).
Notation read_p8 := (read_p8 lua lua_from_lines lua_empty).
Notation wf_cart := (wf_cart lua lua_to_lines).
Notation wf_short := (wf_short lua lua_to_lines).
Notation expected_chunks := (expected_chunks lua lua_to_lines).

Definition code_text (c : cart) : list Z := concat (lua_to_lines (c_lua c)).
Definition code_lines (c : cart) : list (list Z) := split_lines (supply_nl (code_text c)).

(* everything after the Lua text: these chunks are exactly the remaining lines of the file *)
Definition post (c : cart) : list (list Z) :=
  [("__gfx__"%bs ++ [10])] ++ gfx_to_lines (c_gfx c) ++ label_chunks lua c ++
  [[10]; ("__gff__"%bs ++ [10])] ++ spec_hex_lines (c_gff c) ++
  [("__map__"%bs ++ [10])] ++ spec_hex_lines (c_map c) ++
  [("__sfx__"%bs ++ [10])] ++ spec_sfx_lines (c_sfx c) ++
  [("__music__"%bs ++ [10])] ++ spec_music_lines (c_music c) ++ [[10]].

Definition file_lines (c : cart) : list (list Z) :=
  [p8_header_title; ("version "%bs ++ dec_of_Z (c_version c) ++ [10]); ("__lua__"%bs ++ [10])] ++
  map enc_text (code_lines c) ++ post c.

Lemma code_lines_facts c : Forall (Forall byte) (lua_to_lines (c_lua c)) ->
  Forall nl_line (code_lines c) /\ concat (code_lines c) = supply_nl (code_text c) /\
  Forall (Forall byte) (code_lines c).
Proof.
  intros Hb. unfold code_lines.
  destruct (split_lines_text (supply_nl (code_text c)) (supply_nl_ends _)) as (F & C).
  split; [exact F|]. split; [exact C|].
  apply Forall_concat_inv. rewrite C. unfold supply_nl.
  assert (B : Forall byte (code_text c)) by (apply Forall_concat; exact Hb).
  destruct (ends_nl (code_text c)); [exact B|]. apply Forall_app. split; [exact B | repeat constructor; unfold byte; lia].
Qed.

Lemma lua_part c : Forall (Forall byte) (lua_to_lines (c_lua c)) ->
  ended_flag (lua_to_lines (c_lua c)) = ends_with_nl (code_text c) ->
  concat (map lua_chunk_text (lua_to_lines (c_lua c)) ++ (if ended_flag (lua_to_lines (c_lua c)) then [] else [[10]]))
  = concat (map enc_text (code_lines c)).
Proof.
  intros Hb He. destruct (code_lines_facts c Hb) as (_ & C & _).
  rewrite <- enc_text_concat, C. rewrite concat_app, chunks_text. fold (code_text c).
  unfold supply_nl. rewrite ends_nl_eq, <- He.
  destruct (ended_flag (lua_to_lines (c_lua c))); [apply app_nil_r|].
  rewrite enc_text_app. cbn [concat enc_text flat_map]. rewrite enc_nl. reflexivity.
Qed.

Lemma file_concat c : Forall (Forall byte) (lua_to_lines (c_lua c)) ->
  ended_flag (lua_to_lines (c_lua c)) = ends_with_nl (code_text c) ->
  concat (expected_chunks c) = concat (file_lines c).
Proof.
  intros Hb He. unfold P8FileWrite.expected_chunks, file_lines.
  change ([("__gfx__"%bs ++ [10])] ++ gfx_to_lines (c_gfx c) ++ label_chunks lua c ++
          [[10]; ("__gff__"%bs ++ [10])] ++ spec_hex_lines (c_gff c) ++
          [("__map__"%bs ++ [10])] ++ spec_hex_lines (c_map c) ++
          [("__sfx__"%bs ++ [10])] ++ spec_sfx_lines (c_sfx c) ++
          [("__music__"%bs ++ [10])] ++ spec_music_lines (c_music c) ++ [[10]]) with (post c).
  rewrite (concat_app [_; _; _]), (concat_app [_; _; _]). f_equal.
  rewrite (app_assoc (map lua_chunk_text _)), concat_app, (lua_part c Hb He), <- concat_app. reflexivity.
Qed.

Lemma lift_hexline ls : Forall hexline ls -> Forall (fun l => hexline l \/ nl_lineb l = true) ls.
Proof. intros H. eapply Forall_impl; [|exact H]. cbv beta. intros a Ha. left. exact Ha. Qed.

Lemma post_hexlines c : wf_short c -> Forall (fun l => hexline l \/ nl_lineb l = true) (post c).
Proof.
  intros (Hv & Lg & Lf & Lm & Ls & (kmu & Lmu & _) & Bg & Bf & Bm & Bs & Bmu & Hlab & Hch). unfold post, label_chunks.
  rewrite !Forall_app. repeat split.
  - constructor; [right; reflexivity | constructor].
  - apply lift_hexline, gfx_lines_hexline; exact Bg.
  - destruct (c_label c) as [d|]; [|constructor]. destruct Hlab as (_ & Bd).
    apply Forall_app. split; [constructor; [right; reflexivity | constructor]|].
    apply lift_hexline, gfx_lines_hexline; exact Bd.
  - constructor; [left; apply blank_hexline|]. constructor; [right; reflexivity | constructor].
  - apply lift_hexline, hex_lines_hexline; exact Bf.
  - constructor; [right; reflexivity | constructor].
  - apply lift_hexline, hex_lines_hexline; exact Bm.
  - constructor; [right; reflexivity | constructor].
  - apply lift_hexline, sfx_lines_hexline; exact Bs.
  - constructor; [right; reflexivity | constructor].
  - apply lift_hexline, (music_lines_hexline kmu); [exact Lmu | exact Bmu].
  - constructor; [left; apply blank_hexline | constructor].
Qed.

Lemma file_lines_nl c : wf_short c -> Forall nl_line (file_lines c).
Proof.
  intros W. pose proof W as (Hv & _ & _ & _ & _ & _ & _ & _ & _ & _ & _ & _ & Hch).
  unfold file_lines. rewrite !Forall_app. repeat split.
  - constructor; [apply nl_lineb_spec; reflexivity|]. constructor; [apply version_line_nl; exact Hv|].
    constructor; [apply nl_lineb_spec; reflexivity | constructor].
  - destruct (code_lines_facts c Hch) as (F & _ & B).
    apply Forall_forall. intros l Hl. apply in_map_iff in Hl. destruct Hl as (t & <- & Ht).
    rewrite Forall_forall in F, B. apply enc_nl_line; [apply B | apply F]; exact Ht.
  - eapply Forall_impl; [|apply post_hexlines; exact W]. cbv beta.
    intros a [H|H]; [apply (hexline_facts a H) | apply nl_lineb_spec; exact H].
Qed.

Lemma split_file c : wf_short c ->
  ended_flag (lua_to_lines (c_lua c)) = ends_with_nl (code_text c) ->
  split_lines (concat (expected_chunks c)) = file_lines c.
Proof.
  intros W He. pose proof W as (_ & _ & _ & _ & _ & _ & _ & _ & _ & _ & _ & _ & Hch).
  rewrite (file_concat c Hch He). apply split_lines_concat_all. apply file_lines_nl. exact W.
Qed.

(* ---- the sections the raw reader collects ---- *)
Definition raw_sections_of (c : cart) : list (list Z * list (list Z)) :=
  [(("lua"%bs : list Z), code_lines c)] ++
  match c_label c with
  | None => [(("gfx"%bs : list Z), gfx_to_lines (c_gfx c) ++ [[10]])]
  | Some d => [(("gfx"%bs : list Z), gfx_to_lines (c_gfx c)); (("label"%bs : list Z), gfx_to_lines d ++ [[10]])]
  end ++
  [(("gff"%bs : list Z), spec_hex_lines (c_gff c)); (("map"%bs : list Z), spec_hex_lines (c_map c));
   (("sfx"%bs : list Z), spec_sfx_lines (c_sfx c)); (("music"%bs : list Z), spec_music_lines (c_music c) ++ [[10]])].

Lemma rev'_app_rev {A} (a b : list A) : rev' (rev b ++ rev a) = a ++ b.
Proof. rewrite rev'_rev, rev_app_distr, !rev_involutive. reflexivity. Qed.

Lemma raw_data_ok c : wf_short c ->
  ended_flag (lua_to_lines (c_lua c)) = ends_with_nl (code_text c) ->
  code_in_format (code_text c) = true ->
  get_raw_data (concat (expected_chunks c)) =
  Ok {| raw_version := c_version c; raw_sections := raw_sections_of c |}.
Proof.
  intros W He Hfmt. pose proof W as (Hv & Lg & Lf & Lm & Ls & (kmu & Lmu & _) & Bg & Bf & Bm & Bs & Bmu & Hlab & Hch).
  unfold get_raw_data. rewrite (split_file c W He). unfold file_lines. cbn [app].
  rewrite zlist_eqb_refl. cbn [negb]. rewrite match_version_line by exact Hv.
  destruct (code_lines_facts c Hch) as (FN & _ & FB).
  assert (LB : Forall2 line_ok (map enc_text (code_lines c)) (code_lines c)).
  { apply lua_block; [exact FB | exact FN|]. unfold code_in_format in Hfmt. rewrite text_lines_eq in Hfmt. exact Hfmt. }
  assert (HG := hex_block _ (gfx_lines_hexline _ Bg)).
  assert (HF := hex_block _ (hex_lines_hexline _ Bf)).
  assert (HM := hex_block _ (hex_lines_hexline _ Bm)).
  assert (HS := hex_block _ (sfx_lines_hexline _ Bs)).
  assert (HMU := hex_block _ (music_lines_hexline kmu _ Lmu Bmu)).
  assert (HB := hex_block [[10]] ltac:(constructor; [apply blank_hexline | constructor])).
  unfold post, label_chunks, raw_sections_of.
  destruct (c_label c) as [d|].
  - destruct Hlab as (_ & Bd). assert (HL := hex_block _ (gfx_lines_hexline _ Bd)).
    cbn [app].
    sect hdr_lua LB. cbn [app].
    sect hdr_gfx HG. cbn [app].
    change ([10] :: ?x) with ([[10]] ++ x).
    rewrite (app_assoc (gfx_to_lines d) [[10]]).
    sect hdr_label (Forall2_app HL HB). cbn [app].
    sect hdr_gff HF. cbn [app].
    sect hdr_map HM. cbn [app].
    sect hdr_sfx HS. cbn [app].
    rewrite <- (app_nil_r (spec_music_lines (c_music c) ++ [[10]])).
    sect hdr_music (Forall2_app HMU HB). cbn [app collect bind map fst snd].
    rewrite !rev'_rev, !rev_involutive, ?app_nil_r. reflexivity.
  - cbn [app].
    sect hdr_lua LB. cbn [app].
    change ([10] :: ?x) with ([[10]] ++ x).
    rewrite (app_assoc (gfx_to_lines (c_gfx c)) [[10]]).
    sect hdr_gfx (Forall2_app HG HB). cbn [app].
    sect hdr_gff HF. cbn [app].
    sect hdr_map HM. cbn [app].
    sect hdr_sfx HS. cbn [app].
    rewrite <- (app_nil_r (spec_music_lines (c_music c) ++ [[10]])).
    sect hdr_music (Forall2_app HMU HB). cbn [app collect bind map fst snd].
    rewrite !rev'_rev, !rev_involutive, ?app_nil_r. reflexivity.
Qed.


(* ---- applying the sections ---- *)
Definition norm_cart (c : cart) (l' : lua) : cart :=
  {| c_version := c_version c; c_lua := l'; c_gfx := c_gfx c; c_label := c_label c; c_gff := c_gff c;
     c_map := c_map c; c_sfx := c_sfx c; c_music := music_norm (c_music c) |}.

Lemma lk_lua : lookup_sec p8_read_sections ("lua"%bs : list Z) = Some 5. Proof. reflexivity. Qed.
Lemma lk_gfx : lookup_sec p8_read_sections ("gfx"%bs : list Z) = Some 0. Proof. reflexivity. Qed.
Lemma lk_label : lookup_sec p8_read_sections ("label"%bs : list Z) = Some 6. Proof. reflexivity. Qed.
Lemma lk_gff : lookup_sec p8_read_sections ("gff"%bs : list Z) = Some 2. Proof. reflexivity. Qed.
Lemma lk_map : lookup_sec p8_read_sections ("map"%bs : list Z) = Some 1. Proof. reflexivity. Qed.
Lemma lk_sfx : lookup_sec p8_read_sections ("sfx"%bs : list Z) = Some 4. Proof. reflexivity. Qed.
Lemma lk_music : lookup_sec p8_read_sections ("music"%bs : list Z) = Some 3. Proof. reflexivity. Qed.

Lemma apply_sections_ok c : wf_short c ->
  foldM (apply_section lua lua_from_lines) (raw_sections_of c) (empty_cart lua lua_empty (c_version c)) =
  (l' <- lua_from_lines (code_lines c) ;; Ok (norm_cart c l')).
Proof.
  intros (Hv & (kg & Lg & _) & Lf & Lm & Ls & (kmu & Lmu & _) & Bg & Bf & Bm & Bs & Bmu & Hlab & Hch).
  assert (Eg : gfx_from_lines (gfx_to_lines (c_gfx c)) = Ok (c_gfx c)) by (apply (gfx_roundtrip kg); [exact Lg | exact Bg]).
  destruct (gff_section (c_gff c) Bf) as (_ & Ef).
  destruct (map_section (c_map c) Bm) as (_ & Em).
  destruct (sfx_section (c_sfx c) Ls Bs) as (_ & Es).
  destruct (music_section kmu (c_music c) Lmu Bmu) as (_ & Emu).
  unfold raw_sections_of.
  destruct (c_label c) as [d|] eqn:EL.
  - destruct Hlab as ((kl & Ld & _) & Bd).
    assert (Ed : gfx_from_lines (gfx_to_lines d) = Ok d) by (apply (gfx_roundtrip kl); [exact Ld | exact Bd]).
    cbn [app foldM apply_section]. rewrite lk_lua. cbn [Z.eqb Pos.eqb].
    destruct (lua_from_lines (code_lines c)) as [l'|e]; [|reflexivity]. cbn [bind foldM apply_section].
    rewrite lk_gfx. cbn [Z.eqb Pos.eqb c_gfx c_version c_lua c_label c_gff c_map c_sfx c_music].
    rewrite Eg. cbn [bind foldM apply_section].
    rewrite lk_label. cbn [Z.eqb Pos.eqb c_gfx c_version c_lua c_label c_gff c_map c_sfx c_music].
    rewrite gfx_from_lines_blank, Ed. cbn [bind foldM apply_section].
    rewrite lk_gff. cbn [Z.eqb Pos.eqb c_gfx c_version c_lua c_label c_gff c_map c_sfx c_music].
    rewrite Ef. cbn [bind foldM apply_section].
    rewrite lk_map. cbn [Z.eqb Pos.eqb c_gfx c_version c_lua c_label c_gff c_map c_sfx c_music].
    rewrite Em. cbn [bind foldM apply_section].
    rewrite lk_sfx. cbn [Z.eqb Pos.eqb c_gfx c_version c_lua c_label c_gff c_map c_sfx c_music].
    rewrite Es. cbn [bind foldM apply_section].
    rewrite lk_music. cbn [Z.eqb Pos.eqb c_gfx c_version c_lua c_label c_gff c_map c_sfx c_music].
    rewrite music_from_lines_blank, Emu. cbn [bind foldM].
    unfold norm_cart. rewrite EL. reflexivity.
  - cbn [app foldM apply_section]. rewrite lk_lua. cbn [Z.eqb Pos.eqb].
    destruct (lua_from_lines (code_lines c)) as [l'|e]; [|reflexivity]. cbn [bind foldM apply_section].
    rewrite lk_gfx. cbn [Z.eqb Pos.eqb c_gfx c_version c_lua c_label c_gff c_map c_sfx c_music].
    rewrite gfx_from_lines_blank, Eg. cbn [bind foldM apply_section].
    rewrite lk_gff. cbn [Z.eqb Pos.eqb c_gfx c_version c_lua c_label c_gff c_map c_sfx c_music].
    rewrite Ef. cbn [bind foldM apply_section].
    rewrite lk_map. cbn [Z.eqb Pos.eqb c_gfx c_version c_lua c_label c_gff c_map c_sfx c_music].
    rewrite Em. cbn [bind foldM apply_section].
    rewrite lk_sfx. cbn [Z.eqb Pos.eqb c_gfx c_version c_lua c_label c_gff c_map c_sfx c_music].
    rewrite Es. cbn [bind foldM apply_section].
    rewrite lk_music. cbn [Z.eqb Pos.eqb c_gfx c_version c_lua c_label c_gff c_map c_sfx c_music].
    rewrite music_from_lines_blank, Emu. cbn [bind foldM].
    unfold norm_cart. rewrite EL. reflexivity.
Qed.

(* ---- the padding loop after the dispatch ---- *)
Definition pad0 (n : nat) (d : list Z) : list Z := d ++ repeat 0 (n - length d).
Definition music_default : list Z := concat (repeat [65; 66; 67; 68] 64).

(* what reading makes of a short cart: every region filled up with the empty default
   (zeros; the silent pattern 41 42 43 44 for music) *)
Definition pad_cart (c : cart) : cart :=
  {| c_version := c_version c; c_lua := c_lua c; c_gfx := pad0 (Z.to_nat 8192) (c_gfx c);
     c_label := match c_label c with Some d => Some (pad0 (Z.to_nat 8192) d) | None => None end;
     c_gff := pad0 256 (c_gff c); c_map := pad0 (Z.to_nat 4096) (c_map c); c_sfx := c_sfx c;
     c_music := c_music c ++ skipn (length (c_music c)) music_default |}.

Lemma pin_pad_sections :
  p8_pad_sections = [(0, repeat 0 (Z.to_nat 8192)); (2, repeat 0 (Z.to_nat 256)); (1, repeat 0 (Z.to_nat 4096));
                     (4, sfx_empty); (3, music_default); (6, repeat 0 (Z.to_nat 8192))].
Proof. reflexivity. Qed.

Lemma skipn_repeat {A} (x : A) n k : skipn k (repeat x n) = repeat x (n - k).
Proof.
  revert k. induction n as [|n IH]; intros k; [destruct k; reflexivity|].
  destruct k as [|k]; [reflexivity|]. cbn [skipn repeat Nat.sub]. apply IH.
Qed.

Lemma pad_to_zeros n d : (length d <= n)%nat -> pad_to d (repeat 0 n) = pad0 n d.
Proof.
  intros H. unfold pad_to, pad0, zlen. rewrite repeat_length.
  destruct (Z.of_nat (length d) <? Z.of_nat n) eqn:E.
  - rewrite skipn_repeat. reflexivity.
  - replace (n - length d)%nat with 0%nat by lia. cbn [repeat]. rewrite app_nil_r. reflexivity.
Qed.

Lemma pad_to_full d dflt : length d = length dflt -> pad_to d dflt = d.
Proof. intros H. unfold pad_to, zlen. rewrite H, Z.ltb_irrefl. reflexivity. Qed.

Lemma pad_to_music d : (length d <= 256)%nat -> pad_to d music_default = d ++ skipn (length d) music_default.
Proof.
  intros H. unfold pad_to, zlen. change (length music_default) with 256%nat.
  destruct (Z.of_nat (length d) <? Z.of_nat 256) eqn:E; [reflexivity|].
  rewrite skipn_all2 by (change (length music_default) with 256%nat; lia). rewrite app_nil_r. reflexivity.
Qed.

Lemma pad_sections_short (c : cart) :
  (length (c_gfx c) <= Z.to_nat 8192)%nat -> (length (c_gff c) <= 256)%nat -> (length (c_map c) <= Z.to_nat 4096)%nat ->
  length (c_sfx c) = 4352%nat -> (length (c_music c) <= 256)%nat ->
  match c_label c with Some d => (length d <= Z.to_nat 8192)%nat | None => True end ->
  pad_sections lua c = Ok (pad_cart c).
Proof.
  intros Hg Hf Hm Hs Hmu Hl. unfold pad_sections. rewrite pin_pad_sections.
  cbn [foldM pad_section bind Z.eqb Pos.eqb c_version c_lua c_gfx c_label c_gff c_map c_sfx c_music].
  rewrite !pad_to_zeros by assumption.
  rewrite (pad_to_full (c_sfx c)) by (rewrite Hs; symmetry; apply pin_sfx_empty).
  rewrite pad_to_music by exact Hmu.
  unfold pad_cart. destruct (c_label c) as [d|]; [|reflexivity].
  rewrite pad_to_zeros by exact Hl. reflexivity.
Qed.

Lemma pad0_full n d : length d = n -> pad0 n d = d.
Proof. intros H. unfold pad0. rewrite H, Nat.sub_diag. apply app_nil_r. Qed.

Lemma pad_cart_full (c : cart) :
  length (c_gfx c) = Z.to_nat 8192 -> length (c_gff c) = 256%nat -> length (c_map c) = Z.to_nat 4096 ->
  length (c_music c) = 256%nat ->
  match c_label c with Some d => length d = Z.to_nat 8192 | None => True end ->
  pad_cart c = c.
Proof.
  intros Hg Hf Hm Hmu Hl. unfold pad_cart. rewrite !pad0_full by assumption.
  rewrite skipn_all2 by (change (length music_default) with 256%nat; lia). rewrite app_nil_r.
  destruct c as [v l g lab f m sf mu]. cbn [c_version c_lua c_gfx c_label c_gff c_map c_sfx c_music] in *.
  destruct lab as [d|]; [rewrite pad0_full by exact Hl|]; reflexivity.
Qed.

Lemma pad0_length n d : (length d <= n)%nat -> length (pad0 n d) = n.
Proof. intros H. unfold pad0. rewrite app_length, repeat_length. lia. Qed.

(* the padded cart, region by region *)
Lemma pad_cart_facts c l' : wf_short c ->
  let c' := pad_cart (norm_cart c l') in
  c_version c' = c_version c /\ c_lua c' = l' /\ c_sfx c' = c_sfx c /\
  c_gfx c' = c_gfx c ++ repeat 0 (Z.to_nat 8192 - length (c_gfx c)) /\ length (c_gfx c') = Z.to_nat 8192 /\
  c_gff c' = c_gff c ++ repeat 0 (256 - length (c_gff c)) /\ length (c_gff c') = 256%nat /\
  c_map c' = c_map c ++ repeat 0 (Z.to_nat 4096 - length (c_map c)) /\ length (c_map c') = Z.to_nat 4096 /\
  c_music c' = music_norm (c_music c) ++ skipn (length (c_music c)) (concat (repeat [65; 66; 67; 68] 64)) /\
  length (c_music c') = 256%nat /\
  c_label c' = match c_label c with
               | Some d => Some (d ++ repeat 0 (Z.to_nat 8192 - length d))
               | None => None
               end /\
  match c_label c' with Some d => length d = Z.to_nat 8192 | None => True end.
Proof.
  intros (_ & (kg & Lg & Kg) & Lf & Lm & Ls & (kmu & Lmu & Kmu) & _ & _ & _ & _ & _ & Hlab & _).
  unfold pad_cart, norm_cart. cbn [c_version c_lua c_gfx c_label c_gff c_map c_sfx c_music].
  rewrite music_norm_length. fold music_default.
  repeat split; try reflexivity.
  - apply pad0_length. lia.
  - apply pad0_length. exact Lf.
  - apply pad0_length. exact Lm.
  - rewrite app_length, music_norm_length, skipn_length. change (length music_default) with 256%nat. lia.
  - destruct (c_label c) as [d|]; [|exact I]. destruct Hlab as ((kl & Ld & Kl) & _). apply pad0_length. lia.
Qed.

(* ---- the round trip ---- *)
(* a cart with short regions: the file spells out just those rows; reading fills every region up *)
Lemma p8_roundtrip_short c l0 : wf_short c ->
  lua_from_lines (lua_to_lines (c_lua c)) = Ok l0 ->
  ended_flag (lua_to_lines (c_lua c)) = ends_with_nl (code_text c) ->
  code_in_format (code_text c) = true ->
  exists file, write_p8 c = Ok file /\ file = concat (file_lines c) /\
    read_p8 file = (l' <- lua_from_lines (code_lines c) ;; Ok (pad_cart (norm_cart c l'))).
Proof.
  intros W Hs He Hf. pose proof W as (_ & (kg & Lg & Kg) & Lf & Lm & Ls & (kmu & Lmu & Kmu) & _ & _ & _ & _ & _ & Hlab & Hch).
  exists (concat (expected_chunks c)). split; [|split].
  - unfold P8File.write_p8. rewrite (write_chunks_short lua lua_from_lines lua_to_lines c l0 W Hs). reflexivity.
  - apply file_concat; assumption.
  - unfold P8File.read_p8. rewrite (raw_data_ok c W He Hf). cbn [bind raw_sections raw_version].
    rewrite (apply_sections_ok c W).
    destruct (lua_from_lines (code_lines c)) as [l'|e]; [|reflexivity]. cbn [bind].
    apply pad_sections_short; unfold norm_cart; cbn [c_version c_lua c_gfx c_label c_gff c_map c_sfx c_music];
      try lia; try assumption.
    + rewrite music_norm_length. lia.
    + destruct (c_label c) as [d|]; [|exact I]. destruct Hlab as ((kl & Ld & Kl) & _). lia.
Qed.

Lemma p8_roundtrip c l0 : wf_cart c ->
  lua_from_lines (lua_to_lines (c_lua c)) = Ok l0 ->
  ended_flag (lua_to_lines (c_lua c)) = ends_with_nl (code_text c) ->
  code_in_format (code_text c) = true ->
  exists file, write_p8 c = Ok file /\ file = concat (file_lines c) /\
    read_p8 file = (l' <- lua_from_lines (code_lines c) ;; Ok (norm_cart c l')).
Proof.
  intros W Hs He Hf.
  destruct (p8_roundtrip_short c l0 (wf_cart_short lua lua_to_lines c W) Hs He Hf) as (file & A & B & C).
  exists file. split; [exact A|]. split; [exact B|]. rewrite C.
  destruct (lua_from_lines (code_lines c)) as [l'|e]; [|reflexivity]. cbn [bind]. f_equal.
  destruct W as (_ & Lg & Lf & Lm & _ & Lmu & _ & _ & _ & _ & _ & Hlab & _).
  apply pad_cart_full; unfold norm_cart; cbn [c_version c_lua c_gfx c_label c_gff c_map c_sfx c_music]; try assumption.
  - rewrite music_norm_length. exact Lmu.
  - destruct (c_label c) as [d|]; [exact (proj1 Hlab) | exact I].
Qed.

End WithLua.
