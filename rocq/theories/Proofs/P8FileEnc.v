(* How P8SCII text travels through p8scii_to_unicode + UTF-8 and back, line by line, and why the
   section-header regex sees the same thing on the file text as on the P8SCII text. Table facts are
   recomputed by vm_compute on the regenerated P8SCII table. *)
From PV Require Import Base.Prelude Base.ListX Base.Utf8 Base.Dec Generated.T_p8scii Model.P8scii Model.P8sciiInst
  Model.P8File Proofs.P8sciiProofs Proofs.P8sciiTable Proofs.P8FileLines.
From Coq Require Import ZifyBool.

Definition enc (b : Z) : list Z := utf8_encode (p8_spelling b).
Definition enc_text (t : list Z) : list Z := flat_map enc t.

Lemma utf8_encode_app a b : utf8_encode (a ++ b) = utf8_encode a ++ utf8_encode b.
Proof. unfold utf8_encode. apply flat_map_app. Qed.

Lemma lua_chunk_text_enc t : lua_chunk_text t = enc_text t.
Proof.
  unfold lua_chunk_text, enc_text, p8_p2u, P8scii.p2u. induction t as [|b t IH]; [reflexivity|].
  cbn [flat_map]. rewrite utf8_encode_app, IH. reflexivity.
Qed.

Lemma enc_text_app a b : enc_text (a ++ b) = enc_text a ++ enc_text b.
Proof. apply flat_map_app. Qed.

Lemma enc_text_concat ls : enc_text (concat ls) = concat (map enc_text ls).
Proof. induction ls as [|l ls IH]; [reflexivity|]. cbn [concat map]. rewrite enc_text_app, IH. reflexivity. Qed.

Lemma chunks_text chunks : concat (map lua_chunk_text chunks) = enc_text (concat chunks).
Proof.
  rewrite enc_text_concat. f_equal. apply map_ext. intros a. apply lua_chunk_text_enc.
Qed.

(* ---- table facts ---- *)
Definition enc_class_ok (b : Z) : bool :=
  (zlist_eqb (enc b) [b] && (b <? 128)) ||
  (forallb (fun x => 128 <=? x) (enc b) && negb (match enc b with [] => true | _ => false end)).
Lemma enc_class_all : forallb enc_class_ok (upto 256) = true.
Proof. vm_compute. reflexivity. Qed.

Definition plain_byte (b : Z) : bool := is_word b || (b =? 10) || (b =? 32).
Definition plain_ok (b : Z) : bool :=
  negb (plain_byte b) || (zlist_eqb (enc b) [b] && zlist_eqb (p8_spelling b) [b]).
Lemma plain_all : forallb plain_ok (upto 256) = true.
Proof. vm_compute. reflexivity. Qed.

Lemma enc_class b : byte b ->
  (enc b = [b] /\ b < 128) \/ (Forall (fun x => 128 <= x) (enc b) /\ enc b <> []).
Proof.
  intros Hb. pose proof (sweep_byte _ enc_class_all b Hb) as H. unfold enc_class_ok in H.
  apply orb_true_iff in H. destruct H as [H|H]; apply andb_true_iff in H; destruct H as [H1 H2].
  - left. apply zlist_eqb_eq in H1. split; [exact H1 | lia].
  - right. split.
    + apply Forall_forall. intros x Hx. rewrite forallb_forall in H1. specialize (H1 x Hx). lia.
    + destruct (enc b); [discriminate | discriminate].
Qed.

Lemma enc_plain b : byte b -> plain_byte b = true -> enc b = [b] /\ p8_spelling b = [b].
Proof.
  intros Hb Hp. pose proof (sweep_byte _ plain_all b Hb) as H. unfold plain_ok in H.
  rewrite Hp in H. cbn [negb orb] in H. apply andb_true_iff in H. destruct H as [H1 H2].
  split; apply zlist_eqb_eq; assumption.
Qed.

Lemma plain_lt128 b : plain_byte b = true -> b < 128.
Proof. unfold plain_byte, is_word, is_digit. lia. Qed.

(* an ASCII byte at the head of the encoded text is that byte of the P8SCII text *)
Lemma ascii_head t x r : Forall byte t -> enc_text t = x :: r -> x < 128 ->
  exists t', t = x :: t' /\ r = enc_text t'.
Proof.
  intros Ht E Hx. destruct t as [|b t]; [discriminate|]. inversion Ht as [|? ? Hb Ht']; subst.
  cbn [enc_text flat_map] in E. destruct (enc_class b Hb) as [[Eb _]|[F N]].
  - rewrite Eb in E. cbn [app] in E. injection E as -> <-. exists t. auto.
  - destruct (enc b) as [|y e]; [congruence|]. cbn [app] in E. injection E as -> _.
    inversion F; subst. lia.
Qed.

Lemma enc_no_nl b : Forall byte b -> no_nl b -> no_nl (enc_text b).
Proof.
  intros Hb Hn. induction Hb as [|c b Hc Hb IH]; [constructor|].
  inversion Hn as [|? ? Hc10 Hn']; subst. cbn [enc_text flat_map]. apply Forall_app. split; [|apply IH; exact Hn'].
  destruct (enc_class c Hc) as [[E _]|[F _]].
  - rewrite E. constructor; [exact Hc10 | constructor].
  - eapply Forall_impl; [|exact F]. cbv beta. intros a Ha. lia.
Qed.

Lemma enc_nl : enc 10 = [10].
Proof. apply (enc_plain 10); [unfold byte; lia | reflexivity]. Qed.

Lemma enc_nl_line l : Forall byte l -> nl_line l -> nl_line (enc_text l).
Proof.
  intros Hb (b & -> & Hn). apply Forall_app in Hb. destruct Hb as [Hb _].
  exists (enc_text b). split.
  - rewrite enc_text_app. cbn [enc_text flat_map]. rewrite enc_nl. reflexivity.
  - apply enc_no_nl; assumption.
Qed.

(* ---- the section-header regex sees the same on both sides ---- *)
Lemma is_word_plain b : is_word b = true -> plain_byte b = true.
Proof. unfold plain_byte. intros ->. reflexivity. Qed.

Lemma span_enc t : Forall byte t ->
  span is_word (enc_text t) = (fst (span is_word t), enc_text (snd (span is_word t))).
Proof.
  induction 1 as [|b t Hb Ht IH]; [reflexivity|].
  cbn [enc_text flat_map span]. destruct (is_word b) eqn:W.
  - destruct (enc_plain b Hb (is_word_plain b W)) as [E _]. rewrite E. cbn [app span]. rewrite W.
    fold (enc_text t). rewrite IH. destruct (span is_word t) as [a r]. reflexivity.
  - cbn [fst snd]. destruct (enc_class b Hb) as [[E _]|[F N]].
    + rewrite E. cbn [app span]. rewrite W. cbn [enc_text flat_map]. rewrite E. reflexivity.
    + destruct (enc b) as [|y e] eqn:E; [congruence|]. cbn [app span].
      inversion F as [|? ? Hy _]; subst.
      assert (Wy : is_word y = false) by (unfold is_word, is_digit; lia).
      rewrite Wy. cbn [enc_text flat_map]. rewrite E. reflexivity.
Qed.

Lemma enc_head_nl t : Forall byte t ->
  (exists r, enc_text t = 10 :: r) <-> (exists t', t = 10 :: t').
Proof.
  intros Ht. split.
  - intros (r & E). destruct (ascii_head t 10 r Ht E ltac:(lia)) as (t' & -> & _). eauto.
  - intros (t' & ->). cbn [enc_text flat_map]. rewrite enc_nl. cbn [app]. eauto.
Qed.

Lemma match_section_enc t : Forall byte t -> match_section (enc_text t) = match_section t.
Proof.
  intros Ht.
  destruct t as [|b0 t]; [reflexivity|]. inversion Ht as [|? ? Hb0 Ht0]; subst.
  destruct (Z.eq_dec b0 95) as [->|N0].
  2:{ (* first byte is not '_' : neither side matches *)
    assert (L : match_section (b0 :: t) = None).
    { cbn [match_section]. destruct b0 as [|p|p]; try reflexivity.
      repeat (destruct p as [p|p|]; try reflexivity); try lia. }
    rewrite L. cbn [enc_text flat_map].
    destruct (enc_class b0 Hb0) as [[E _]|[F N]].
    - rewrite E. cbn [app]. change (match_section (b0 :: flat_map enc t)) with (match_section (b0 :: enc_text t)).
      cbn [match_section]. destruct b0 as [|p|p]; try reflexivity.
      repeat (destruct p as [p|p|]; try reflexivity); try lia.
    - destruct (enc b0) as [|y e]; [congruence|]. inversion F as [|? ? Hy _]; subst. cbn [app match_section].
      destruct y as [|p|p]; try reflexivity. repeat (destruct p as [p|p|]; try reflexivity); try lia. }
  destruct (enc_plain 95 Hb0 eq_refl) as [E95 _].
  cbn [enc_text flat_map]. rewrite E95. cbn [app]. fold (enc_text t).
  destruct t as [|b1 t]; [reflexivity|]. inversion Ht0 as [|? ? Hb1 Ht1]; subst.
  destruct (Z.eq_dec b1 95) as [->|N1].
  2:{ assert (L : match_section (95 :: b1 :: t) = None).
      { cbn [match_section]. destruct b1 as [|p|p]; try reflexivity.
        repeat (destruct p as [p|p|]; try reflexivity); try lia. }
      rewrite L. cbn [enc_text flat_map].
      destruct (enc_class b1 Hb1) as [[E _]|[F N]].
      - rewrite E. cbn [app match_section]. destruct b1 as [|p|p]; try reflexivity.
        repeat (destruct p as [p|p|]; try reflexivity); try lia.
      - destruct (enc b1) as [|y e]; [congruence|]. inversion F as [|? ? Hy _]; subst. cbn [app match_section].
        destruct y as [|p|p]; try reflexivity. repeat (destruct p as [p|p|]; try reflexivity); try lia. }
  cbn [enc_text flat_map]. rewrite E95. cbn [app]. fold (enc_text t).
  cbn [match_section]. rewrite (span_enc t Ht1). destruct (span is_word t) as [w rest] eqn:S. cbn [fst snd].
  assert (Hrest : Forall byte rest).
  { clear - S Ht1. revert w rest S. induction Ht1 as [|c t Hc Ht IH]; intros w rest S.
    - cbn in S. injection S as <- <-. constructor.
    - cbn [span] in S. destruct (is_word c).
      + destruct (span is_word t) as [a r]. injection S as <- <-. apply (IH a r eq_refl).
      + injection S as <- <-. constructor; assumption. }
  destruct rest as [|c rest'].
  - reflexivity.
  - inversion Hrest as [|? ? Hc Hr']; subst. cbn [enc_text flat_map].
    destruct (Z.eq_dec c 10) as [->|Nc].
    + rewrite enc_nl. reflexivity.
    + destruct (enc_class c Hc) as [[E _]|[F N]].
      * rewrite E. cbn [app]. destruct c as [|p|p]; try reflexivity.
      * destruct (enc c) as [|y e]; [congruence|]. inversion F as [|? ? Hy _]; subst. cbn [app].
        assert (Hc' : match c :: rest' with 10 :: _ => match drop_last2 w with Some (c0 :: p) => Some (c0 :: p) | _ => None end | _ => None end = None).
        { destruct c as [|p|p]; try reflexivity. repeat (destruct p as [p|p|]; try reflexivity); try lia. }
        rewrite Hc'. destruct y as [|p|p]; try reflexivity. repeat (destruct p as [p|p|]; try reflexivity); try lia.
Qed.

(* ---- a line of P8SCII text comes back from its file form ---- *)
Lemma line_to_p8scii_enc t : Forall byte t -> line_to_p8scii (enc_text t) = Ok t.
Proof.
  intros Ht. unfold line_to_p8scii. rewrite <- lua_chunk_text_enc. unfold lua_chunk_text.
  rewrite utf8_decode_encode by (apply p8_p2u_valid; exact Ht). apply p8_u2p_p2u. exact Ht.
Qed.

(* plain ASCII lines (hex rows, blank lines, section headers) are their own file form *)
Lemma enc_text_plain l : Forall byte l -> forallb plain_byte l = true -> enc_text l = l.
Proof.
  intros Hb Hp. induction Hb as [|c l Hc Hl IH]; [reflexivity|].
  cbn [forallb] in Hp. apply andb_true_iff in Hp. destruct Hp as [P1 P2].
  cbn [enc_text flat_map]. destruct (enc_plain c Hc P1) as [E _]. rewrite E. cbn [app]. f_equal. apply IH. exact P2.
Qed.

Lemma line_to_p8scii_plain l : Forall byte l -> forallb plain_byte l = true -> line_to_p8scii l = Ok l.
Proof. intros Hb Hp. rewrite <- (enc_text_plain l Hb Hp) at 1. apply line_to_p8scii_enc. exact Hb. Qed.
