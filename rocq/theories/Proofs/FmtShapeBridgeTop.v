(* C10, re-indentation clause from source bytes with the monitor's relation as the hypothesis (lemma for Properties/C10.v):
   Proofs/FmtShapeBridgeMain.v (same_modulo_line_edges -> ref_reindent_equiv) composed with Proofs/FmtRelexReindent.v. *)
From PV Require Import Base.Prelude Spec.LuaTokens Spec.LuaGrammar Spec.LuaLex Spec.SameCode Spec.TokenDepth Spec.ReindentSpec
  Instances.HoldsC01
  Model.Tokens Model.Parser Model.ParserInst Model.WriterChunks Model.AstWriter Model.WriterDomain Model.FmtSpaces Model.FmtSpacesInst
  Proofs.AstWriterDepth Proofs.AstWriterLines Proofs.AstWriterReindent Proofs.FmtRelexReindent.
From PV Require Model.Lexer Model.LexToken Spec.FmtShape Proofs.FmtShapeBridgeMain.
Import LexToken.

(* re-indentation invariance from source bytes, the two sources related by the monitor's own relation *)
Theorem reindent_bytes w src1 ss1 lts1 root1 e1 src2 ss2 lts2 root2 e2 :
  Forall byte src1 -> spec_lex src1 = Some ss1 -> Lexer.model_lex [src1] = Ok lts1 ->
  lua_parse (map LexToken.lex_token lts1) = Ok (root1, e1) -> consumed (map LexToken.lex_token lts1) e1 = true ->
  writable (map LexToken.lex_token lts1) root1 = true -> no_trailing_sep root1 = true -> gaps_tidy (map LexToken.lex_token lts1) = true ->
  Forall byte src2 -> spec_lex src2 = Some ss2 -> Lexer.model_lex [src2] = Ok lts2 ->
  lua_parse (map LexToken.lex_token lts2) = Ok (root2, e2) -> consumed (map LexToken.lex_token lts2) e2 = true ->
  writable (map LexToken.lex_token lts2) root2 = true -> no_trailing_sep root2 = true -> gaps_tidy (map LexToken.lex_token lts2) = true ->
  FmtShape.same_modulo_line_edges src1 src2 = Some true ->
  writer_text (fmt_spaces w) (map LexToken.lex_token lts1) (view root1) = writer_text (fmt_spaces w) (map LexToken.lex_token lts2) (view root2).
Proof.
  intros B1 S1 M1 P1 C1 W1 T1 G1 B2 S2 M2 P2 C2 W2 T2 G2 He.
  exact (reindent_bytes_partial w src1 ss1 lts1 root1 e1 src2 ss2 lts2 root2 e2 B1 S1 M1 P1 C1 W1 T1 G1 B2 S2 M2 P2 C2 W2 T2 G2
    (FmtShapeBridgeMain.edges_to_ref_equiv _ _ _ _ S1 S2 He)).
Qed.
