(* Re-writing the re-read cart gives the same file. *)
From PV Require Import Base.Prelude Base.ListX Base.PySlice Base.Hex Base.Utf8 Base.Dec Model.HexSection Model.Gfx Model.Gff
  Model.MapSec Model.Sfx Model.Music Model.P8sciiInst Model.P8File Generated.K_p8file
  Spec.P8Format Spec.P8FileSpec
  Proofs.HexSectionProofs Proofs.RowLemmas Proofs.GfxProofs Proofs.MusicProofs Proofs.SfxLines Proofs.C16Proofs
  Proofs.P8FileLines Proofs.P8FileEnc Proofs.P8FileWrite Proofs.P8FileRead Proofs.P8FileCollect Proofs.P8FileRoundtrip.
From Coq Require Import ZifyBool.
Ltac Zify.zify_post_hook ::= Z.to_euclidean_division_equations.

Lemma supply_nl_idem t : supply_nl (supply_nl t) = supply_nl t.
Proof.
  unfold supply_nl. destruct (ends_nl t) eqn:E1; [rewrite E1; reflexivity|].
  rewrite ends_nl_eq, ends_with_nl_app. reflexivity.
Qed.

(* ---- the music text does not depend on the unrepresentable bit ---- *)
Definition norm4 (r : list Z) : list Z :=
  match r with [a; b; c; e] => [a; b; c; e mod 128] | _ => r end.

Lemma music_norm_rows rows : Forall (fun r => zlen r = 4) rows ->
  music_norm (concat rows) = concat (map norm4 rows).
Proof.
  induction 1 as [|r rows Hr Hrows IH]; [reflexivity|].
  destruct r as [|b0 [|b1 [|b2 [|b3 [|x r]]]]]; try (unfold zlen in Hr; cbn in Hr; lia).
  cbn [concat map norm4 app music_norm]. rewrite IH. reflexivity.
Qed.

Lemma spec_music_lines_rows rows : Forall (fun r => zlen r = 4) rows -> Forall (Forall byte) rows ->
  spec_music_lines (concat rows) = map spec_music_row rows.
Proof.
  intros HL HB.
  assert (L : length (concat rows) = (length rows * 4)%nat).
  { apply (length_concat_rows 4). eapply Forall_impl; [|exact HL]. cbv beta. intros a Ha. unfold zlen in Ha. lia. }
  pose proof (music_to_lines_spec (length rows) (concat rows) L (Forall_concat _ _ HB)) as A.
  rewrite (music_to_lines_rows rows HL HB) in A. injection A as A. symmetry. exact A.
Qed.

Lemma spec_music_row_norm4 r : zlen r = 4 -> spec_music_row (norm4 r) = spec_music_row r.
Proof.
  intros Hr. destruct r as [|b0 [|b1 [|b2 [|b3 [|x r]]]]]; try (unfold zlen in Hr; cbn in Hr; lia).
  cbn [norm4 spec_music_row]. replace ((b3 mod 128) mod 128) with (b3 mod 128) by lia. reflexivity.
Qed.

Lemma norm4_facts r : zlen r = 4 -> Forall byte r -> zlen (norm4 r) = 4 /\ Forall byte (norm4 r).
Proof.
  intros Hr Hb. destruct r as [|b0 [|b1 [|b2 [|b3 [|x r]]]]]; try (unfold zlen in Hr; cbn in Hr; lia).
  split; [reflexivity|]. cbn [norm4].
  inversion Hb as [|? ? H0 B1]; subst. inversion B1 as [|? ? H1 B2]; subst.
  inversion B2 as [|? ? H2 B3]; subst. inversion B3 as [|? ? H3 _]; subst.
  repeat constructor; try assumption; unfold byte in *; lia.
Qed.

Lemma music_norm_lines k d : length d = (k * 4)%nat -> Forall byte d ->
  spec_music_lines (music_norm d) = spec_music_lines d /\ Forall byte (music_norm d).
Proof.
  intros Hk Hd.
  destruct (chunks_len 4 k d ltac:(lia) Hk) as [F _]. pose proof (chunks_bytes 4 d Hd) as B.
  assert (F' : Forall (fun r => zlen r = 4) (chunks 4 d)).
  { eapply Forall_impl; [|exact F]. cbv beta. intros a Ha. unfold zlen. lia. }
  rewrite <- (chunks_concat 4 d) at 1 3 by lia. rewrite (music_norm_rows _ F').
  assert (N : Forall (fun r => zlen r = 4) (map norm4 (chunks 4 d)) /\ Forall (Forall byte) (map norm4 (chunks 4 d))).
  { rewrite !Forall_forall in *. split; intros x Hx; apply in_map_iff in Hx; destruct Hx as (r & <- & Hr);
      apply (norm4_facts r (F' r Hr) (B r Hr)). }
  destruct N as (N1 & N2). split; [|apply Forall_concat; exact N2].
  rewrite (spec_music_lines_rows _ N1 N2).
  rewrite <- (chunks_concat 4 d) at 2 by lia. rewrite (spec_music_lines_rows _ F' B).
  rewrite map_map. apply map_ext_in. intros r Hr. apply spec_music_row_norm4.
  rewrite Forall_forall in F'. apply F'. exact Hr.
Qed.

Section WithLua.
Variable lua : Type.
Variable lua_from_lines : list (list Z) -> result lua.
Variable lua_to_lines : lua -> list (list Z).
Variable lua_empty : lua.
Notation cart := (cart lua).
Notation write_p8 := (write_p8 lua lua_from_lines lua_to_lines).
Notation read_p8 := (read_p8 lua lua_from_lines lua_empty).
Notation wf_cart := (wf_cart lua lua_to_lines).
Notation code_text := (code_text lua lua_to_lines).
Notation code_lines := (code_lines lua lua_to_lines).
Notation norm_cart := (norm_cart lua).
Notation file_lines := (file_lines lua lua_to_lines).

(* what the lexer stack has to provide about the re-read Lua object l' *)
Definition echo_stable (c : cart) (l' : lua) : Prop :=
  concat (lua_to_lines l') = supply_nl (code_text c) /\
  ended_flag (lua_to_lines l') = ends_with_nl (concat (lua_to_lines l')) /\
  exists l1, lua_from_lines (lua_to_lines l') = Ok l1.

Lemma p8_rewrite c l0 l' : wf_cart c ->
  lua_from_lines (lua_to_lines (c_lua c)) = Ok l0 ->
  ended_flag (lua_to_lines (c_lua c)) = ends_with_nl (code_text c) ->
  code_in_format (code_text c) = true ->
  echo_stable c l' ->
  write_p8 (norm_cart c l') = write_p8 c.
Proof.
  intros W Hs He Hf (Ec & Ee & (l1 & Es)).
  pose proof W as (Hv & Lg & Lf & Lm & Ls & Lmu & Bg & Bf & Bm & Bs & Bmu & Hlab & Hch).
  destruct (music_norm_lines 64 (c_music c) Lmu Bmu) as (ML & MB).
  assert (T' : code_text (norm_cart c l') = supply_nl (code_text c)) by exact Ec.
  assert (W' : wf_cart (norm_cart c l')).
  { unfold P8FileWrite.wf_cart, P8FileRoundtrip.norm_cart.
    cbn [c_version c_lua c_gfx c_label c_gff c_map c_sfx c_music].
    repeat split; try assumption.
    - rewrite music_norm_length. exact Lmu.
    - apply Forall_concat_inv. rewrite Ec. unfold supply_nl.
      assert (B : Forall byte (code_text c)) by (apply Forall_concat; exact Hch).
      destruct (ends_nl (code_text c)); [exact B|]. apply Forall_app. split; [exact B | repeat constructor; unfold byte; lia]. }
  assert (Hf' : code_in_format (code_text (norm_cart c l')) = true).
  { rewrite T'. unfold code_in_format in *. rewrite supply_nl_idem. exact Hf. }
  assert (He' : ended_flag (lua_to_lines (c_lua (norm_cart c l'))) = ends_with_nl (code_text (norm_cart c l'))) by exact Ee.
  destruct (p8_roundtrip lua lua_from_lines lua_to_lines lua_empty c l0 W Hs He Hf) as (f1 & W1 & F1 & _).
  destruct (p8_roundtrip lua lua_from_lines lua_to_lines lua_empty (norm_cart c l') l1 W' Es He' Hf') as (f2 & W2 & F2 & _).
  rewrite W1, W2. f_equal. rewrite F1, F2. f_equal.
  unfold P8FileRoundtrip.file_lines, P8FileRoundtrip.code_lines, post, label_chunks. rewrite T', supply_nl_idem.
  unfold P8FileRoundtrip.norm_cart. cbn [c_version c_lua c_gfx c_label c_gff c_map c_sfx c_music].
  rewrite ML. reflexivity.
Qed.

End WithLua.
